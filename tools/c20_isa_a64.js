// C20: dumps the instruction forms of /repo/db/isa_aarch64.json (asmjit's own ISA database, read-only) as JSON lines:
// name and the textual operand descriptors. usage: node c20_isa_a64.js <repo>
const fs = require('fs');
const path = require('path');
const repo = process.argv[2] || '/repo';
const db = require(path.join(repo, 'db'));
const isa = new db.aarch64.ISA(JSON.parse(fs.readFileSync(path.join(repo, 'db', 'isa_aarch64.json'))));
for (const inst of isa.instructions) {
  console.log(JSON.stringify({name: inst.name, ops: inst.operands.map(o => ({data: o.data || '', type: o.type || '', reg: o.reg || '', mem: o.mem || ''}))}));
}

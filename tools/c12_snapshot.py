#!/usr/bin/env python3
"""Refreshes the committed snapshot coq/gen/C12_*.v from the working tree of VERIF_REPO (default /repo): the same generator run as
./check C12, written into coq/gen so that the check takes its fast path.  Usage: python3 tools/c12_snapshot.py  (then `cd coq && make`)."""
import glob
import os
import sys
sys.path.insert(0, os.path.dirname(os.path.abspath(__file__)))
sys.path.insert(0, os.path.join(os.path.dirname(os.path.abspath(__file__)), "checks"))
import vlib
import c12

ck = vlib.Check("C12")
files, info = c12.generate(ck)
gen = os.path.join(vlib.COQ, "gen")
os.makedirs(gen, exist_ok=True)
for p in glob.glob(os.path.join(gen, "C12_*.v")):
    if os.path.basename(p) not in files:
        os.unlink(p)
changed = 0
for n, t in files.items():
    p = os.path.join(gen, n)
    if not os.path.exists(p) or open(p).read() != t:
        open(p, "w").write(t)
        changed += 1
print("snapshot: %d files, %d rewritten; %s" % (len(files), changed, info))

"""C15 helpers: crash-tolerant batch execution of harness cases and the python judge (the independent oracle).

A case is one command line of harness/c15_harness.cpp ("F <wid> <policy> <mode> <pattern> <rec>"). The harness answers one
line of raw facts per case; when the process dies (sanitizer report, signal) the case in flight is recorded with the
sanitizer summary and the remaining cases are resumed in a fresh process.
"""
import os
import re
import subprocess
from concurrent.futures import ThreadPoolExecutor

ASAN_ENV = {"ASAN_OPTIONS": "detect_leaks=1:abort_on_error=0:halt_on_error=1:allocator_may_return_null=1:detect_stack_use_after_return=0",
            "UBSAN_OPTIONS": "print_stacktrace=1:halt_on_error=1",
            "LSAN_OPTIONS": "exitcode=23"}


def crash_summary(err):
    m = re.search(r"(runtime error: [^\n]*)", err)
    if m:
        loc = re.search(r"([A-Za-z0-9_./-]+\.(?:cpp|h):\d+):\d+: runtime error", err)
        return "ubsan " + (os.path.basename(loc.group(1)) if loc else "") + " " + m.group(1)[:160]
    m = re.search(r"ERROR: AddressSanitizer: ([^\n]*)", err)
    if m:
        fr = re.findall(r"#\d+ 0x[0-9a-f]+ in ([^\n]+)", err)
        fr = [f for f in fr if "asmjit" in f][:3]
        return "asan " + m.group(1)[:120] + " | " + " <- ".join(x[:110] for x in fr)
    m = re.search(r"ERROR: LeakSanitizer: ([^\n]*)", err)
    if m:
        return "lsan " + m.group(1)[:200]
    return "died: " + err.strip()[-300:]


def crash_site(err):
    """Canonical crash location: first asmjit source frame (file:function), address-free."""
    loc = re.search(r"([A-Za-z0-9_.-]+\.(?:cpp|h)):(\d+):\d+: runtime error", err)
    if loc:
        return "ubsan:%s" % loc.group(1)
    for f in re.findall(r"#\d+ 0x[0-9a-f]+ in ([^\n]+)", err):
        m = re.match(r"(\S.*?) (/\S+?)([A-Za-z0-9_.-]+\.(?:cpp|h)):\d+", f)
        if m and "/asmjit/" in m.group(2) + m.group(3) or (m and "asmjit" in m.group(2)):
            fn = re.sub(r"\(.*", "", m.group(1))
            fn = fn.split("::")[-1] if "::" in fn else fn
            return "asan:%s:%s" % (m.group(3), fn)
    return "crash:unknown"


MAX_CRASHES_PER_BATCH = 6
SKIPPED = "<skipped: too many crashes in this batch>"


def run_batch(exe, cases, timeout=900):
    """Returns list of (case, answer_line or None, crash_text or None). After MAX_CRASHES_PER_BATCH dead processes the rest of
    the batch is not run (each entry is returned with crash_text SKIPPED) - a tree on which most cases crash would otherwise
    cost one process start + sanitizer report per case."""
    out = []
    i = 0
    crashes = 0
    env = dict(os.environ)
    env.update(ASAN_ENV)
    while i < len(cases):
        if crashes >= MAX_CRASHES_PER_BATCH:
            out += [(c, None, SKIPPED) for c in cases[i:]]
            break
        chunk = cases[i:]
        try:
            p = subprocess.run([exe], input="\n".join(chunk) + "\n", stdout=subprocess.PIPE, stderr=subprocess.PIPE, text=True,
                               errors="replace", timeout=timeout, env=env)
            so, se, rc = p.stdout, p.stderr, p.returncode
        except subprocess.TimeoutExpired as e:
            so = e.stdout.decode(errors="replace") if isinstance(e.stdout, bytes) else (e.stdout or "")
            se, rc = "TIMEOUT after %ds" % timeout, 124
        lines = [l for l in so.split("\n") if l]
        for c, l in zip(chunk, lines):
            out.append((c, l, None))
        i += len(lines)
        if len(lines) < len(chunk):
            # the case in flight died
            out.append((chunk[len(lines)], None, se[-6000:] if se else "rc=%s" % rc))
            i += 1
            crashes += 1
        elif rc != 0:
            # all answered but the process exit was unclean (e.g. LeakSanitizer at exit)
            out.append(("<process exit after %d cases: %s>" % (len(chunk), chunk[0]), None, se[-6000:] if se else "rc=%s" % rc))
    return out


def run_sharded(exe, cases, shards=16, timeout=900):
    shards = max(1, min(shards, len(cases)))
    chunks = [cases[i::shards] for i in range(shards)]
    with ThreadPoolExecutor(max_workers=shards) as ex:
        res = list(ex.map(lambda c: run_batch(exe, c, timeout), chunks))
    merged = []
    for r in res:
        merged += r
    return merged


def parse_line(line):
    t = line.split()
    d = {}
    for x in t:
        if "=" in x:
            k, v = x.split("=", 1)
            d[k] = v
    d["_head"] = t[:6]
    return d


# asmjit Error enum values used by the judge (core/globals.h): only kOk and kOutOfMemory matter by value
ERR_OK = "0"


def judge_fault_case(case, d, clean):
    """Independent judgement of ONE fault case from the raw facts the harness printed. `clean` = parsed dry-run line.
    Returns (violations, notes): violations = list of (key_suffix, description), empty = the property holds on this case;
    notes = list of strings (e.g. 'correct-but-not-identical')."""
    bad, notes = [], []
    t = case.split()
    wid, policy, mode = t[1], t[2], t[3]
    clean_hash, clean_exec = clean["run_hash"], clean.get("run_exec", "-")
    fired = int(d["fired"])
    if d["run_mon"] != "-":
        bad.append(("monitor", "invariant monitor: %s" % d["run_mon"]))
    if d["retry_mon"] != "-":
        bad.append(("retry-monitor", "invariant monitor on retry: %s" % d["retry_mon"]))
    if d["live_heap"] != "0":
        bad.append(("heap-leak", "%s heap blocks still allocated after every object was destroyed" % d["live_heap"]))
    if d["live_maps"] != "0":
        bad.append(("vm-leak", "%s mappings still mapped after every object was destroyed" % d["live_maps"]))
    if d["fds"] != "0":
        bad.append(("fd-leak", "%s file descriptors leaked" % d["fds"]))
    # retry with memory available must succeed and equal the failure-free result exactly
    if d["retry_err"] != ERR_OK:
        bad.append(("retry-fails/%s/%s" % (d["retry_err"], d["retry_stage"].split("(")[0]), "retry after recovery (rec=%s) fails with error %s at %s although memory is available" % (t[5], d["retry_err"], d["retry_stage"])))
    elif d["retry_hash"] != clean_hash or d.get("retry_exec", "-") != clean_exec:
        bad.append(("retry-differs", "retry after recovery (rec=%s) produced %s/%s, failure-free run %s/%s" % (t[5], d["retry_hash"], d.get("retry_exec"), clean_hash, clean_exec)))
    if d["run_err"] == ERR_OK:
        # every call reported success: the result must be correct - identical to the failure-free one, or (when the workload
        # executes its code on the host) computing the same outputs
        if d["run_hash"] != clean_hash:
            if clean_exec != "-" and d.get("run_exec", "-") == clean_exec:
                notes.append("correct-but-not-identical")
            else:
                bad.append(("ok-but-different", "all calls returned kOk under the fault but the result is %s (exec %s), failure-free %s (exec %s)"
                            % (d["run_hash"], d.get("run_exec"), clean_hash, clean_exec)))
        elif d.get("run_exec", "-") != clean_exec:
            bad.append(("ok-but-wrong-output", "same code bytes but different execution output %s vs %s" % (d.get("run_exec"), clean_exec)))
    else:
        if fired == 0:
            bad.append(("spurious-error", "error %s at %s although no request was failed" % (d["run_err"], d["run_stage"])))
        # continue-policy: after a reported single failure, later finalisation calls must work
        if policy == "1" and d["run_late"] != ERR_OK and t[4].startswith("one:") and int(d["run_ffin"]) == fired and int(d["run_ffin"]) > 0:
            bad.append(("later-call-fails/" + d["run_latestage"].split("(")[0], "after the failed call (%s, error %s) was reported, %s fails with error %s although memory is available again"
                        % (d["run_stage"], d["run_err"], d["run_latestage"], d["run_late"])))
    return bad, notes


# ------------------------------------------------------------------------------------------------------------------
# correspondence scripts (model vs implementation) and their independent python judge
# ------------------------------------------------------------------------------------------------------------------
def gen_vec_script(rng, isz, n):
    ops = []
    for _ in range(n):
        c = rng.random()
        if c < 0.45:
            ops.append("a%d" % rng.randrange(1 << 20))
        elif c < 0.52:
            ops.append("p%d" % rng.randrange(1 << 20))
        elif c < 0.60:
            ops.append("i%d:%d" % (rng.randrange(1000), rng.randrange(1 << 20)))
        elif c < 0.66:
            ops.append("g%d" % rng.choice([0, 1, 3, 5, 17, 40, 65, 130, 300, 520, 700]))
        elif c < 0.72:
            ops.append("t%d" % rng.choice([0, 2, 4, 9, 33, 64, 129, 257, 600]))
        elif c < 0.80:
            ops.append("r%d" % rng.choice([1, 2, 5, 16, 33, 100, 170, 171, 255, 256, 257, 400, 511, 512, 513]))
        elif c < 0.86:
            ops.append("f%d" % rng.choice([1, 4, 5, 16, 17, 100, 170, 171, 256, 257, 511, 512, 513, 900, 4294967295]))
        elif c < 0.91:
            ops.append("w%d" % rng.choice([1, 4, 5, 16, 17, 100, 170, 171, 256, 257, 511, 512, 513, 4294967295]))
        elif c < 0.94:
            ops.append("c")
        else:
            ops.append("o")
    return ["S", "vec", str(isz), "MASK"] + ops


def gen_hash_script(rng, n):
    ops, keys = [], []
    for _ in range(n):
        if keys and rng.random() < 0.2:
            ops.append("d%d" % rng.choice(keys + [rng.randrange(1 << 16)]))
        else:
            k = rng.randrange(1 << 16) if rng.random() < 0.8 else rng.choice(keys or [7])
            keys.append(k)
            ops.append("i%d" % k)
    return ["S", "hash", "MASK"] + ops


def gen_pool_script(rng, n):
    ops, seen = [], []
    for _ in range(n):
        c = rng.random()
        if seen and c < 0.2:
            d = rng.choice(seen)                                    # duplicate
        elif c < 0.35 and any(len(x) for x in seen):
            big = rng.choice([x for x in seen if len(x)])           # sub-constant of an earlier one
            ln = rng.choice([1, 2, 4, 8, 16, 32])
            ln = min(ln, len(big))
            o = rng.randrange(0, len(big) // ln) * ln
            d = big[o:o + ln]
        else:
            ln = rng.choice([1, 1, 2, 2, 4, 4, 8, 8, 16, 32, 64, 3, 0 if rng.random() < 0.3 else 12])
            small = rng.random() < 0.5
            d = bytes(rng.randrange(4) if small else rng.randrange(256) for _ in range(ln))
        seen.append(d)
        ops.append("c" + d.hex())
    return ["S", "pool", "MASK"] + ops


def gen_holder_script(rng, n):
    ops, nl = ["L"], 1
    for _ in range(n):
        c = rng.random()
        if c < 0.18:
            ops.append("L"); nl += 1
        elif c < 0.24:
            ops.append("R")
        elif c < 0.32:
            ops.append("S%d" % rng.choice([-7, 0, 0, 3, 3, 100, 2147483647, -2147483648]))
        elif c < 0.38:
            ops.append("A%d" % rng.choice([4096, 8192, 12288, rng.getrandbits(47)]))
        elif c < 0.46:
            ops.append("C%d" % rng.choice([4096, 8192, 0x123456789ABC, rng.getrandbits(47)]))
        elif c < 0.58:
            ops.append("F%d" % rng.randrange(nl + 1))
        elif c < 0.75:
            ops.append("E%d" % rng.randrange(nl + 1))
        elif c < 0.87:
            ops.append("D")
        else:
            ops.append("B%d" % rng.randrange(0 if rng.random() < 0.1 else 1, nl + 1))
    return ["S", "holder", "MASK"] + ops


def gen_builder_script(rng, n):
    ops, nl, ns = [], 0, 1
    for _ in range(n):
        c = rng.random()
        if c < 0.16:
            ops.append("n"); nl += 1
        elif c < 0.30:
            ops.append("b%d" % rng.randrange(nl + 2))
        elif c < 0.42:
            ops.append("s%d" % rng.randrange(ns + 1))
        elif c < 0.49:
            ops.append("S%d" % rng.choice([0, 0, 5, -3])); ns += 1
        elif c < 0.56:
            ops.append("C%d" % rng.randrange(40))
        elif c < 0.62:
            ops.append("p%d" % rng.randrange(nl + 1))
        elif c < 0.68:
            ops.append("c")
        elif c < 0.74:
            ops.append("E%d" % rng.randrange(nl + 3))
        elif c < 0.80:
            ops.append(rng.choice("le"))
        else:
            ops.append("i")
    return ["S", "builder", "MASK"] + ops


def gen_vm_script(rng, n, dual):
    ops, kinds = [], []          # kinds of the handles created so far: 'm', 'd', 'b', or None once released
    for _ in range(n):
        c = rng.random()
        live = [i for i, k in enumerate(kinds) if k]
        if live and c < 0.3:
            i = rng.choice(live)
            ops.append(("x%d" if kinds[i] == "b" else "u%d") % i)
            if rng.random() < 0.9: kinds[i] = None          # sometimes release twice (refused)
        elif c < 0.5:
            ops.append("m%d" % rng.choice([4, 64, 256])); kinds.append("m")
        elif c < 0.7:
            ops.append("d%d" % rng.choice([64, 128])); kinds.append("d")
        else:
            ops.append("b%d" % rng.choice([64, 128, 1024])); kinds.append("b")
    return ["S", "vmd" if dual else "vm", "MASK"] + ops


def gen_ra_script(rng, n):
    return ["S", "ra", "MASK"] + [("g%d" if rng.random() < 0.45 else "a%d") % rng.randrange(8) for _ in range(n)]


def gen_str_script(rng, n):
    ops = []
    for _ in range(n):
        c = rng.random()
        ln = rng.choice([0, 1, 5, 29, 30, 31, 40, 97, 128, 200, 511, 600, 1500])
        data = bytes(rng.randrange(33, 127) for _ in range(ln)).hex()
        if c < 0.35: ops.append("a" + data)
        elif c < 0.50: ops.append("s" + data)
        elif c < 0.65: ops.append("c%d" % rng.choice([0, 1, 7, 31, 100, 130, 513, 3000]))
        elif c < 0.75: ops.append("C%d" % rng.choice([0, 3, 30, 31, 127, 128, 129, 700]))
        elif c < 0.82: ops.append("x")
        elif c < 0.88: ops.append("r")
        else: ops.append("t%d" % rng.choice([0, 2, 30, 31, 100, 5000]))
    return ["S", "str", "MASK"] + ops


def gen_arena_script(rng, n):
    """Arena::alloc_oneshot sizes (positive multiples of 8) around the block sizes 2^11.. minus the overheads, resets in between"""
    ops = []
    for _ in range(n):
        c = rng.random()
        if c < 0.08: ops.append("r0")
        elif c < 0.12: ops.append("r1")
        else:
            ops.append("a%d" % rng.choice([8, 16, 64, 200, 504, 1000, 1984, 2000, 2008, 2016, 2024, 2048, 4040, 4048, 4064, 4096, 8144, 8200,
                                          16000, 40000, 100000, 8 * rng.randrange(1, 600)]))
    return ["S", "arena", "MASK"] + ops


def gen_jit_script(rng, n, dual):
    ops, live = [], []
    nspans = 0
    for _ in range(n):
        c = rng.random()
        if c > 0.96:
            ops.append("r%d" % rng.choice([0, 0, 1]))      # JitAllocator::reset(soft / hard): every span is gone
            live = []
        elif live and c < 0.12:
            i = rng.choice(live)
            n = rng.choice([0, 1, 64, 65, 500, 4096, 70000])
            if n == 0: live.remove(i)
            ops.append("h%d:%d" % (i, n))
        elif live and c < 0.40:
            i = rng.choice(live); live.remove(i)
            ops.append("k%d" % i)
        elif live and c < 0.46:
            ops.append("q%d" % rng.choice(live))           # JitAllocator::query: a look-up, touches nothing
        else:
            ops.append("j%d" % rng.choice([64, 100, 1000, 4096, 20000, 40000, 65536, 100000, 200000, 300000]))
            live.append(nspans); nspans += 1       # the index exists even when the allocation fails (release is then refused)
    return ["S", "jitd" if dual else "jit", "MASK"] + ops


def with_mask(script, mask):
    return " ".join(mask if t == "MASK" else t for t in script)


def parse_answer(ans):
    """'S kind tok tok ... | dump [| dump] req=N' -> (kind, [tok], [dump strings], req)"""
    m = re.search(r" req=(\d+)(?:,(\d+))?$", ans)
    req = (int(m.group(1)) if m.group(2) is None else (int(m.group(1)), int(m.group(2)))) if m else -1
    body = ans[:m.start()] if m else ans
    parts = body.split(" | ")
    head = parts[0].split()
    return head[1] if len(head) > 1 else "?", head[2:], [p.strip() for p in parts[1:]], req


def judge_script(cmd, ans):
    """Independent check of the PROPERTY on the implementation's own answers to one script (atomicity of every failed
    operation, abstract result of every successful one). Returns list of (key_suffix, description)."""
    bad = []
    t = cmd.split()
    kind, toks, dumps, req = parse_answer(ans)
    if kind != t[1]:
        return [("protocol", "answer %r to %r" % (ans[:80], cmd[:80]))]
    if kind == "vec":
        ops = t[4:]
        items, prev_cap = [], 0
        if len(toks) != len(ops):
            return [("protocol", "answer count")]
        for op, tok in zip(ops, toks):
            r, size, cap = map(int, tok.split("/"))
            c, a = op[0], op[1:]
            if r == 0:
                if c == "a": items.append(int(a))
                elif c == "p": items.insert(0, int(a))
                elif c == "i":
                    i, x = a.split(":"); items.insert(int(i) % (len(items) + 1), int(x))
                elif c in "gt":
                    n = int(a); items = items[:n] if n <= len(items) else items + [0] * (n - len(items))
                elif c == "c": items = []
                elif c == "o": items = items[:-1]
                need = {"r": lambda: len(items) + int(a), "f": lambda: int(a), "w": lambda: int(a)}.get(c)
                if need and cap < need():
                    bad.append(("vec/reserve-too-small", "%s reported kOk but capacity %d < %d" % (op, cap, need())))
            elif r == 1:
                if cap != prev_cap:
                    bad.append(("vec/failed-op-changed-capacity", "%s failed but capacity %d -> %d" % (op, prev_cap, cap)))
            if size != len(items):
                bad.append(("vec/size", "after %s (result %d) size is %d, expected %d" % (op, r, size, len(items))))
                return bad
            if cap < size:
                bad.append(("vec/capacity-below-size", "after %s capacity %d < size %d" % (op, cap, size)))
            prev_cap = cap
        final = [] if dumps[0] == "-" else [int(x) for x in dumps[0].split(",")]
        if final != [x & 0xFFFFFFFF for x in items]:
            bad.append(("vec/content", "final content differs from the list obtained by applying exactly the operations that reported kOk"))
    elif kind == "hash":
        ops = t[3:]
        live, mentioned = [], []
        for op, tok in zip(ops, toks):
            r, size, nb = map(int, tok.split("/"))
            key = int(op[1:])
            if key not in mentioned: mentioned.append(key)
            if op[0] == "i" and r == 0: live.append(key)
            elif op[0] == "d":
                if r == 0:
                    if key not in live:
                        bad.append(("hash/remove-absent", "removed %d which was not in the table" % key)); return bad
                    live.remove(key)
                elif key in live:
                    bad.append(("hash/lost-key", "key %d not found before removal although it was inserted" % key))
            if size != len(live):
                bad.append(("hash/size", "after %s (result %d) size %d, expected %d" % (op, r, size, len(live)))); return bad
        final = [] if dumps[0].split(" get=")[0] == "-" else [int(x) for x in dumps[0].split(" get=")[0].split(",")]
        if final != sorted(live):
            bad.append(("hash/content", "reachable nodes differ from the keys whose insertion reported success"))
        gets = dumps[0].split(" get=")[1]
        for k, g in zip(mentioned + [999983], gets):
            if (g == "1") != (k in live):
                bad.append(("hash/get", "get(%d) = %s but membership is %s" % (k, g, k in live)))
    elif kind == "pool":
        ops = t[3:]
        consts = {}
        prev_nodes = None
        for op, tok in zip(ops, toks):
            f = tok.split("/")
            r = int(f[0]); d = bytes.fromhex(op[1:])
            valid = len(d) in (1, 2, 4, 8, 16, 32, 64)
            if r == 0:
                off = int(f[1])
                if not valid:
                    bad.append(("pool/invalid-size-accepted", "size %d accepted" % len(d)))
                elif off % len(d) or off + len(d) > int(f[2]):
                    bad.append(("pool/offset", "constant of size %d at offset %d (pool size %s)" % (len(d), off, f[2])))
                if d in consts and consts[d] != off:
                    bad.append(("pool/offset-not-stable", "same constant returned at %d and %d" % (consts[d], off)))
                consts[d] = off
            elif r == 2 and valid:
                bad.append(("pool/valid-size-refused", "size %d refused" % len(d)))
        # final image from the node dump: every non-shared node is written, every successfully added constant must read back
        image = {}
        for tree in dumps[0].split(";"):
            for n in [x for x in tree.split(",") if x]:
                o, sh, hx = n.split(":")
                b = bytes.fromhex(hx)
                for i, v in enumerate(b):
                    if sh == "0":
                        if image.get(int(o) + i, v) != v:
                            bad.append(("pool/overlap", "two constants overlap at offset %d" % (int(o) + i)))
                        image[int(o) + i] = v
        for tree in dumps[0].split(";"):
            for n in [x for x in tree.split(",") if x]:
                o, sh, hx = n.split(":")
                b = bytes.fromhex(hx)
                if sh == "1" and any(image.get(int(o) + i) != v for i, v in enumerate(b)):
                    bad.append(("pool/shared-node-wrong", "shared node at %s does not denote bytes of a real constant" % o))
        for d, off in consts.items():
            if any(image.get(off + i) != v for i, v in enumerate(d)):
                bad.append(("pool/constant-not-at-offset", "constant %s is not stored at the offset %d that add() returned" % (d.hex(), off)))
    elif kind == "holder":
        ops = t[3:]
        prev = (0, 0, 0, 1, 0)     # labels, relocations, unresolved fixups, sections (.text), address-table entries
        for op, tok in zip(ops, toks):
            r, nl, nr, un, pl, ns, ne = map(int, tok.split("/"))
            cur = (nl, nr, un, ns, ne)
            if r != 0:
                # a failed A/C may have created the (empty) address-table section lazily; nothing else may change
                lazy = op[0] in "AC" and cur == (prev[0], prev[1], prev[2], prev[3] + 1, prev[4])
                if cur != prev and not lazy:
                    bad.append(("holder/failed-op-changed-state/" + op[0], "%s failed (result %d) but (labels, relocations, unresolved fixups, sections, address entries) went %s -> %s" % (op, r, prev, cur)))
            else:
                exp = {"L": (prev[0] + 1,) + prev[1:], "R": (prev[0], prev[1] + 1) + prev[2:], "F": prev[:2] + (prev[2] + 1,) + prev[3:],
                       "S": prev[:3] + (prev[3] + 1, prev[4])}.get(op[0])
                if exp and cur != exp:
                    bad.append(("holder/ok-result/" + op[0], "%s succeeded but counts went %s -> %s" % (op, prev, cur)))
                if op[0] == "E" and (cur[0] != prev[0] or cur[1] != prev[1] + 1 or cur[2] not in (prev[2], prev[2] + 1) or cur[3:] != prev[3:]):
                    bad.append(("holder/ok-result/E", "%s succeeded but counts went %s -> %s" % (op, prev, cur)))
                if op[0] in "AC":
                    okc = cur[0] == prev[0] and cur[2] == prev[2] and cur[1] == prev[1] + (1 if op[0] == "C" else 0) \
                        and cur[3] in (prev[3], prev[3] + 1) and cur[4] in (prev[4], prev[4] + 1)
                    if not okc:
                        bad.append(("holder/ok-result/" + op[0], "%s succeeded but counts went %s -> %s" % (op, prev, cur)))
            prev = cur
        if len(dumps) >= 5:
            orders = [int(x) for x in dumps[2].split(",")] if dumps[2] != "-" else []
            by = [int(x) for x in dumps[3].split(",")] if dumps[3] != "-" else []
            if sorted(by) != list(range(len(orders))) or any((orders[by[i]], by[i]) > (orders[by[i + 1]], by[i + 1]) for i in range(len(by) - 1)):
                bad.append(("holder/sections-by-order", "sections_by_order %s is not the ids sorted by (order, id) for orders %s" % (by, orders)))
    elif kind == "str":
        ops = t[3:]
        cur, pcap = b"", 30
        for op, tok in zip(ops, toks):
            if tok.endswith("!noterm"):
                bad.append(("str/not-terminated", "after %s the string is not NUL-terminated" % op[:20])); tok = tok[:-7]
            r, size, cap, large = map(int, tok.split("/"))
            c, a_ = op[0], op[1:]
            if r == 0:
                if c == "a": cur += bytes.fromhex(a_)
                elif c == "s": cur = bytes.fromhex(a_)
                elif c == "c": cur += b"z" * int(a_)
                elif c == "C": cur = b"z" * int(a_)
                elif c in "xr": cur = b""
                elif c == "t": cur = cur[:int(a_)] if int(a_) < len(cur) else cur
            elif cap != pcap:
                bad.append(("str/failed-op-changed-capacity", "%s failed but the capacity went %d -> %d" % (op[:20], pcap, cap)))
            if size != len(cur) or cap < size:
                bad.append(("str/size", "after %s (result %d): size %d capacity %d, expected size %d" % (op[:20], r, size, cap, len(cur)))); break
            pcap = cap
        final = b"" if dumps[0] == "-" else bytes.fromhex(dumps[0])
        if final != cur and not bad:
            bad.append(("str/content", "final content differs from applying exactly the operations that reported kOk"))
    elif kind == "ra":
        ops = t[3:]
        home = [False] * 8
        nslots = 0
        for op, tok in zip(ops, toks):
            r, ns, cap, bits = tok.split("/")
            r, ns = int(r), int(ns)
            w = int(op[1:]) % 8
            cur = [c == "1" for c in bits]
            if op[0] == "g":
                if r == 0 and not cur[w]:
                    bad.append(("ra/ok-without-slot", "%s reported a slot but the work register has none" % op))
                if r != 0 and (cur != home or ns != nslots):
                    bad.append(("ra/failed-get-changed-state", "%s failed but slots %d -> %d, homes %s -> %s" % (op, nslots, ns, home, cur)))
            others_same = all(cur[i] == home[i] for i in range(8) if i != w)
            if not others_same or (home[w] and not cur[w]) or ns != sum(cur) or ns < nslots:
                bad.append(("ra/slot-bookkeeping", "after %s: %d slots, homes %s (before: %d, %s)" % (op, ns, bits, nslots, home)))
            home, nslots = cur, ns
        owners = [] if dumps[0] == "-" else dumps[0].split()
        if len(set(owners)) != len(owners) or "-1" in owners:
            bad.append(("ra/slot-owners", "slot owners %s are not distinct work registers" % owners))
    elif kind == "arena":
        # independent rules on the real arena: a failed allocation keeps the remaining bytes of the current block (what was handed
        # out stays valid) and never adds a block; a successful one takes the bytes from the current block or from a block that
        # is at least as large as the request; regions never overlap (the harness compares the pointers); a hard reset frees all
        ops = t[3:]
        prem, pheap = 0, 0
        for op, tok in zip(ops, toks):
            if tok.endswith("!overlap"):
                bad.append(("arena/overlap", "%s returned bytes that overlap an earlier allocation" % op)); tok = tok[:-8]
            r, rem, heap = map(int, tok.split("/"))
            if op[0] == "a":
                n = int(op[1:])
                if r == 1 and (rem != prem or heap > pheap):
                    bad.append(("arena/failed-alloc-changed-state", "%s failed but remaining/blocks went %s -> %s" % (op, (prem, pheap), (rem, heap))))
                if r == 0 and n <= prem and (rem != prem - n or heap != pheap):
                    bad.append(("arena/bump", "%s fits the current block (%d left) but remaining/blocks went to %s" % (op, prem, (rem, heap))))
                if r == 0 and n > prem and heap > pheap + 1:
                    bad.append(("arena/blocks", "%s added %d blocks" % (op, heap - pheap)))
            elif op == "r1" and (rem, heap) != (0, 0):
                bad.append(("arena/hard-reset-keeps-memory", "after a hard reset: %d bytes remaining, %d blocks" % (rem, heap)))
            elif op == "r0" and heap != pheap:
                bad.append(("arena/soft-reset-changed-blocks", "soft reset: blocks %d -> %d" % (pheap, heap)))
            prem, pheap = rem, heap
        if dumps and dumps[0] != "end 0":
            bad.append(("arena/leak-at-end", "after destroying the arena: %s heap blocks" % dumps[0]))
    elif kind in ("jit", "jitd"):
        # balance rules on the real allocator: a failed alloc changes neither mappings, block records nor the block count; the
        # number of mappings is (1 or 2) x blocks and the number of block records equals the number of blocks
        per = 2 if kind == "jitd" else 1
        pm, ph, pb = 0, 0, 0
        for op, tok in zip(t[3:], toks):
            r, lm, lh, nb = map(int, tok.split("/"))
            if op[0] == "j" and r == 1 and (lm, lh, nb) != (pm, ph, pb):
                bad.append(("jit/failed-alloc-changed-state", "%s failed but mappings/block records/blocks went %s -> %s" % (op, (pm, ph, pb), (lm, lh, nb))))
            if lm != per * nb or lh != nb:
                bad.append(("jit/balance", "after %s: %d mappings, %d block records for %d blocks" % (op, lm, lh, nb))); break
            pm, ph, pb = lm, lh, nb
        if dumps and dumps[0] != "end 0/0/0":
            bad.append(("jit/leak-at-end", "after destroying the allocator: mappings/heap blocks/fds = %s" % dumps[0]))
    elif kind in ("vm", "vmd"):
        ops = t[3:]
        maps, heap = 0, 0
        nviews = {"m": 1, "d": 2, "b": 2 if kind == "vmd" else 1}
        handles = []
        for op, tok in zip(ops, toks):
            r, lm, lh = map(int, tok.split("/"))
            c = op[0]
            if c in "mdb":
                if r == 0:
                    maps += nviews[c]; heap += (1 if c == "b" else 0); handles.append((nviews[c], 1 if c == "b" else 0))
                else:
                    handles.append(None)
            elif c in "ux" and r == 0:
                i = int(op[1:])
                if i >= len(handles) or handles[i] is None:
                    bad.append(("vm/release-accepted", "%s accepted for a handle that is not live" % op))
                else:
                    maps -= handles[i][0]; heap -= handles[i][1]; handles[i] = None
            if (lm, lh) != (maps, heap):
                what = "leaked" if (lm > maps or lh > heap) else "lost"
                bad.append(("vm/%s/%s" % ("failed-op-" + what if r != 0 else "ok-op-" + what, c),
                            "%s (result %d): %d live mappings / %d live block records, expected %d / %d" % (op, r, lm, lh, maps, heap)))
                break
        if dumps and dumps[0] != "end 0/0/0":
            bad.append(("vm/leak-at-end", "after releasing everything and destroying the allocator: mappings/heap blocks/fds = %s" % dumps[0]))
    elif kind == "builder":
        ops = t[3:]
        # independent replay of the flat node list with its cursor: exactly the successful operations take effect
        nodes, cur, bound, nlab, nsec = ["S0"], 0, set(), 0, 1
        pln, psn = 0, 1
        for op, tok in zip(ops, toks):
            r, nl, ln, sn, ns, rc = map(int, tok.split("/"))
            if r != 0 and (ln < pln or sn < psn):
                bad.append(("builder/failed-op-dropped-nodes", "%s failed (result %d) and the label/section node tables shrank (%d,%d) -> (%d,%d)" % (op, r, pln, psn, ln, sn)))
            pln, psn = ln, sn
            c = op[0]
            def add(x):
                nonlocal cur
                nodes.insert(cur + 1, x); cur += 1
            if c == "n":
                if r == 0: nlab += 1
                elif nl not in (nlab, nlab + 1):
                    bad.append(("builder/label-count", "failed new_label changed the label count %d -> %d" % (nlab, nl)))
                else: nlab = nl          # an orphan label may stay in the holder
            elif c == "S" and r == 0: nsec += 1
            elif c in "ileEc" and r == 0:
                add({"i": "I", "l": "A", "e": "D", "c": "C"}.get(c) or ("E" + op[1:]))
            elif c == "b" and r == 0:
                li = int(op[1:])
                if li in bound or li >= nlab: bad.append(("builder/bind-accepted", "%s accepted (bound %s, labels %d)" % (op, li in bound, nlab)))
                bound.add(li); add("L%d" % li)
            elif c == "s" and r == 0:
                sid = int(op[1:])
                if sid >= nsec: bad.append(("builder/section-accepted", "%s accepted with %d sections" % (op, nsec)))
                tag = "S%d" % sid
                if tag in nodes:
                    p = nodes.index(tag); q = p + 1
                    while q < len(nodes) and not nodes[q].startswith("S"): q += 1
                    cur = q - 1
                else:
                    nodes.append(tag); cur = len(nodes) - 1
            elif c == "C":
                cur = int(op[1:]) % len(nodes)
            elif c == "p":
                li = int(op[1:])
                if r == 0:
                    add("A"); add("L%d" % li); add("D"); bound.add(li)
                elif r == 1 and rc in (cur + 1, cur + 2):
                    # the code before fixes/C15-embed-const-pool-atomic.patch: the align node (and the bound label) stay behind
                    bad.append(("builder/const-pool-partial", "embed_const_pool failed (kOutOfMemory) but left %d node(s) behind the cursor (align node%s)"
                                % (rc - cur, " and the bound label" if rc == cur + 2 else "")))
                    extra = rc - cur
                    add("A")
                    if extra == 2: add("L%d" % li); bound.add(li)
            if nl != nlab or ns != nsec or rc != cur:
                bad.append(("builder/counts", "after %s (result %d): labels %d sections %d cursor %d, expected %d %d %d" % (op, r, nl, ns, rc, nlab, nsec, cur))); break
        want = " ".join(nodes)
        if dumps and dumps[0] != want and not any(k.startswith("builder/counts") for k, _ in bad):
            bad.append(("builder/node-list", "node list %r differs from what the successful operations build %r" % (dumps[0][:200], want[:200])))
    return bad

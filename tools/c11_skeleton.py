#!/usr/bin/env python3
"""C11 translator: clang AST (json) of jitallocator.cpp / jitruntime.cpp  ->  lock skeleton (Coq term, coq/gen/LockSkeleton.v)
and `nm` of the static build -> writable globals (coq/gen/WritableGlobals.v).

For every public entry point of JitAllocator / JitRuntime the tool produces the ordered, structured skeleton of
   SAcc fn cls fld mode    access to a data member `cls::fld` (mode R/W), lexically inside function fn
   SGlob fn name mode c    access to a variable with static storage duration (c = declared const/constexpr)
   SCall fn callee         call of a function that has no body in the two translation units (extern / libc / other TU)
   SLocked fn cls fld b    `LockGuard g(x->fld)`: Acq at the declaration, body b = rest of the enclosing block, Rel at every exit
   SRaw fn what            something the checker does not support (explicit lock()/unlock(), goto, ...)
   SInl callee b           inlined callee (every function whose body is visible is inlined, transitively)
   SSeq / SAlt / SLoop / SRet / SSkip   control structure (if/?:/&&/|| -> SAlt, loops/switch -> SLoop, return/break/continue -> SRet)
Pointer-typed data members of the tracked classes that point to scalars get a second pseudo member "fld[]" for the pointee
(subscripts, dereferences, and passing the pointer to a parameter of pointer type: const T* -> R, T* -> W).

The tool is in the trusted base: it is trusted to see every MemberExpr / LockGuard / call of the entry points."""
import json
import os
import re
import subprocess
import sys

CLANG_FLAGS = ["-std=c++17", "-DNDEBUG", "-DASMJIT_STATIC", "-DASMJIT_VERIF", "-w"]
FUNC_KINDS = ("FunctionDecl", "CXXMethodDecl", "CXXConstructorDecl", "CXXDestructorDecl", "CXXConversionDecl")
RECORD_KINDS = ("CXXRecordDecl", "ClassTemplateSpecializationDecl", "ClassTemplatePartialSpecializationDecl")
# entry points: every public non-static member function of these classes except the ones below
ENTRY_CLASSES = ["JitAllocator", "JitRuntime"]
NOT_ENTRY = {
    "JitAllocator::reset": "documented 'not thread-safe' (jitallocator.h): used when nobody else uses the allocator",
    "JitRuntime::reset": "delegates to JitAllocator::reset (not thread-safe by contract)",
}
MAX_DEPTH = 24
# methods of these classes, when called from an entry point, run on an object owned by the calling thread (the CodeHolder passed to
# JitRuntime::add). The library has no writable statics (WritableGlobals), so such a call can only reach memory through that object:
# member accesses inside are thread-owned and are not emitted; calls, statics, locks inside ARE still emitted and checked.
OWNED_CONTEXT_CLASSES = ("CodeHolder",)


class TU:
    def __init__(self, path, repo):
        self.path = path
        self.repo = repo
        cmd = ["clang++"] + CLANG_FLAGS + ["-I" + repo, "-fsyntax-only", "-Xclang", "-ast-dump=json", path]
        p = subprocess.run(cmd, stdout=subprocess.PIPE, stderr=subprocess.PIPE, timeout=300)
        if p.returncode != 0:
            raise RuntimeError("clang failed on %s: %s" % (path, p.stderr.decode(errors="replace")[-2000:]))
        self.root = json.loads(p.stdout)
        self.byid = {}
        self.qual = {}      # decl id -> qualified name
        self.owner = {}     # FieldDecl id -> record qualified name
        self.defs = {}      # decl id (any redeclaration) -> definition node
        self.records = {}   # qualified record name -> [definition nodes]
        self.record_names = set()
        self.ctors = {}     # record qualified name -> [ctor definition nodes]
        self.access = {}    # member decl id -> public/private/protected
        self.mangled = {}   # mangledName -> definition node
        self._index(self.root, [], None)
        for nid, n in list(self.byid.items()):
            if n.get("kind") in FUNC_KINDS and self._has_body(n):
                self.defs[nid] = n
                prev = n.get("previousDecl")
                seen = 0
                while prev and prev in self.byid and seen < 10:
                    self.defs.setdefault(prev, n)
                    prev = self.byid[prev].get("previousDecl")
                    seen += 1
                if n.get("mangledName"):
                    self.mangled[n["mangledName"]] = n

    @staticmethod
    def _has_body(n):
        for c in n.get("inner", []):
            if c.get("kind") in ("CompoundStmt", "CXXCtorInitializer"):
                return True
        return False

    def _index(self, n, ctx, rec):
        k = n.get("kind")
        nid = n.get("id")
        if nid:
            self.byid[nid] = n
        name = n.get("name")
        newctx, newrec = ctx, rec
        if k == "NamespaceDecl":
            newctx = ctx if n.get("isInline") else ctx + ([name] if name else ["(anon)"])
            if nid:
                self.qual[nid] = "::".join(newctx)
        elif k in RECORD_KINDS:
            newctx = ctx + [name or "(anon)"]
            newrec = "::".join(newctx)
            self.qual[nid] = newrec
            self.record_names.add(name or "(anon)")
            if n.get("completeDefinition") or any(c.get("kind") == "FieldDecl" for c in n.get("inner", [])):
                self.records.setdefault(newrec, []).append(n)
        elif k in FUNC_KINDS:
            pid = n.get("parentDeclContextId")
            fctx = ctx
            if pid and pid in self.qual and self.byid.get(pid, {}).get("kind") in RECORD_KINDS + ("NamespaceDecl",):
                fctx = [x for x in self.qual[pid].split("::") if x]     # out-of-line definition: lexically elsewhere, semantically in the class / namespace
            self.qual[nid] = "::".join(fctx + [name or "?"])
            n["_ctxrec"] = rec
            newctx = fctx + [name or "?"]
        elif k == "FieldDecl":
            self.owner[nid] = rec
            self.qual[nid] = name
        elif k in ("VarDecl",):
            self.qual[nid] = "::".join(ctx + [name or "?"])
        acc = None
        if k in RECORD_KINDS:
            acc = "private" if n.get("tagUsed") == "class" else "public"
        for c in n.get("inner", []) or []:
            if not isinstance(c, dict):
                continue
            if k in RECORD_KINDS:
                if c.get("kind") == "AccessSpecDecl":
                    acc = c.get("access")
                    continue
                if c.get("id"):
                    self.access[c["id"]] = acc
                    if c.get("kind") == "FunctionTemplateDecl":
                        for cc in c.get("inner", []):
                            if cc.get("id"):
                                self.access[cc["id"]] = acc
            self._index(c, newctx, newrec)

    def strip_ns(self, q):
        return q[len("asmjit::"):] if q and q.startswith("asmjit::") else (q or "?")

    def func_name(self, n):
        """qualified name of a function definition node (out-of-line definitions use parentDeclContextId)."""
        p = n.get("parentDeclContextId")
        if p and p in self.qual and self.byid[p].get("kind") in RECORD_KINDS:
            return self.strip_ns(self.qual[p] + "::" + n.get("name", "?"))
        return self.strip_ns(self.qual.get(n.get("id"), n.get("name", "?")))

    def func_record(self, n):
        p = n.get("parentDeclContextId")
        if p and p in self.qual and self.byid[p].get("kind") in RECORD_KINDS:
            return self.qual[p]
        return n.get("_ctxrec")


# ---------------------------------------------------------------------------------------------------- skeleton construction
def seq(items):
    out = []
    for i in items:
        if i is None or i == ("skip",):
            continue
        if i[0] == "seq":
            out += i[1]
        else:
            out.append(i)
    if not out:
        return ("skip",)
    if len(out) == 1:
        return out[0]
    return ("seq", out)


def alt(a, b):
    if a == ("skip",) and b == ("skip",):
        return ("skip",)
    return ("alt", a, b)


def loop(a):
    if a == ("skip",):
        return ("skip",)
    return ("loop", a)


class Builder:
    def __init__(self, tus):
        self.tus = tus
        self.memo = {}          # (tu index, def id) -> (name, tree)
        self.order = []         # definition order of inlined functions
        self.stack = []
        self.retref = [False]   # does the function being translated return a reference? (return <lvalue> is then no access)
        self.owned = 0          # > 0 while translating the body of a method of OWNED_CONTEXT_CLASSES (and everything it calls)
        self.owned_skipped = 0  # member accesses inside such a context (thread-owned by construction): not emitted
        self.recursive_calls = 0
        self.local_skipped = 0  # member accesses on automatic (local) objects of tracked classes: thread-local, not emitted
        self.dtor_inlined = 0   # implicit destructor calls of locals that were inlined
        self.dying = [set()]    # per function: pointer variables whose object is freed in this function (finalisation)
        self.taint = [set()]    # per function: ids of local pointer variables that point into block (JIT) memory
        self.src_memo = {}
        self.visited = set()    # ids of MemberExpr / call nodes that were translated (audit of the traversal)
        self.unvisited = {}     # function -> number of evaluated member accesses / calls the traversal never reached
        self.unknown_ctx = {}   # statement/expression kinds met without a dedicated rule (reported)
        self.mangled = {}
        for i, tu in enumerate(tus):
            for m, n in tu.mangled.items():
                self.mangled.setdefault(m, (i, n))

    # -- type helpers
    @staticmethod
    def _qt(n):
        t = n.get("type") or {}
        return t.get("qualType", ""), t.get("desugaredQualType", t.get("qualType", ""))

    def _is_record_pointee(self, tu, qt, dqt):
        base = dqt.replace("const ", "").replace("*", "").replace("&", "").strip()
        last = re.split(r"::", re.sub(r"<.*>", "", base))[-1].strip()
        return last in tu.record_names or base in ("void",)

    @staticmethod
    def _strip(n):
        while n.get("kind") in ("ParenExpr", "ImplicitCastExpr", "CStyleCastExpr", "CXXStaticCastExpr", "CXXReinterpretCastExpr",
                                "CXXConstCastExpr", "CXXFunctionalCastExpr", "ExprWithCleanups", "MaterializeTemporaryExpr",
                                "CXXBindTemporaryExpr", "ConstantExpr") and n.get("inner"):
            n = n["inner"][-1] if n.get("kind") == "CStyleCastExpr" else n["inner"][0]
        return n

    def field_info(self, tu, mexpr):
        """(cls, fld, is scalar pointer) for a MemberExpr naming a FieldDecl, else None"""
        mid = mexpr.get("referencedMemberDecl")
        m = tu.byid.get(mid)
        if not m or m.get("kind") not in ("FieldDecl", "IndirectFieldDecl"):
            return None
        cls = tu.strip_ns(re.sub(r"<.*>", "", tu.owner.get(mid) or "?"))
        qt, dqt = self._qt(m)
        is_ptr = dqt.rstrip().endswith("*") and not self._is_record_pointee(tu, qt, dqt)
        return cls, m.get("name", "?"), is_ptr

    def _rooted_at_local(self, tu, n):
        """MemberExpr chain `x.a.b` (dots only) whose root x is a local variable / by-value parameter of class type"""
        cur = n
        while True:
            if cur.get("kind") == "MemberExpr":
                if cur.get("isArrow"):
                    return False
                inner = [c for c in cur.get("inner", []) or [] if isinstance(c, dict)]
                if not inner:
                    return False
                cur = inner[0]
            elif cur.get("kind") in ("ParenExpr", "ImplicitCastExpr") and cur.get("castKind") in (None, "NoOp", "LValueToRValue"):
                cur = (cur.get("inner") or [{}])[0]
            else:
                break
        if cur.get("kind") != "DeclRefExpr":
            return False
        rd = cur.get("referencedDecl") or {}
        if rd.get("kind") not in ("VarDecl", "ParmVarDecl"):
            return False
        v = tu.byid.get(rd.get("id"), rd)
        if v.get("_filescope") or v.get("storageClass") in ("static", "extern"):
            return False
        t = (v.get("type") or {})
        dq = t.get("desugaredQualType", t.get("qualType", "")).strip()
        return not (dq.endswith("&") or dq.endswith("*"))

    # -- provenance of pointers into the blocks' virtual memory ("<jit memory>")
    JIT_CLASS, JIT_FIELD = "JitAllocatorBlock", "<jit memory>"

    def _is_mapping_member(self, tu, n):
        if n.get("kind") != "MemberExpr":
            return False
        fi = self.field_info(tu, n)
        return fi is not None and fi[0] == "VirtMem::DualMapping" and fi[1] in ("rx", "rw")

    def _returns_mapping_pointer(self, tu, d):
        """callee with a pointer result whose own body reads DualMapping::rx/rw (JitAllocatorBlock::rx_ptr / rw_ptr)"""
        df = tu.defs.get(d.get("id"))
        if df is None:
            return False
        key = (id(tu), df["id"])
        if key not in self.src_memo:
            rt = (df.get("type") or {}).get("qualType", "").split("(")[0].strip()
            found = [False]

            def walk(x):
                if self._is_mapping_member(tu, x):
                    found[0] = True
                for c in x.get("inner", []) or []:
                    if isinstance(c, dict) and not found[0]:
                        walk(c)
            if rt.endswith("*"):
                walk(df)
            self.src_memo[key] = found[0]
        return self.src_memo[key]

    def is_jit_pointer(self, tu, n):
        """does expression n (syntactically) carry a pointer into a block's mapping?"""
        if not isinstance(n, dict):
            return False
        k = n.get("kind")
        if self._is_mapping_member(tu, n):
            return True
        if k == "DeclRefExpr" and (n.get("referencedDecl") or {}).get("id") in self.taint[-1]:
            return True
        if k in ("CallExpr", "CXXMemberCallExpr"):
            inner = [c for c in n.get("inner", []) or [] if isinstance(c, dict)]
            d, _, _ = self.callee_decl(tu, n, inner)
            return d is not None and self._returns_mapping_pointer(tu, d)
        if k in ("LambdaExpr", "UnaryExprOrTypeTraitExpr"):
            return False
        return any(self.is_jit_pointer(tu, c) for c in n.get("inner", []) or [] if isinstance(c, dict))

    def freed_vars(self, tu, df):
        out = set()

        def walk(x):
            if x.get("kind") == "CallExpr":
                inner = [c for c in x.get("inner", []) or [] if isinstance(c, dict)]
                d, _, args = self.callee_decl(tu, x, inner)
                if d is not None and d.get("name") == "free" and args:
                    a = self._strip(args[0])
                    if a.get("kind") == "DeclRefExpr":
                        out.add((a.get("referencedDecl") or {}).get("id"))
            for c in x.get("inner", []) or []:
                if isinstance(c, dict):
                    walk(c)
        walk(df)
        return out

    def compute_taint(self, tu, df):
        """flow-insensitive: local variables initialised / assigned from an expression that carries a mapping pointer"""
        t = set()
        self.taint.append(t)
        changed = True
        while changed:
            changed = False

            def walk(x):
                nonlocal changed
                k = x.get("kind")
                if k == "VarDecl" and x.get("id") not in t:
                    dq = (x.get("type") or {}).get("desugaredQualType", (x.get("type") or {}).get("qualType", ""))
                    if dq.rstrip().endswith("*") and any(self.is_jit_pointer(tu, c) for c in x.get("inner", []) or [] if isinstance(c, dict)):
                        t.add(x.get("id")); changed = True
                if k == "BinaryOperator" and x.get("opcode") in ("=", "+=", "-="):
                    inner = [c for c in x.get("inner", []) or [] if isinstance(c, dict)]
                    if len(inner) == 2:
                        lhs = self._strip(inner[0])
                        if lhs.get("kind") == "DeclRefExpr" and (lhs.get("referencedDecl") or {}).get("kind") == "VarDecl":
                            vid = (lhs.get("referencedDecl") or {}).get("id")
                            v = tu.byid.get(vid, {})
                            dq = (v.get("type") or {}).get("desugaredQualType", (v.get("type") or {}).get("qualType", ""))
                            if vid not in t and dq.rstrip().endswith("*") and self.is_jit_pointer(tu, inner[1]):
                                t.add(vid); changed = True
                for c in x.get("inner", []) or []:
                    if isinstance(c, dict):
                        walk(c)
            walk(df)

    def jit_access(self, tu, fn, arg, pt):
        if pt and self.is_jit_pointer(tu, arg):
            return [("acc", fn, self.JIT_CLASS, self.JIT_FIELD, m.upper()) for m in (("r", "w") if pt == "rw" else (pt,))]
        return []

    # -- expressions
    def expr(self, tu, fn, n, mode=None, pointee=None):
        """returns skeleton of evaluating expression/statement n. mode: how the designated lvalue is used (r/w/rw/None=unknown)."""
        if not isinstance(n, dict):
            return ("skip",)
        k = n.get("kind")
        inner = [c for c in n.get("inner", []) or [] if isinstance(c, dict)]
        E = lambda c, m=None, p=None: self.expr(tu, fn, c, m, p)

        if k == "MemberExpr":
            self.visited.add(n.get("id"))
            fi = self.field_info(tu, n)
            base = inner[0] if inner else None
            if fi is None:
                # member function reference outside a call (or static member): evaluate base
                return E(base) if base else ("skip",)
            cls, fld, is_ptr = fi
            if self.owned:
                self.owned_skipped += 1
                return E(base) if base is not None else ("skip",)
            if self._rooted_at_local(tu, n):
                # member of an automatic object (e.g. `VirtMem::DualMapping virt_mem` in JitAllocator_new_block): not shared
                self.local_skipped += 1
                return E(base) if base is not None else ("skip",)
            ev = []
            m = mode or "w"     # unknown context: conservative
            if base is not None:
                ev.append(E(base, None if n.get("isArrow") else mode))
            if m in ("w", "rw") and n.get("isArrow") and base is not None:
                root = self._strip(base)
                if root.get("kind") == "DeclRefExpr" and (root.get("referencedDecl") or {}).get("id") in self.dying[-1]:
                    # write to a member of an object that this very function frees: finalisation of an object that has been
                    # unlinked (under the lock) and is reachable by nobody else; treated like initialisation (must hold the lock)
                    m = "i" if m == "w" else "ri"
            for mm in {"rw": ("r", "w"), "ri": ("r", "i"), "addr": ()}.get(m, (m,)):
                ev.append(("acc", fn, cls, fld, mm.upper()))
            if pointee and is_ptr:
                for mm in (("r", "w") if pointee == "rw" else (pointee,)):
                    ev.append(("acc", fn, cls, fld + "[]", mm.upper()))
            return seq(ev)
        if k == "DeclRefExpr":
            rd = n.get("referencedDecl") or {}
            if rd.get("kind") == "VarDecl":
                v = tu.byid.get(rd.get("id"), rd)
                st = v.get("storageClass")
                is_global = st == "static" or self._is_file_scope(tu, v) or st == "extern"
                if is_global:
                    qt, dqt = self._qt(v)
                    if v.get("constexpr"):
                        return ("skip",)
                    const = dqt.startswith("const ") or qt.startswith("const ")
                    m = "r" if const else (mode or "w")
                    return seq([("glob", fn, tu.strip_ns(tu.qual.get(v.get("id"), v.get("name", "?"))), mm.upper(), const)
                                for mm in (("r", "w") if m == "rw" else (() if m == "addr" else (m,)))])
            return ("skip",)
        if k in ("ImplicitCastExpr", "CStyleCastExpr", "CXXStaticCastExpr", "CXXReinterpretCastExpr", "CXXConstCastExpr",
                 "CXXFunctionalCastExpr", "BuiltinBitCastExpr"):
            ck = n.get("castKind")
            sub = inner[-1] if inner else None
            if sub is None:
                return ("skip",)
            if ck == "LValueToRValue":
                return E(sub, "r", pointee)
            if ck == "ArrayToPointerDecay":
                return E(sub, pointee or mode, None)
            return E(sub, mode, pointee)
        if k in ("ParenExpr", "ExprWithCleanups", "MaterializeTemporaryExpr", "CXXBindTemporaryExpr", "ConstantExpr",
                 "SubstNonTypeTemplateParmExpr", "CXXDefaultArgExpr", "CXXDefaultInitExpr", "FullExpr"):
            return seq([E(c, mode, pointee) for c in inner])
        if k == "BinaryOperator":
            op = n.get("opcode")
            if op == "=":
                return seq([E(inner[1]), E(inner[0], "w")])
            if op in ("&&", "||"):
                return seq([E(inner[0]), alt(E(inner[1]), ("skip",))])
            if op == ",":
                return seq([E(inner[0]), E(inner[1], mode, pointee)])
            return seq([E(c) for c in inner])
        if k == "CompoundAssignOperator":
            return seq([E(inner[1]), E(inner[0], "rw")])
        if k == "UnaryOperator":
            op = n.get("opcode")
            if op in ("++", "--"):
                return E(inner[0], "rw")
            if op == "&":
                # address computation is not an access; what is done through the pointer is known only for call arguments
                return E(inner[0], pointee or "w")
            if op == "*":
                return seq([E(inner[0], None, mode or "w")] + self.jit_access(tu, fn, inner[0], mode or "w"))
            return seq([E(c) for c in inner])
        if k == "ArraySubscriptExpr":
            return seq([E(inner[0], None, mode or "w"), E(inner[1])] + self.jit_access(tu, fn, inner[0], mode or "w"))
        if k in ("ConditionalOperator", "BinaryConditionalOperator"):
            if len(inner) == 3:
                return seq([E(inner[0]), alt(E(inner[1], mode, pointee), E(inner[2], mode, pointee))])
            return seq([E(c) for c in inner])
        if k in ("CallExpr", "CXXMemberCallExpr", "CXXOperatorCallExpr"):
            return self.call(tu, fn, n, inner)
        if k in ("CXXConstructExpr", "CXXTemporaryObjectExpr"):
            return self.construct(tu, fn, n, inner)
        if k == "CXXNewExpr":
            return seq([E(c) for c in inner])
        if k == "CXXDeleteExpr":
            return seq([E(c) for c in inner] + [("call", fn, "operator delete")])
        if k == "LambdaExpr":
            # the closure body is evaluated where it is written (conservative for the lock context of callbacks defined here)
            body = [c for c in inner if c.get("kind") == "CompoundStmt"]
            return alt(seq([self.stmt(tu, fn + "::<lambda>", b) for b in body]), ("skip",))
        if k in ("InitListExpr", "CXXStdInitializerListExpr", "ParenListExpr", "ImplicitValueInitExpr", "CXXScalarValueInitExpr"):
            return seq([E(c) for c in inner])
        if k in ("IntegerLiteral", "CXXBoolLiteralExpr", "CXXNullPtrLiteralExpr", "FloatingLiteral", "StringLiteral", "CharacterLiteral",
                 "CXXThisExpr", "UnaryExprOrTypeTraitExpr", "GNUNullExpr", "TypeTraitExpr", "CXXNoexceptExpr", "SizeOfPackExpr",
                 "OpaqueValueExpr", "PredefinedExpr", "OffsetOfExpr", "UnresolvedLookupExpr", "DependentScopeDeclRefExpr"):
            return ("skip",)
        # statements
        return self.stmt(tu, fn, n)

    def _is_file_scope(self, tu, v):
        # VarDecl that is not a local: clang json has no direct flag; locals have no 'storageClass' and live inside a function.
        return v.get("_filescope", False)

    def callee_decl(self, tu, n, inner):
        """returns (decl node or None, object expr or None, args list)"""
        if not inner:
            return None, None, []
        c0 = self._strip(inner[0])
        args = inner[1:]
        if c0.get("kind") == "MemberExpr":
            d = tu.byid.get(c0.get("referencedMemberDecl"))
            obj = (c0.get("inner") or [None])[0]
            if d and d.get("kind") in FUNC_KINDS:
                return d, (obj, bool(c0.get("isArrow"))), args
            return None, (obj, bool(c0.get("isArrow"))), args
        if c0.get("kind") == "DeclRefExpr":
            rd = c0.get("referencedDecl") or {}
            if rd.get("kind") in FUNC_KINDS:
                d = tu.byid.get(rd.get("id"), rd)
                if n.get("kind") == "CXXOperatorCallExpr" and d.get("kind") == "CXXMethodDecl" and args:
                    return d, (args[0], False), args[1:]
                return d, None, args
        return None, None, args

    @staticmethod
    def param_modes(d):
        """list of (mode for a reference-bound lvalue, pointee mode) per parameter"""
        out = []
        for p in (d.get("inner") or []):
            if p.get("kind") != "ParmVarDecl":
                continue
            qt = (p.get("type") or {}).get("qualType", "")
            dq = (p.get("type") or {}).get("desugaredQualType", qt)
            t = dq.strip()
            if t.endswith("&&"):
                out.append(("r", None))
            elif t.endswith("&"):
                core = t[:-1].strip()
                out.append(("r" if core.startswith("const ") or core.endswith(" const") else "w", None))
            elif t.endswith("*") or t.endswith("*const") or t.endswith("* const"):
                core = t.rstrip("const ").rstrip()
                core = core[:-1].strip() if core.endswith("*") else core
                out.append((None, "r" if core.startswith("const ") or core.endswith(" const") else "w"))
            else:
                out.append((None, None))
        return out

    def call(self, tu, fn, n, inner):
        self.visited.add(n.get("id"))
        d, objinfo, args = self.callee_decl(tu, n, inner)
        ev = []
        name = None
        if d is None:
            # indirect call through a pointer / unresolved
            ev.append(self.expr(tu, fn, inner[0]) if inner else ("skip",))
            for a in args:
                ev.append(self.expr(tu, fn, a))
            c0 = self._strip(inner[0]) if inner else {}
            nm = (c0.get("referencedDecl") or {}).get("name") or c0.get("name") or "?"
            ev.append(("call", fn, "<indirect:%s>" % nm))
            return seq(ev)
        qname = self.decl_name(tu, d)
        dqt = (d.get("type") or {}).get("qualType", "")
        is_const_method = bool(re.search(r"\)\s*const\b", dqt))
        # explicit lock()/unlock() of asmjit::Lock
        if qname in ("Lock::lock", "Lock::unlock"):
            return ("raw", fn, "explicit %s()" % qname)
        if objinfo is not None and objinfo[0] is not None:
            obj, arrow = objinfo
            if d.get("kind") == "CXXMethodDecl" and d.get("storageClass") == "static":
                ev.append(self.expr(tu, fn, obj))
            else:
                has_body = tu.defs.get(d.get("id")) is not None or (d.get("mangledName") in self.mangled)
                # an inlined callee accounts for its own accesses through `this`; an opaque one is summarised by its constness
                ev.append(self.expr(tu, fn, obj, None if arrow else ("addr" if has_body else ("r" if is_const_method else "w"))))
        pm = self.param_modes(d)
        for i, a in enumerate(args):
            m, pt = pm[i] if i < len(pm) else (None, "w")
            ev.append(self.expr(tu, fn, a, m, pt))
            ev += self.jit_access(tu, fn, a, pt)
        ev.append(self.inline(tu, fn, d, qname))
        return seq(ev)

    def decl_name(self, tu, d):
        df = tu.defs.get(d.get("id"))
        if df is not None:
            return tu.func_name(df)
        p = d.get("parentDeclContextId")
        if p and p in tu.qual:
            return tu.strip_ns(tu.qual[p] + "::" + d.get("name", "?"))
        return tu.strip_ns(tu.qual.get(d.get("id"), d.get("name", "?")))

    def inline(self, tu, fn, d, qname):
        ti = self.tus.index(tu)
        df = tu.defs.get(d.get("id"))
        if df is None and d.get("mangledName") and d["mangledName"] in self.mangled:
            ti, df = self.mangled[d["mangledName"]]
        if df is None:
            if re.match(r"^__builtin_(expect|assume|unreachable|c[lt]z|popcount|bswap|ffs|assume_aligned|constant_p|is_constant_evaluated|[us](add|sub|mul)l*_overflow)", qname):
                return ("skip",)    # compiler intrinsics without memory effects
            return ("call", fn, re.sub(r"<.*>", "", qname))
        fname = re.sub(r"<.*>", "", self.tus[ti].func_name(df))
        enter_owned = any(fname.startswith(c + "::") for c in OWNED_CONTEXT_CLASSES)
        key = (ti, df["id"], bool(self.owned or enter_owned))
        if key in self.stack:
            self.recursive_calls += 1
            return ("skip",)      # recursion: the body is already part of the enclosing skeleton (same lock context)
        if len(self.stack) >= MAX_DEPTH:
            return ("call", fn, "<too deep:%s>" % qname)
        if key not in self.memo:
            self.stack.append(key)
            if enter_owned:
                self.owned += 1
            try:
                tree = self.function(self.tus[ti], df)
            finally:
                if enter_owned:
                    self.owned -= 1
            self.stack.pop()
            self.memo[key] = (self.tus[ti].func_name(df) + (" [owned context]" if key[2] else ""), tree)
            self.order.append(key)
        nm, tree = self.memo[key]
        if tree == ("skip",) or tree == ("ret",):
            return ("skip",)
        return ("inl", key)

    def function(self, tu, df):
        name = tu.func_name(df)
        name = re.sub(r"<.*>", "", name)
        ev = []
        rec = tu.func_record(df)
        fqt = (df.get("type") or {}).get("qualType", "")
        self.retref.append(fqt.split("(")[0].strip().endswith("&"))
        self.compute_taint(tu, df)
        self.dying.append(self.freed_vars(tu, df))
        try:
            tree = self._function_body(tu, df, name, rec)
        finally:
            self.retref.pop()
            self.taint.pop()
            self.dying.pop()
        missing = self.audit(tu, df)
        if missing:
            self.unvisited[name] = self.unvisited.get(name, 0) + missing
        return tree

    UNEVALUATED = ("UnaryExprOrTypeTraitExpr", "CXXNoexceptExpr", "StaticAssertDecl", "TypeTraitExpr", "CXXRecordDecl", "DecltypeType",
                   "CXXTypeidExpr", "FullComment", "ParmVarDecl")

    def audit(self, tu, node, top=True):
        """number of MemberExpr(field)/call nodes under `node` (evaluated context) that expr()/call() never translated"""
        k = node.get("kind")
        if not top and k in self.UNEVALUATED:
            return 0
        miss = 0
        if k == "MemberExpr" and self.field_info(tu, node) is not None and node.get("id") not in self.visited:
            miss += 1
        if k in ("CallExpr", "CXXMemberCallExpr", "CXXOperatorCallExpr") and node.get("id") not in self.visited:
            miss += 1
        for c in node.get("inner", []) or []:
            if isinstance(c, dict):
                miss += self.audit(tu, c, False)
        return miss

    def _function_body(self, tu, df, name, rec):
        ev = []
        for c in df.get("inner", []) or []:
            k = c.get("kind")
            if k == "CXXCtorInitializer":
                ai = c.get("anyInit")
                sub = [self.expr(tu, name, x) for x in c.get("inner", []) or []]
                if ai and ai.get("kind") == "FieldDecl" and self.owned:
                    self.owned_skipped += 1
                elif ai and ai.get("kind") == "FieldDecl":
                    cls = tu.strip_ns(re.sub(r"<.*>", "", tu.owner.get(ai.get("id")) or rec or "?"))
                    sub.append(("acc", name, cls, ai.get("name", "?"), "I"))   # initialisation of a member of the object under construction
                ev.append(seq(sub))
            elif k == "CompoundStmt":
                ev.append(self.stmt(tu, name, c))
        return seq(ev)

    def construct(self, tu, fn, n, inner):
        qt, dqt = self._qt(n)
        base = re.sub(r"<.*>", "", dqt.replace("const ", "").strip())
        ev = []
        # find the constructor by class + signature
        ct = (n.get("ctorType") or {}).get("qualType")
        cand = None
        for rname, nodes in tu.records.items():
            if rname == base or rname == "asmjit::" + base or rname.endswith("::" + base):
                for rn in nodes:
                    for c in rn.get("inner", []) or []:
                        if c.get("kind") == "CXXConstructorDecl" and (c.get("type") or {}).get("qualType") == ct:
                            cand = c
        pm = self.param_modes(cand) if cand else []
        for i, a in enumerate(inner):
            m, pt = pm[i] if i < len(pm) else (None, None)
            ev.append(self.expr(tu, fn, a, m, pt))
            ev += self.jit_access(tu, fn, a, pt)
        if cand is not None and not cand.get("isImplicit"):
            ev.append(self.inline(tu, fn, cand, tu.strip_ns(base) + "::" + cand.get("name", "ctor")))
        return seq(ev)

    # -- statements
    def guard_of(self, tu, fn, decl):
        """if VarDecl `decl` is a LockGuard returns (cls, fld) of the lock else None"""
        qt, dqt = self._qt(decl)
        if not re.search(r"\bLockGuard\b", dqt):
            return None
        init = [c for c in decl.get("inner", []) or [] if isinstance(c, dict) and c.get("kind") not in ("FullComment",)]
        arg = None
        if init:
            ce = self._strip(init[0])
            if ce.get("kind") in ("CXXConstructExpr",) and ce.get("inner"):
                arg = self._strip(ce["inner"][0])
        if arg is not None and arg.get("kind") == "MemberExpr":
            fi = self.field_info(tu, arg)
            if fi:
                return fi[0], fi[1], arg
        if arg is not None and arg.get("kind") == "DeclRefExpr":
            return "<var>", (arg.get("referencedDecl") or {}).get("name", "?"), arg
        return "<unknown>", "?", None

    def stmt(self, tu, fn, n):
        if not isinstance(n, dict):
            return ("skip",)
        k = n.get("kind")
        inner = [c for c in n.get("inner", []) or [] if isinstance(c, dict)]
        E = lambda c, m=None, p=None: self.expr(tu, fn, c, m, p)
        if k == "CompoundStmt":
            return self.block(tu, fn, inner)
        if k == "DeclStmt":
            return self.block(tu, fn, [n])
        if k == "IfStmt":
            # children: [init] [condvar] cond then [else]
            parts = inner
            has_else = n.get("hasElse")
            if has_else:
                pre, th, el = parts[:-2], parts[-2], parts[-1]
            else:
                pre, th, el = parts[:-1], parts[-1], None
            return seq([E(c) for c in pre] + [alt(E(th), E(el) if el else ("skip",))])
        if k in ("WhileStmt",):
            cond, body = inner[:-1], inner[-1]
            c = seq([E(x) for x in cond])
            return seq([c, loop(seq([E(body), c]))])
        if k == "DoStmt":
            return loop(seq([E(c) for c in inner]))
        if k == "ForStmt":
            # init, condvar, cond, inc, body (missing ones are {} in json -> filtered: keep order heuristically)
            raw = n.get("inner", [])
            parts = [(c if isinstance(c, dict) and c.get("kind") else None) for c in raw]
            while len(parts) < 5:
                parts.insert(0, None)
            init, condvar, cond, inc, body = parts[0], parts[1], parts[2], parts[3], parts[4]
            c = seq([E(x) for x in (condvar, cond) if x])
            return seq([E(init) if init else ("skip",), c, loop(seq([E(body) if body else ("skip",), E(inc) if inc else ("skip",), c]))])
        if k == "CXXForRangeStmt":
            return seq([loop(seq([E(c) for c in inner]))])
        if k == "SwitchStmt":
            cond, body = inner[:-1], inner[-1]
            return seq([E(x) for x in cond] + [loop(self.optional_children(tu, fn, body))])
        if k in ("CaseStmt", "DefaultStmt", "LabelStmt", "AttributedStmt"):
            return seq([alt(E(c), ("skip",)) for c in inner])
        if k == "ReturnStmt":
            return seq([E(c, "addr" if self.retref[-1] else None) for c in inner] + [("ret",)])
        if k in ("BreakStmt", "ContinueStmt"):
            return ("ret",)
        if k in ("NullStmt",):
            return ("skip",)
        if k in ("GotoStmt", "IndirectGotoStmt", "CXXTryStmt", "CXXThrowExpr", "CoroutineBodyStmt", "GCCAsmStmt", "MSAsmStmt"):
            return ("raw", fn, k)
        if k in ("VarDecl",):
            return self.vardecl(tu, fn, n)
        if k in ("StaticAssertDecl", "TypedefDecl", "TypeAliasDecl", "UsingDecl", "UsingDirectiveDecl", "CXXRecordDecl", "EnumDecl",
                 "FullComment", "EmptyDecl", "UsingShadowDecl", "AlwaysInlineAttr", "UnusedAttr", "FunctionDecl"):
            return ("skip",)
        # unknown kind: children evaluated in order, conservatively (unknown lvalue use = write)
        self.unknown_ctx[k] = self.unknown_ctx.get(k, 0) + 1
        return seq([E(c) for c in inner])

    def optional_children(self, tu, fn, body):
        inner = [c for c in body.get("inner", []) or [] if isinstance(c, dict)]
        return seq([alt(self.expr(tu, fn, c), ("skip",)) for c in inner])

    def local_dtor(self, tu, fn, v):
        """implicit destructor call of an automatic object: it runs when the enclosing block is left, i.e. in the lock context of
        that block; for the (flow-insensitive within a lock scope) checker its events are placed right after the declaration"""
        t = (v.get("type") or {})
        dq = t.get("desugaredQualType", t.get("qualType", "")).strip()
        if dq.endswith("&") or dq.endswith("*") or v.get("storageClass") == "static":
            return ("skip",)
        base = re.sub(r"<.*>", "", dq.replace("const ", "").strip())
        for rname, nodes in tu.records.items():
            if rname == base or rname == "asmjit::" + base or rname.endswith("::" + base):
                for rn in nodes:
                    for c in rn.get("inner", []) or []:
                        if c.get("kind") == "CXXDestructorDecl" and not c.get("isImplicit") and tu.defs.get(c.get("id")) is not None:
                            self.dtor_inlined += 1
                            return self.inline(tu, fn, c, tu.strip_ns(base) + "::" + c.get("name", "~"))
        return ("skip",)

    def vardecl(self, tu, fn, v):
        qt, dqt = self._qt(v)
        if v.get("storageClass") == "static":
            v["_filescope"] = True  # function-local static: accesses to it are global accesses; its initialiser runs once
        mode = None
        t = dqt.strip()
        if t.endswith("&") and not t.endswith("&&"):
            core = t[:-1].strip()
            mode = "r" if core.startswith("const ") else "w"
        elif t.endswith("&&"):
            mode = "r"
        return seq([self.expr(tu, fn, c, mode) for c in v.get("inner", []) or [] if isinstance(c, dict)])

    def block(self, tu, fn, stmts):
        """sequence of statements with RAII guards: a LockGuard declaration locks the REST of the block"""
        out = []
        for i, s in enumerate(stmts):
            if s.get("kind") == "DeclStmt":
                decls = [c for c in s.get("inner", []) or [] if isinstance(c, dict)]
                for j, dcl in enumerate(decls):
                    if dcl.get("kind") == "VarDecl":
                        g = self.guard_of(tu, fn, dcl)
                        if g is not None:
                            cls, fld, arg = g
                            pre = ("skip",)
                            if arg is not None:
                                self.visited.add(arg.get("id"))     # the lock member itself: represented by SLocked
                            if arg is not None and arg.get("inner"):
                                pre = self.expr(tu, fn, arg["inner"][0])     # evaluating the object that holds the lock
                            rest = self.block(tu, fn, [{"kind": "DeclStmt", "inner": decls[j + 1:]}] + stmts[i + 1:])
                            out.append(pre)
                            out.append(("locked", fn, cls, fld, rest))
                            return seq(out)
                        out.append(self.vardecl(tu, fn, dcl))
                        out.append(self.local_dtor(tu, fn, dcl))
                    else:
                        out.append(self.stmt(tu, fn, dcl))
            else:
                out.append(self.expr(tu, fn, s))
        return seq(out)


def mark_file_scope(tu):
    """VarDecls directly inside namespaces / records / TU are globals."""
    def rec(n, infunc):
        k = n.get("kind")
        if k == "VarDecl" and not infunc:
            n["_filescope"] = True
        if k == "VarDecl" and infunc and n.get("storageClass") == "static":
            n["_filescope"] = True
        nf = infunc or k in FUNC_KINDS
        for c in n.get("inner", []) or []:
            if isinstance(c, dict):
                rec(c, nf)
    rec(tu.root, False)


def entry_points(tu, cls):
    """public member functions (with a body somewhere in this TU) of class `cls` -> list of (qualified name, def node, doc)"""
    out = []
    seen = set()
    for rname, nodes in tu.records.items():
        if tu.strip_ns(rname) != cls:
            continue
        for rn in nodes:
            for c in rn.get("inner", []) or []:
                cands = [c]
                if c.get("kind") == "FunctionTemplateDecl":
                    cands = [x for x in c.get("inner", []) if x.get("kind") in FUNC_KINDS][1:]   # [0] is the dependent pattern
                for m in cands:
                    if m.get("kind") != "CXXMethodDecl" or m.get("isImplicit"):
                        continue
                    if tu.access.get(m.get("id"), tu.access.get(c.get("id"))) != "public":
                        continue
                    if m.get("storageClass") == "static":
                        continue
                    df = tu.defs.get(m["id"])
                    name = cls + "::" + m.get("name", "?")
                    doc = json.dumps([x for x in m.get("inner", []) if x.get("kind") == "FullComment"])
                    out.append((name, m, df, "not thread-safe" in doc))
    return out


# ---------------------------------------------------------------------------------------------------- Coq emission
def coq_str(s):
    return '"' + s.replace('"', "'") + '"'


def emit_tree(t, names, ind=2):
    k = t[0]
    pad = " " * ind
    if k == "skip":
        return "SSkip"
    if k == "ret":
        return "SRet"
    if k == "acc":
        return "SAcc %s %s %s %s" % (coq_str(t[1]), coq_str(t[2]), coq_str(t[3]), {"W": "W", "I": "Ini"}.get(t[4], "R"))
    if k == "glob":
        return "SGlob %s %s %s %s" % (coq_str(t[1]), coq_str(t[2]), "W" if t[3] == "W" else "R", "true" if t[4] else "false")
    if k == "call":
        return "SCall %s %s" % (coq_str(t[1]), coq_str(t[2]))
    if k == "raw":
        return "SRaw %s %s" % (coq_str(t[1]), coq_str(t[2]))
    if k == "inl":
        nm, ident = names[t[1]]
        return "SInl %s %s" % (coq_str(nm), ident)
    if k == "seq":
        items = t[1]
        s = emit_tree(items[-1], names, ind)
        for it in reversed(items[:-1]):
            s = "SSeq (%s)\n%s(%s)" % (emit_tree(it, names, ind), pad, s)
        return s
    if k == "alt":
        return "SAlt (%s)\n%s(%s)" % (emit_tree(t[1], names, ind + 1), pad, emit_tree(t[2], names, ind + 1))
    if k == "loop":
        return "SLoop (%s)" % emit_tree(t[1], names, ind + 1)
    if k == "locked":
        return "SLocked %s %s %s\n%s(%s)" % (coq_str(t[1]), coq_str(t[2]), coq_str(t[3]), pad, emit_tree(t[4], names, ind + 1))
    raise ValueError(k)


def count_events(t, memo, acc):
    k = t[0]
    if k in ("acc", "glob", "call", "raw", "locked"):
        acc[k] = acc.get(k, 0) + 1
    if k == "seq":
        for x in t[1]:
            count_events(x, memo, acc)
    elif k in ("alt",):
        count_events(t[1], memo, acc); count_events(t[2], memo, acc)
    elif k == "loop":
        count_events(t[1], memo, acc)
    elif k == "locked":
        count_events(t[4], memo, acc)
    elif k == "inl":
        count_events(memo[t[1]][1], memo, acc)


def build(repo):
    files = [os.path.join(repo, "asmjit/core/jitallocator.cpp"), os.path.join(repo, "asmjit/core/jitruntime.cpp"),
             os.path.join(repo, "asmjit/core/codeholder.cpp")]     # the third only provides bodies for the CodeHolder calls of JitRuntime::_add
    tus = [TU(f, repo) for f in files]
    for tu in tus:
        mark_file_scope(tu)
    b = Builder(tus)
    eps = []
    excluded = []
    seen = set()
    for cls in ENTRY_CLASSES:
        for ti, tu in enumerate(tus):
            for (name, m, df, doc_not_safe) in entry_points(tu, cls):
                ti2 = ti
                if df is None and m.get("mangledName") in b.mangled:
                    ti2, df = b.mangled[m["mangledName"]]
                if df is None:
                    continue   # declared but not defined in any of the TUs (e.g. an un-instantiated template)
                sig = name + " : " + (m.get("type") or {}).get("qualType", "")
                if sig in seen:
                    continue
                seen.add(sig)
                if name in NOT_ENTRY or doc_not_safe:
                    excluded.append((sig, NOT_ENTRY.get(name, "documented 'not thread-safe'"), (ti2, df, name)))
                    continue
                tree = b.inline(tus[ti2], "<entry>", df, name)
                eps.append((sig, name, tree))
    # the excluded entry points are translated as well (after the others, so that their helpers come last): the obligation
    # `excluded_unsafe` shows that each of them really touches protected members without the lock, i.e. the exclusion is needed
    excluded = [(sig, why, b.inline(tus[ti2], "<entry>", df, name)) for (sig, why, (ti2, df, name)) in excluded]
    return b, eps, excluded


LOCK_IMPL_FUNCS = ["LockGuard::LockGuard", "LockGuard::~LockGuard", "Lock::lock", "Lock::unlock"]


def lock_impl(b):
    """callees of the four functions that implement the lock (host configuration of the TU): [(function, [callee, ...])]"""
    tu = b.tus[0]
    out = []
    for want in LOCK_IMPL_FUNCS:
        callees = None
        for nid, n in tu.defs.items():
            if n.get("id") == nid and tu.func_name(n) == want:
                callees = []

                def walk(x):
                    if x.get("kind") in ("CallExpr", "CXXMemberCallExpr", "CXXOperatorCallExpr"):
                        inner = [c for c in x.get("inner", []) or [] if isinstance(c, dict)]
                        d, _, _ = b.callee_decl(tu, x, inner)
                        callees.append(re.sub(r"<.*>", "", b.decl_name(tu, d)) if d is not None else "<indirect>")
                    for c in x.get("inner", []) or []:
                        if isinstance(c, dict):
                            walk(c)
                walk(n)
        out.append((want, callees if callees is not None else ["<function not found>"]))
    return out


def gen_skeleton(repo):
    b, eps, excluded = build(repo)
    names = {}
    used = {}
    for key in b.order:
        nm, tree = b.memo[key]
        base = "f_" + re.sub(r"[^A-Za-z0-9_]", "_", re.sub(r"<.*>", "", nm))
        used[base] = used.get(base, 0) + 1
        ident = base if used[base] == 1 else "%s_%d" % (base, used[base])
        names[key] = (re.sub(r"<.*>", "", nm), ident)
    out = []
    out.append("(* GENERATED by tools/c11_skeleton.py from asmjit/core/jitallocator.cpp + jitruntime.cpp (clang -ast-dump=json). Do not edit. *)")
    out.append("From Coq Require Import String List Bool.")
    out.append("From Verif Require Import Conc.LockModel.")
    out.append("Import ListNotations.")
    out.append("Local Open Scope string_scope.")
    out.append("")
    for key in b.order:
        nm, tree = b.memo[key]
        if tree == ("skip",) or tree == ("ret",):
            continue
        out.append("Definition %s : sk :=\n  %s." % (names[key][1], emit_tree(tree, names)))
        out.append("")
    out.append("Definition entry_points : list (string * sk) :=")
    items = []
    stats = {}
    for sig, name, tree in sorted(eps):
        body = emit_tree(tree, names, 6)
        items.append("    (%s,\n      %s)" % (coq_str(sig), body))
        acc = {}
        count_events(tree, b.memo, acc)
        stats[sig] = acc
    out.append("  [\n" + ";\n".join(items) + "\n  ].")
    out.append("")
    out.append("Definition excluded_entry_points : list (string * string) :=")
    out.append("  [" + ";\n   ".join("(%s, %s)" % (coq_str(s), coq_str(r)) for s, r, _t in sorted(excluded, key=lambda x: x[0])) + "].")
    out.append("")
    out.append("Definition excluded_entry_skeletons : list (string * sk) :=")
    out.append("  [\n" + ";\n".join("    (%s,\n      %s)" % (coq_str(s), emit_tree(t, names, 6)) for s, r, t in sorted(excluded, key=lambda x: x[0])) + "\n  ].")
    out.append("")
    li = lock_impl(b)
    out.append("(* what LockGuard / Lock really call in this build configuration (osutils.h / osutils_p.h) *)")
    out.append("Definition lock_impl : list (string * list string) :=")
    out.append("  [" + ";\n   ".join("(%s, [%s])" % (coq_str(f), "; ".join(coq_str(c) for c in cs)) for f, cs in li) + "].")
    out.append("")
    out.append("(* reflection: the checker of Conc.LockModel returns the list of diagnostics; empty = every obligation holds *)")
    out.append("Lemma skeleton_ok : check_program entry_points = [].")
    out.append("Proof. vm_compute. reflexivity. Qed.")
    out.append("")
    out.append("(* non-vacuity: the required entry points are present, contain their locked region, the bookkeeping members were seen *)")
    out.append("Lemma skeleton_coverage : coverage_diag entry_points = [].")
    out.append("Proof. vm_compute. reflexivity. Qed.")
    out.append("")
    out.append("(* LockGuard acquires in its constructor and releases in its destructor; Lock is a pthread mutex *)")
    out.append("Lemma lock_impl_ok : check_lock_impl lock_impl = [].")
    out.append("Proof. vm_compute. reflexivity. Qed.")
    out.append("")
    out.append("(* the entry points excluded by the documented contract (reset) really break the discipline: the exclusion is necessary *)")
    out.append("Lemma excluded_unsafe : excluded_unsafe_diag entry_points excluded_entry_skeletons = [].")
    out.append("Proof. vm_compute. reflexivity. Qed.")
    out.append("")
    out.append("(* the canonical execution of each required entry point takes the lock and touches protected members under it *)")
    out.append("Lemma skeleton_nonvacuous : nonvacuous_diag entry_points = [].")
    out.append("Proof. vm_compute. reflexivity. Qed.")
    out.append("")
    return "\n".join(out).replace(repo.rstrip("/") + "/", ""), {"entry_points": [s for s, _, _ in sorted(eps)], "excluded": sorted((s_, r_) for s_, r_, _t in excluded), "events": stats,
                            "inlined_functions": len(b.order), "unknown_ast_kinds": b.unknown_ctx, "untranslated_nodes": b.unvisited, "local_object_accesses_skipped": b.local_skipped,
                            "implicit_destructors_inlined": b.dtor_inlined, "owned_context_accesses_skipped": b.owned_skipped,
                            "recursive_calls_folded": b.recursive_calls,
                            "lock_impl": li, "_builder": b, "_eps": eps}


# ---------------------------------------------------------------------------------------------------- writable globals (nm)
def gen_globals(lib, repo):
    """objdump -t on the static library: every data object in a writable section (.data* / .bss* / COMMON), except
    .data.rel.ro* (vtables, typeinfo, constant pointer tables: read-only after relocation) and compiler bookkeeping."""
    p = subprocess.run(["objdump", "-t", "-C", lib], stdout=subprocess.PIPE, stderr=subprocess.PIPE, timeout=120, text=True)
    if p.returncode != 0:
        raise RuntimeError("objdump failed: " + p.stderr[-1000:])
    syms = set()
    member = ""
    nsec = {}
    per_tu = {}
    for line in p.stdout.splitlines():
        m = re.match(r"^(\S+\.o):\s+file format", line)
        if m:
            member = m.group(1)
            continue
        m = re.match(r"^[0-9a-fA-F]+ (.{7}) (\S+)\t([0-9a-fA-F]+) (.*)$", line)
        if not m:
            continue
        flags, sec, size, name = m.groups()
        if "O" not in flags:
            continue
        name = re.sub(r"^\.hidden ", "", name)
        nsec[sec.split(".")[1] if sec.startswith(".") and len(sec.split(".")) > 1 else sec] = nsec.get(sec.split(".")[1] if sec.startswith(".") and len(sec.split(".")) > 1 else sec, 0) + 1
        tu_name = re.sub(r"^asmjit_", "", member).replace(".o", "")
        cls = ("read-only (.rodata)" if sec.startswith(".rodata") else
               "relocated read-only (.data.rel.ro: vtables, typeinfo, constant pointer tables)" if sec.startswith(".data.rel.ro") else
               "thread-local" if sec.startswith((".tdata", ".tbss")) else
               "compiler bookkeeping" if name.startswith(("DW.ref.", "__")) else
               "WRITABLE" if (sec == "*COM*" or re.match(r"^\.(data|bss)(\.|$)", sec)) else "other:" + sec)
        d = per_tu.setdefault(tu_name, {})
        d[cls] = d.get(cls, 0) + 1
        writable = sec == "*COM*" or re.match(r"^\.(data|bss)(\.|$)", sec)
        if not writable or sec.startswith(".data.rel.ro"):
            continue
        if name.startswith(("DW.ref.", "__tsan", "__asan", "__odr_asan", "__sancov", "__llvm", "__gcov", "__profd", "__profc")):
            continue    # compiler / sanitizer bookkeeping, not program state
        tu = re.sub(r"^asmjit_", "", member).replace(".o", "")
        name = re.sub(r"asmjit::v\d+_\d+::", "asmjit::", name)
        syms.add((tu, "w", name))
    gen_globals.sections = nsec
    gen_globals.per_tu = per_tu
    # classify every symbol by the declared type of the variable (clang AST of the translation unit that defines it)
    kinds = {}
    for tu_name in sorted(set(t for t, _, _ in syms)):
        src = os.path.join(repo, "asmjit", tu_name.replace("_", "/", 1) + ".cpp")
        if not os.path.exists(src):
            continue
        tu = TU(src, repo)
        mark_file_scope(tu)
        for nid, n in tu.byid.items():
            if n.get("kind") == "VarDecl" and n.get("_filescope") and not n.get("constexpr"):
                t = n.get("type") or {}
                dq = t.get("desugaredQualType", t.get("qualType", ""))
                q = t.get("qualType", "")
                if re.match(r"^(const )?(volatile )?std::atomic<", dq) or re.match(r"^(volatile )?std::atomic<", q):
                    kind = "atomic"
                elif q.startswith("volatile ") or dq.startswith("volatile "):
                    kind = "volatile"
                else:
                    kind = "plain"
                kinds[(tu_name, tu.strip_ns(tu.qual.get(nid, n.get("name", "?"))))] = kind
    out_syms = []
    for tu_name, _, name in sorted(syms):
        if name.startswith("guard variable for "):
            kind = "compiler"
        else:
            key = name
            for _ in range(4):
                key = re.sub(r"\([^()]*\)( const)?", "", key)
            key = re.sub(r"^asmjit::", "", key)
            kind = kinds.get((tu_name, key), "unknown")
        out_syms.append((tu_name, kind, name))
    out = []
    out.append("(* GENERATED by tools/c11_skeleton.py: `objdump -t -C libasmjit.a`, data objects in writable sections, each classified by the")
    out.append("   declared type of the variable in the clang AST of its translation unit (atomic / volatile / plain / compiler / unknown). Do not edit. *)")
    out.append("From Coq Require Import String List Bool.")
    out.append("From Verif Require Import Conc.LockModel.")
    out.append("Import ListNotations.")
    out.append("Local Open Scope string_scope.")
    out.append("")
    out.append("(* (translation unit, kind, symbol) *)")
    out.append("Definition writable_globals : list (string * string * string) :=")
    out.append("  [" + ";\n   ".join("(%s, %s, %s)" % (coq_str(tu), coq_str(kind), coq_str(name)) for tu, kind, name in out_syms) + "].")
    out.append("")
    out.append("Lemma globals_ok : check_globals writable_globals = [].")
    out.append("Proof. vm_compute. reflexivity. Qed.")
    out.append("")
    return "\n".join(out), out_syms


if __name__ == "__main__":
    repo = os.environ.get("VERIF_REPO", "/repo")
    txt, info = gen_skeleton(repo)
    if len(sys.argv) > 1:
        open(sys.argv[1], "w").write(txt)
    else:
        sys.stdout.write(txt)
    info.pop("_builder"); info.pop("_eps")
    sys.stderr.write(json.dumps(info, indent=1)[:6000] + "\n")


# ---------------------------------------------------------------------------------------------------- statics skeleton (VirtMem, CpuInfo::host)
STATIC_TUS = [("asmjit/core/virtmem.cpp", lambda q: q.startswith("VirtMem::") and q.count("::") == 1),
              ("asmjit/core/cpuinfo.cpp", lambda q: q == "CpuInfo::host")]


class StaticsBuilder:
    """skeleton of the accesses to variables with static storage duration in the functions that own process-wide caches:
       VAtomic name          operation on a std::atomic static
       VPlainR / VPlainW     read / write of a non-atomic static
       VGuard flag body      `if (!flag.load())` / `if (!flag)`: body runs only if the flag was observed zero
       VCall callee          opaque call; VSeq/VAlt/VLoop/VRet/VSkip as in the lock skeleton
    helpers defined in the same source file are inlined."""

    def __init__(self, tu, main_file):
        self.tu = tu
        self.main = main_file
        self.memo = {}
        self.stack = []

    def static_var(self, n):
        if n.get("kind") != "DeclRefExpr":
            return None
        rd = n.get("referencedDecl") or {}
        if rd.get("kind") != "VarDecl":
            return None
        v = self.tu.byid.get(rd.get("id"), rd)
        if not v.get("_filescope") or v.get("constexpr"):
            return None
        t = v.get("type") or {}
        q, dq = t.get("qualType", ""), t.get("desugaredQualType", t.get("qualType", ""))
        if q.startswith("const ") or dq.startswith("const "):
            return None
        atomic = bool(re.match(r"^(volatile )?std::atomic<", dq) or re.match(r"^(volatile )?std::atomic<", q))
        return self.tu.strip_ns(self.tu.qual.get(v.get("id"), v.get("name", "?"))), atomic

    def zero_test_flag(self, cond):
        """`!flag.load(...)` or `!flag` on a static -> flag name"""
        c = Builder._strip(cond)
        while c.get("kind") in ("CallExpr",) and (Builder._strip((c.get("inner") or [{}])[0]).get("referencedDecl") or {}).get("name") == "__builtin_expect":
            c = Builder._strip(c["inner"][1])
        if c.get("kind") == "UnaryOperator" and c.get("opcode") == "!":
            x = Builder._strip(c["inner"][0])
            if x.get("kind") == "CXXMemberCallExpr":
                callee = Builder._strip(x["inner"][0])
                if callee.get("kind") == "MemberExpr" and callee.get("name") == "load":
                    x = Builder._strip(callee["inner"][0])
            sv = self.static_var(x)
            if sv:
                return sv[0]
        return None

    def walk(self, fn, n, mode="r"):
        if not isinstance(n, dict):
            return ("skip",)
        k = n.get("kind")
        inner = [c for c in n.get("inner", []) or [] if isinstance(c, dict)]
        W = lambda c, m="r": self.walk(fn, c, m)
        sv = self.static_var(n)
        if sv:
            name, atomic = sv
            if atomic:
                return ("vatomic", fn, name)
            return seq([("vplain", fn, name, "R" if m == "r" else "W") for m in (("r", "w") if mode == "rw" else (mode,))])
        if k in ("UnaryExprOrTypeTraitExpr", "CXXNoexceptExpr", "StaticAssertDecl", "FullComment"):
            return ("skip",)
        if k == "BinaryOperator":
            op = n.get("opcode")
            if op == "=":
                return seq([W(inner[1]), W(inner[0], "w")])
            if op in ("&&", "||"):
                return seq([W(inner[0]), alt(W(inner[1]), ("skip",))])
            return seq([W(c) for c in inner])
        if k == "CompoundAssignOperator":
            return seq([W(inner[1]), W(inner[0], "rw")])
        if k == "UnaryOperator" and n.get("opcode") in ("++", "--"):
            return W(inner[0], "rw")
        if k == "UnaryOperator" and n.get("opcode") == "&":
            return W(inner[0], "w")          # address taken: conservative
        if k == "CXXMemberCallExpr" and inner:
            # flag.store(<non-zero literal>) on an atomic static: the flag is set
            c0 = Builder._strip(inner[0])
            if c0.get("kind") == "MemberExpr" and c0.get("name") == "store" and len(inner) >= 2:
                obj = self.static_var(Builder._strip((c0.get("inner") or [{}])[0]))
                a0 = Builder._strip(inner[1])
                while a0.get("kind") in ("ImplicitCastExpr", "CXXFunctionalCastExpr", "CStyleCastExpr") and a0.get("inner"):
                    a0 = Builder._strip(a0["inner"][-1])
                if obj and obj[1] and a0.get("kind") == "IntegerLiteral" and str(a0.get("value", "0")) not in ("0", ""):
                    return ("vset", fn, obj[0])
        if k in ("CallExpr", "CXXMemberCallExpr", "CXXOperatorCallExpr"):
            ev = []
            c0 = Builder._strip(inner[0]) if inner else {}
            d = None
            args = inner[1:]
            if c0.get("kind") == "DeclRefExpr" and (c0.get("referencedDecl") or {}).get("kind") in FUNC_KINDS:
                d = self.tu.byid.get(c0["referencedDecl"].get("id"), c0["referencedDecl"])
            elif c0.get("kind") == "MemberExpr":
                d = self.tu.byid.get(c0.get("referencedMemberDecl"))
                obj = (c0.get("inner") or [None])[0]
                dqt = ((d or {}).get("type") or {}).get("qualType", "")
                if obj is not None:
                    ev.append(W(obj, "r" if re.search(r"\)\s*const\b", dqt) else "w"))
            if k == "CXXOperatorCallExpr" and d is not None and d.get("name") == "operator=" and args:
                ev.append(W(args[0], "w"))
                args = args[1:]
            pm = Builder.param_modes(d) if d is not None else []
            off = 1 if (k == "CXXOperatorCallExpr" and d is not None and d.get("kind") == "CXXMethodDecl" and d.get("name") != "operator=") else 0
            for i, a in enumerate(args):
                m, pt = pm[i - off] if 0 <= i - off < len(pm) else (None, None)
                ev.append(W(a, "w" if (m == "w" or pt == "w") else "r"))
            if d is not None:
                df = self.tu.defs.get(d.get("id"))
                name = self.tu.func_name(df) if df is not None else self.tu.strip_ns(self.tu.qual.get(d.get("id"), d.get("name", "?")))
                if df is not None and self.in_main(df):
                    ev.append(self.inline(df))
                elif not re.match(r"^(__builtin_|std::|operator)", name) and df is None:
                    ev.append(("vcall", fn, re.sub(r"<.*>", "", name)))
            return seq(ev)
        if k == "IfStmt":
            has_else = n.get("hasElse")
            if has_else:
                pre, th, el = inner[:-2], inner[-2], inner[-1]
            else:
                pre, th, el = inner[:-1], inner[-1], None
            flag = self.zero_test_flag(pre[-1]) if pre else None
            cond = seq([W(c) for c in pre])
            if flag:
                g = ("vguard", flag, W(th))          # entered iff the flag is zero; skipping is part of the guard's semantics
                return seq([cond, alt(g, W(el)) if el else g])
            return seq([cond, alt(W(th), W(el) if el else ("skip",))])
        if k in ("WhileStmt", "DoStmt", "ForStmt", "CXXForRangeStmt", "SwitchStmt"):
            return loop(seq([alt(W(c), ("skip",)) for c in inner]))
        if k == "ConditionalOperator" and len(inner) == 3:
            return seq([W(inner[0]), alt(W(inner[1], mode), W(inner[2], mode))])
        if k == "ReturnStmt":
            return seq([W(c) for c in inner] + [("ret",)])
        if k in ("BreakStmt", "ContinueStmt"):
            return ("ret",)
        if k == "VarDecl":
            if n.get("storageClass") == "static":
                return ("skip",)     # zero / constant initialisation of the static itself (guard variable handled by the compiler)
            t = (n.get("type") or {})
            dq = t.get("desugaredQualType", t.get("qualType", "")).strip()
            m = "w" if (dq.endswith("&") and not dq[:-1].strip().startswith("const ")) else "r"
            return seq([W(c, m) for c in inner])
        if k == "LambdaExpr":
            return alt(seq([W(c) for c in inner if c.get("kind") == "CompoundStmt"]), ("skip",))
        if k == "ImplicitCastExpr" and n.get("castKind") == "LValueToRValue":
            return seq([W(c, "r") for c in inner])
        if k in ("ImplicitCastExpr", "ParenExpr", "CStyleCastExpr", "CXXStaticCastExpr", "MaterializeTemporaryExpr", "ExprWithCleanups",
                 "CXXBindTemporaryExpr", "MemberExpr", "ArraySubscriptExpr", "CXXFunctionalCastExpr", "CXXReinterpretCastExpr"):
            return seq([W(c, mode) for c in inner])
        return seq([W(c) for c in inner])

    def in_main(self, df):
        loc = df.get("loc") or {}
        f = loc.get("file") or (loc.get("spellingLoc") or {}).get("file") or (loc.get("expansionLoc") or {}).get("file")
        inc = loc.get("includedFrom") or (loc.get("spellingLoc") or {}).get("includedFrom") or (loc.get("expansionLoc") or {}).get("includedFrom")
        return df.get("_in_main", False)

    def inline(self, df):
        key = df["id"]
        if key in self.stack or len(self.stack) > 16:
            return ("vcall", "?", "<recursive:%s>" % self.tu.func_name(df))
        if key not in self.memo:
            self.stack.append(key)
            name = re.sub(r"<.*>", "", self.tu.func_name(df))
            body = seq([self.walk(name, c) for c in df.get("inner", []) or [] if isinstance(c, dict) and c.get("kind") == "CompoundStmt"])
            self.stack.pop()
            self.memo[key] = body
        t = self.memo[key]
        return ("vfn", t) if t not in (("skip",), ("ret",)) else ("skip",)


def mark_main_file(tu):
    """clang json records the file only when it changes: replay the location stream to tag function definitions of the main file"""
    cur = [None]

    def rec(n):
        loc = n.get("loc") or {}
        for l in (loc, loc.get("spellingLoc") or {}, loc.get("expansionLoc") or {}):
            if "file" in l:
                cur[0] = l["file"]
        rng = (n.get("range") or {}).get("begin") or {}
        for l in (rng, rng.get("spellingLoc") or {}, rng.get("expansionLoc") or {}):
            if "file" in l:
                cur[0] = l["file"]
        if n.get("kind") in FUNC_KINDS:
            n["_in_main"] = (cur[0] == tu.path)
        for c in n.get("inner", []) or []:
            if isinstance(c, dict):
                rec(c)
    rec(tu.root)


def emit_vtree(t):
    k = t[0]
    if k == "skip":
        return "VSkip"
    if k == "ret":
        return "VRet"
    if k == "vatomic":
        return "VAtomic %s %s" % (coq_str(t[1]), coq_str(t[2]))
    if k == "vplain":
        return "VPlain %s %s %s" % (coq_str(t[1]), coq_str(t[2]), "true" if t[3] == "W" else "false")
    if k == "vcall":
        return "VCall %s %s" % (coq_str(t[1]), coq_str(t[2]))
    if k == "vset":
        return "VSet %s %s" % (coq_str(t[1]), coq_str(t[2]))
    if k == "vfn":
        return "VFn (%s)" % emit_vtree(t[1])
    if k == "vguard":
        return "VGuard %s (%s)" % (coq_str(t[1]), emit_vtree(t[2]))
    if k == "seq":
        s = emit_vtree(t[1][-1])
        for it in reversed(t[1][:-1]):
            s = "VSeq (%s)\n   (%s)" % (emit_vtree(it), s)
        return s
    if k == "alt":
        return "VAlt (%s)\n   (%s)" % (emit_vtree(t[1]), emit_vtree(t[2]))
    if k == "loop":
        return "VLoop (%s)" % emit_vtree(t[1])
    raise ValueError(k)


def gen_statics(repo):
    entries = []
    for rel, want in STATIC_TUS:
        tu = TU(os.path.join(repo, rel), repo)
        mark_file_scope(tu)
        mark_main_file(tu)
        sb = StaticsBuilder(tu, tu.path)
        seen = set()
        for nid, n in tu.defs.items():
            if n.get("id") != nid or not n.get("_in_main") or n.get("storageClass") == "static":
                continue
            name = re.sub(r"<.*>", "", tu.func_name(n))
            if not want(name):
                continue
            sig = name + " : " + (n.get("type") or {}).get("qualType", "")
            if sig in seen:
                continue
            seen.add(sig)
            entries.append((sig, sb.inline(n)))
    out = []
    out.append("(* GENERATED by tools/c11_skeleton.py from asmjit/core/virtmem.cpp + cpuinfo.cpp (clang -ast-dump=json): accesses to variables with")
    out.append("   static storage duration in the public VirtMem functions and CpuInfo::host(). Do not edit. *)")
    out.append("From Coq Require Import String List Bool.")
    out.append("From Verif Require Import Conc.StaticsModel.")
    out.append("Import ListNotations.")
    out.append("Local Open Scope string_scope.")
    out.append("")
    out.append("Definition static_entry_points : list (string * vsk) :=")
    out.append("  [" + ";\n   ".join("(%s,\n    %s)" % (coq_str(sig), emit_vtree(t)) for sig, t in sorted(entries)) + "].")
    out.append("")
    out.append("Lemma statics_ok : vcheck_program static_entry_points = [].")
    out.append("Proof. vm_compute. reflexivity. Qed.")
    out.append("")
    out.append("(* value-aware part: one normal call of VirtMem::info / CpuInfo::host leaves its guard flag set *)")
    out.append("Lemma statics_warmup_ok : warmup_diag static_entry_points = [].")
    out.append("Proof. vm_compute. reflexivity. Qed.")
    out.append("")
    return "\n".join(out), [s for s, _ in sorted(entries)]

// C12 translator, part 1: expands the ISA database of the repository under verification (argv[2] = repo root) with the
// repository's own db/index.js and prints one JSON object per instruction form (the fields the C12 check consumes).
"use strict";
const fs = require("fs");
const path = require("path");
const repo = process.argv[2] || "/repo";
const db = require(path.join(repo, "db"));
const isa = new db.x86.ISA(JSON.parse(fs.readFileSync(path.join(repo, "db", "isa_x86.json"))));
let n = 0;
for (const i of isa.instructions) {
  const o = {
    idx: n++, name: i.name, arch: i.arch, encoding: i.encoding, prefix: i.prefix || "", opcode: i.opcodeString,
    alt: !!i.alt, privilege: i.privilege, control: i.control, io: i.io, ext: Object.keys(i.ext).sort(),
    kmask: !!i.kmask, zmask: !!i.zmask, k: i.k || "", er: !!i.er, sae: !!i.sae, broadcast: !!i.broadcast, volatile: !!i.volatile,
    category: Object.keys(i.category).sort(),
    operands: i.operands.map((p) => ({
      data: p.data, reg: p.reg, regType: p.regType, mem: p.mem, memSize: p.memSize, imm: p.imm, rel: p.rel,
      implicit: !!p.implicit, read: !!p.read, write: !!p.write, zext: !!p.zext, rwxIndex: p.rwxIndex, rwxWidth: p.rwxWidth,
      regIndexRel: p.regIndexRel, clc: p.consecutive_lead_count || 0, memSegment: p.memSegment || "", memRegOnly: p.memRegOnly || "",
      memOff: !!p.memOff, memFar: !!p.memFar, vsibReg: p.vsibReg || "", vsibSize: p.vsibSize, bcstSize: p.bcstSize, immValue: p.immValue
    }))
  };
  console.log(JSON.stringify(o));
}

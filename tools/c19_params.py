#!/usr/bin/env python3
"""C19 translator: re-extracts the structural constants of asmjit/core/constpool.{h,cpp} the Coq model is built from and
emits coq/gen/C19_Params.v (Definition src_params + Lemma C19_params_ok : src_params = model_params).

A field whose source pattern is no longer found gets a sentinel (0 / [] / the opposite boolean) so that the lemma fails,
and is listed in the returned `problems`. Usage: c19_params.py [repo]  -> prints the .v text."""
import os
import re
import sys

EXPECTED = {
    "index_count": 7,
    "index_sizes": [(1, 0), (2, 1), (4, 2), (8, 3), (16, 4), (32, 5), (64, 6)],
    "gap_chain": [(32, 32, 5, 32), (16, 16, 4, 16), (8, 8, 3, 8), (4, 4, 2, 4), (2, 2, 1, 2)],
    "gap_else": (0, 1),
    "share_above": 4,
    "offset_bits": 32,
    "loop_same_bucket": True,
    "loop_breaks": False,
    "fill_clears_all": True,
    "fill_skips_shared": True,
    "new_const_disp_bits": 32,
    "log_max_log2": 3,
}


def strip_comments(t):
    t = re.sub(r"/\*.*?\*/", " ", t, flags=re.S)
    return re.sub(r"//[^\n]*", " ", t)


def body_of(text, header_re):
    """text of the brace block that follows the first match of header_re"""
    m = re.search(header_re, text)
    if not m:
        return None
    i = text.find("{", m.end() - 1)
    if i < 0:
        return None
    depth = 0
    for j in range(i, len(text)):
        if text[j] == "{":
            depth += 1
        elif text[j] == "}":
            depth -= 1
            if depth == 0:
                return text[i + 1:j]
    return None


def extract(repo):
    h = strip_comments(open(os.path.join(repo, "asmjit/core/constpool.h")).read())
    c = strip_comments(open(os.path.join(repo, "asmjit/core/constpool.cpp")).read())
    out, problems = {}, []

    def fail(k, why, sentinel):
        out[k] = sentinel
        problems.append("%s: %s" % (k, why))

    # enum Index
    en = body_of(h, r"enum\s+Index\s*:\s*uint32_t\s*\{")
    idx = {}
    if en is None:
        fail("index_count", "enum Index not found", 0); fail("index_sizes", "enum Index not found", [])
    else:
        for name, val in re.findall(r"kIndex(\w+)\s*=\s*(\d+)", en):
            idx[name] = int(val)
        if "Count" in idx:
            out["index_count"] = idx["Count"]
        else:
            fail("index_count", "kIndexCount not found", 0)
        out["index_sizes"] = sorted((int(n), v) for n, v in idx.items() if n.isdigit())
    # the size check uses kIndexCount
    if not re.search(r"kMaxSize\s*=\s*size_t\(1\)\s*<<\s*\(kIndexCount\s*-\s*1\)", c):
        problems.append("index_count: kMaxSize is no longer size_t(1) << (kIndexCount - 1)")
        out["index_count"] = 0
    # Node::_offset
    m = re.search(r"uint(\d+)_t\s+_offset\s*;", h)
    if m:
        out["offset_bits"] = int(m.group(1))
    else:
        fail("offset_bits", "declaration of Node::_offset not found", 0)
    # ConstPool_addGap if-chain
    ag = body_of(c, r"static\s+void\s+ConstPool_addGap\s*\([^)]*\)\s*noexcept\s*\{")
    chain = []
    if ag is None:
        fail("gap_chain", "ConstPool_addGap not found", []); fail("gap_else", "ConstPool_addGap not found", (0, 0))
    else:
        pat = (r"if\s*\(\s*size\s*>=\s*(\d+)\s*&&\s*Support::is_aligned<size_t>\(\s*offset\s*,\s*(\d+)\s*\)\s*\)\s*\{\s*"
               r"gap_index\s*=\s*ConstPool::kIndex(\d+)\s*;\s*gap_size\s*=\s*(\d+)\s*;\s*\}")
        for ge, al, name, gs in re.findall(pat, ag):
            chain.append((int(ge), int(al), idx.get(name, -1), int(gs)))
        n_if = len(re.findall(r"\bif\s*\(\s*size\s*>=", ag))
        if not chain or n_if != len(chain):
            fail("gap_chain", "the if-chain of ConstPool_addGap has %d `size >=` tests, %d in the known shape" % (n_if, len(chain)), [])
        else:
            out["gap_chain"] = chain
        m = re.search(r"else\s*\{\s*gap_index\s*=\s*ConstPool::kIndex(\d+)\s*;\s*gap_size\s*=\s*(\d+)\s*;\s*\}", ag)
        if m:
            out["gap_else"] = (idx.get(m.group(1), -1), int(m.group(2)))
        else:
            fail("gap_else", "final else of ConstPool_addGap not found", (0, 0))
    # ConstPool::add
    add = body_of(c, r"Error\s+ConstPool::add\s*\([^)]*\)\s*noexcept\s*\{")
    if add is None:
        for k, s in (("share_above", 0), ("loop_same_bucket", False), ("loop_breaks", True)):
            fail(k, "ConstPool::add not found", s)
    else:
        m = re.search(r"while\s*\(\s*smaller_size\s*>\s*(\d+)\s*\)", add)
        if m:
            out["share_above"] = int(m.group(1))
        else:
            fail("share_above", "`while (smaller_size > N)` not found", 0)
        loop = body_of(add, r"while\s*\(\s*gap_index\s*!=\s*kIndexCount\s*-\s*1\s*\)\s*\{")
        if loop is None:
            fail("loop_same_bucket", "gap loop `while (gap_index != kIndexCount - 1)` not found", False)
            fail("loop_breaks", "gap loop not found", True)
        else:
            reads = re.findall(r"_gaps\[(\w+)\]", loop)
            out["loop_same_bucket"] = bool(reads) and all(r == "tree_index" for r in reads)
            out["loop_breaks"] = bool(re.search(r"\bbreak\s*;", loop))
            if not re.search(r"ConstPool_addGap\(\s*this\s*,\s*gap_offset\s*,\s*gap_size\s*\)", loop):
                problems.append("loop_same_bucket: the split branch no longer calls ConstPool_addGap(this, gap_offset, gap_size)")
                out["loop_same_bucket"] = False
    # ConstPool::fill
    fl = body_of(c, r"void\s+ConstPool::fill\s*\([^)]*\)\s*const\s*noexcept\s*\{")
    out["fill_clears_all"] = bool(fl and re.search(r"memset\(\s*dst\s*,\s*0\s*,\s*_size\s*\)", fl))
    ff = body_of(c, r"struct\s+ConstPoolFill\s*\{")
    out["fill_skips_shared"] = bool(ff and re.search(r"if\s*\(\s*!\s*node->_shared\s*\)\s*\{\s*memcpy\(\s*_dst\s*\+\s*node->_offset\s*,\s*node->data\(\)\s*,\s*_data_size\s*\)", ff))
    # BaseCompiler::_new_const: the displacement of the returned operand
    try:
        cc = strip_comments(open(os.path.join(repo, "asmjit/core/compiler.cpp")).read())
    except OSError:
        cc = ""
    nc = body_of(cc, r"Error\s+BaseCompiler::_new_const\s*\([^)]*\)\s*\{")
    m = nc and re.search(r"pool->label_id\(\)\s*,\s*0\s*,\s*int(\d+)_t\(off\)\s*\)", nc)
    if m and re.search(r"pool->add\(\s*data\s*,\s*size\s*,\s*Out\(off\)\s*\)", nc) and re.search(r"from_size\(uint32_t\(size\)\)", nc):
        out["new_const_disp_bits"] = int(m.group(1))
    else:
        fail("new_const_disp_bits", "BaseCompiler::_new_const no longer builds BaseMem(..., from_size(uint32_t(size)), pool->label_id(), 0, intN_t(off))", 0)
    # the logging branch of BaseAssembler::embed_const_pool
    try:
        asm = strip_comments(open(os.path.join(repo, "asmjit/core/assembler.cpp")).read())
    except OSError:
        asm = ""
    ec = body_of(asm, r"Error\s+BaseAssembler::embed_const_pool\s*\([^)]*\)\s*\{")
    m = ec and re.search(r"data_size_log2\s*=\s*Support::min<uint32_t>\(\s*Support::ctz\(pool\.min_item_size\(\)\)\s*,\s*(\d+)\s*\)", ec)
    if m and re.search(r"size\s*>>\s*data_size_log2", ec) and re.search(r"data_size\s*=\s*1\s*<<\s*data_size_log2", ec):
        out["log_max_log2"] = int(m.group(1))
    else:
        fail("log_max_log2", "the logging branch of BaseAssembler::embed_const_pool no longer has the known shape", 0)
    for k in EXPECTED:
        out.setdefault(k, None)
    return out, problems


def coq_text(par):
    def b(x):
        return "true" if x else "false"
    sizes = "; ".join("(%d, %d%%nat)" % (s, i) for (s, i) in par["index_sizes"])
    chain = "; ".join("(%d, %d, %d%%nat, %d)" % (a, bb, max(i, 0), g) for (a, bb, i, g) in par["gap_chain"])
    return """(* GENERATED by tools/c19_params.py from asmjit/core/constpool.{h,cpp} of the tree under verification -- do not edit.
   The structural constants of ConstPool as found in the SOURCE, and the proof that they are the ones the model is built
   from (ConstPoolModel.model_params; ConstPoolProofs.params_used ties the model's functions to that record). *)
From Coq Require Import ZArith List Bool.
Import ListNotations.
From Verif Require Import ConstPool.ConstPoolModel.
Local Open Scope Z_scope.

Definition src_params : params :=
  mkParams %d [%s]
    [%s] (%d%%nat, %d)
    %d %d %s %s %s %s %d %d.

Lemma C19_params_ok : src_params = model_params.
Proof. vm_compute. reflexivity. Qed.
Print Assumptions C19_params_ok.
""" % (par["index_count"], sizes, chain, max(par["gap_else"][0], 0), par["gap_else"][1], par["share_above"], par["offset_bits"],
       b(par["loop_same_bucket"]), b(par["loop_breaks"]), b(par["fill_clears_all"]), b(par["fill_skips_shared"]), par["new_const_disp_bits"], par["log_max_log2"])


def differences(par):
    return ["%s: source has %r, the model is built for %r" % (k, par[k], v) for k, v in EXPECTED.items() if par[k] != v]


if __name__ == "__main__":
    par, problems = extract(sys.argv[1] if len(sys.argv) > 1 else "/repo")
    sys.stdout.write(coq_text(par))
    for p in problems + differences(par):
        sys.stderr.write("NOTE " + p + "\n")

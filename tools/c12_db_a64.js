// C12 translator: expands db/isa_aarch64.json with the repository's own db/index.js and prints one JSON object per instruction form
// (operand kinds, access per the database's operand naming d/n/m/s/t/x, arrangement lists, register lists already expanded).
"use strict";
const fs = require("fs");
const path = require("path");
const repo = process.argv[2] || "/repo";
const db = require(path.join(repo, "db"));
const isa = new db.aarch64.ISA(JSON.parse(fs.readFileSync(path.join(repo, "db", "isa_aarch64.json"))));
let n = 0;
for (const i of isa.instructions) {
  console.log(JSON.stringify({
    idx: n++, name: i.name, op: i.opcodeString, t: i.t || "", ta: i.ta || "", tb: i.tb || "", tatb: i["ta.tb"] || "", ext: Object.keys(i.ext).sort(), alias: i.aliasOf || "",
    operands: i.operands.map((p) => ({
      type: p.type, data: p.data, reg: p.reg, regType: p.regType, elementType: p.elementType === undefined ? null : p.elementType,
      element: p.element || null, read: !!p.read, write: !!p.write, optional: !!(p.flags & 1), imm: p.imm, mem: p.mem,
      consecutive: p.consecutive || 0, artificial: !!p.artificial
    }))
  }));
}

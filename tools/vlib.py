#!/usr/bin/env python3
"""Shared runner library for the /verif checks (see DESIGN.md section 1).

Every check is a python module tools/checks/cNN.py exposing `run(ck)` where `ck` is a `Check`.
Stages available to a check:
  ck.build_lib(variant)            static build of /repo's *working tree* (cached by content hash)
  ck.build_harness(name, srcs,...) C++ harness linked to that build
  ck.coq_make(targets)             full .vo build of targets under coq/ (never -vos)
  ck.coq_properties(module)        recompiles Properties_<id>.v, returns theorem names + Print Assumptions
  ck.ocaml_model(extract_v, drv)   extraction (ExtrOcamlBasic only) + ocamlfind ocamlopt driver
  ck.violation(...) / ck.finish()  violation protocol, known findings, evidence file
"""
import fcntl
import glob
import hashlib
import json
import os
import re
import shutil
import subprocess
import sys
import time

VERIF = os.path.dirname(os.path.dirname(os.path.abspath(__file__)))
REPO = os.environ.get("VERIF_REPO", "/repo")
BUILD = os.path.join(VERIF, "build")
COQ = os.path.join(VERIF, "coq")
NPROC = os.cpu_count() or 4

CXX_BASE = ["-std=c++17", "-DNDEBUG", "-DASMJIT_STATIC", "-DASMJIT_VERIF", "-I" + REPO, "-w"]
VARIANTS = {
    # name: (compiler, extra compile flags, extra link flags)
    "plain": ("g++", ["-O1"], []),
    "asan": ("g++", ["-O1", "-g", "-fsanitize=address,undefined", "-fno-sanitize-recover=all",
                     "-fno-omit-frame-pointer"], ["-fsanitize=address,undefined"]),
    "tsan": ("clang++", ["-O1", "-g", "-fsanitize=thread"], ["-fsanitize=thread"]),
}
# translation units that need a sanitizer sub-flag switched off (known, recorded findings; DESIGN 7.21)
ASAN_TU_EXTRA = {}


def sh(cmd, timeout=600, cwd=None, env=None, inp=None, check=False):
    """Run a command (list or shell string) under a timeout; returns (rc, stdout, stderr)."""
    try:
        p = subprocess.run(cmd, shell=isinstance(cmd, str), cwd=cwd, env=env, input=inp,
                           stdout=subprocess.PIPE, stderr=subprocess.PIPE, timeout=timeout, text=True,
                           errors="replace")
        rc, out, err = p.returncode, p.stdout, p.stderr
    except subprocess.TimeoutExpired as e:
        rc, out, err = 124, (e.stdout or b"").decode(errors="replace") if isinstance(e.stdout, bytes) else (e.stdout or ""), "TIMEOUT after %ss" % timeout
    if check and rc != 0:
        raise RuntimeError("command failed rc=%s: %s\n%s\n%s" % (rc, cmd, out[-4000:], err[-4000:]))
    return rc, out, err


def file_hash(paths, extra=""):
    h = hashlib.sha256()
    h.update(extra.encode())
    for p in sorted(paths):
        h.update(p.encode())
        h.update(b"\0")
        try:
            with open(p, "rb") as f:
                h.update(f.read())
        except OSError:
            h.update(b"<missing>")
        h.update(b"\0")
    return h.hexdigest()


def repo_sources():
    srcs = []
    for d in ("core", "support", "x86", "arm"):
        srcs += glob.glob(os.path.join(REPO, "asmjit", d, "*.cpp"))
    return sorted(srcs)


def repo_all_files():
    out = []
    for root, _dirs, files in os.walk(os.path.join(REPO, "asmjit")):
        for f in files:
            if f.endswith((".h", ".cpp")):
                out.append(os.path.join(root, f))
    return sorted(out)


class Lock:
    def __init__(self, path):
        os.makedirs(os.path.dirname(path), exist_ok=True)
        self.path = path

    def __enter__(self):
        self.f = open(self.path, "w")
        fcntl.flock(self.f, fcntl.LOCK_EX)
        return self

    def __exit__(self, *a):
        fcntl.flock(self.f, fcntl.LOCK_UN)
        self.f.close()


def load_findings():
    path = os.path.join(VERIF, "known_findings.jsonl")
    out = []
    if os.path.exists(path):
        for line in open(path):
            line = line.strip()
            if line and not line.startswith("#"):
                out.append(json.loads(line))
    return out


class Check:
    def __init__(self, pid, tier="quick", seed=None, replay=None):
        self.pid = pid
        self.tier = tier
        self.seed = int(seed if seed is not None else os.environ.get("VERIF_SEED", "1") or 1)
        self.replay = replay
        self.t0 = time.time()
        self.violations = []        # list of dict(key, what, replay, no_input)
        self.known_hits = []        # list of (key, what)
        self.findings = [f for f in load_findings() if f.get("property") == pid and f.get("kind") == "finding"]
        self.notes = []
        self.obligations = []       # list of dict(name, ok, assumptions)
        self.work = os.path.join(BUILD, "work", pid)
        os.makedirs(self.work, exist_ok=True)
        os.makedirs(os.path.join(VERIF, "evidence"), exist_ok=True)
        self.replay_dir = os.path.join(VERIF, "replays", pid)
        os.makedirs(self.replay_dir, exist_ok=True)

    # ------------------------------------------------------------------ logging
    def log(self, *a):
        print("[%s %6.1fs]" % (self.pid, time.time() - self.t0), *a, flush=True)

    # ------------------------------------------------------------------ C++ build of /repo working tree
    def build_lib(self, variant="plain"):
        cxx, cflags, lflags = VARIANTS[variant]
        flags = CXX_BASE + cflags
        key = file_hash(repo_all_files(), extra=" ".join([cxx] + flags))[:16]
        root = os.path.join(BUILD, "asmjit")
        out = os.path.join(root, "%s-%s" % (variant, key))
        lib = os.path.join(out, "libasmjit.a")
        with Lock(os.path.join(root, variant + ".lock")):
            if not os.path.exists(lib):
                self.log("building asmjit static lib (%s) from %s" % (variant, REPO))
                tmp = out + ".tmp"
                shutil.rmtree(tmp, ignore_errors=True)
                os.makedirs(tmp)
                srcs = repo_sources()
                jobs = []
                for s in srcs:
                    o = os.path.join(tmp, os.path.relpath(s, REPO).replace("/", "_")[:-4] + ".o")
                    extra = ASAN_TU_EXTRA.get(os.path.basename(s), []) if variant == "asan" else []
                    jobs.append((s, o, [cxx] + flags + extra + ["-c", s, "-o", o]))
                procs = []
                failed = []
                pending = list(jobs)
                while pending or procs:
                    while pending and len(procs) < NPROC:
                        s, o, cmd = pending.pop()
                        procs.append((s, subprocess.Popen(cmd, stdout=subprocess.PIPE, stderr=subprocess.STDOUT)))
                    s, p = procs.pop(0)
                    outp = p.communicate()[0]
                    if p.returncode != 0:
                        failed.append((s, outp.decode(errors="replace")[-3000:]))
                if failed:
                    raise RuntimeError("asmjit build failed: %s" % failed[:2])
                sh(["ar", "rcs", os.path.join(tmp, "libasmjit.a")] + [j[1] for j in jobs], check=True)
                for j in jobs:
                    os.unlink(j[1])
                os.rename(tmp, out)
                # evict older builds of this variant (keep the 2 most recent)
                olds = sorted(glob.glob(os.path.join(root, variant + "-*")), key=os.path.getmtime)
                for d in olds[:-2]:
                    if d != out and not d.endswith(".tmp"):
                        shutil.rmtree(d, ignore_errors=True)
        return {"lib": lib, "cxx": cxx, "cflags": flags, "lflags": lflags, "key": key, "variant": variant}

    def build_harness(self, name, srcs, variant="plain", extra=None, link_lib=True, lib=None):
        extra = extra or []
        lib = lib or self.build_lib(variant)
        srcs = [s if os.path.isabs(s) else os.path.join(VERIF, "harness", s) for s in srcs]
        hdrs = glob.glob(os.path.join(VERIF, "harness", "*.h"))
        key = file_hash(srcs + hdrs, extra=lib["key"] + " ".join(extra) + str(link_lib))[:16]
        outdir = os.path.join(BUILD, "harness")
        os.makedirs(outdir, exist_ok=True)
        exe = os.path.join(outdir, "%s-%s-%s" % (name, variant, key))
        with Lock(os.path.join(outdir, name + ".lock")):
            if not os.path.exists(exe):
                cmd = [lib["cxx"]] + lib["cflags"] + ["-I" + os.path.join(VERIF, "harness")] + extra + srcs
                if link_lib:
                    cmd += [lib["lib"]]
                cmd += lib["lflags"] + ["-lpthread", "-lrt", "-o", exe + ".tmp"]
                rc, out, err = sh(cmd, timeout=900)
                if rc != 0:
                    raise RuntimeError("harness build failed (%s):\n%s\n%s" % (name, out[-3000:], err[-6000:]))
                os.rename(exe + ".tmp", exe)
                for old in glob.glob(os.path.join(outdir, "%s-%s-*" % (name, variant))):
                    if old != exe and not old.endswith(".tmp"):
                        try:
                            os.unlink(old)
                        except OSError:
                            pass
        return exe

    # ------------------------------------------------------------------ Coq
    def coq_make(self, targets, timeout=1800):
        """make (full .vo) the given targets relative to coq/ ; returns list of failed targets."""
        with Lock(os.path.join(BUILD, "coq.lock")):
            if not os.path.exists(os.path.join(COQ, "Makefile")):
                sh("coq_makefile -f _CoqProject -o Makefile", cwd=COQ, check=True)
            rc, out, err = sh(["make", "-k", "-j%d" % NPROC] + targets, cwd=COQ, timeout=timeout)
        failed = []
        if rc != 0:
            for t in targets:
                if not os.path.exists(os.path.join(COQ, t)):
                    failed.append(t)
                else:
                    # stale .vo? compare mtimes
                    v = os.path.join(COQ, t[:-1])
                    if os.path.exists(v) and os.path.getmtime(v) > os.path.getmtime(os.path.join(COQ, t)):
                        failed.append(t)
            if not failed:
                failed = ["<make rc=%d>" % rc]
            self.coq_log = (out + err)[-6000:]
        return failed

    def coq_regen(self, files, order=None, timeout=1800):
        """Translator tie. `files`: dict {"Name.v": text} freshly generated from /repo. If every text equals the committed
        coq/gen/Name.v the committed (already compiled) files are used and None is returned. Otherwise ALL of coq/gen is
        copied to build/work/<pid>/gen, the regenerated texts are written over the copies, and every file there is
        recompiled (order: `order` if given else dependency order from coqdep) with -Q <that dir> VerifGen. Returns
        (gen_dir, failed_files, log). Rule: only coq/gen/*.v and Properties_*.v may import VerifGen."""
        gen = os.path.join(COQ, "gen")
        same = True
        for n, txt in files.items():
            p = os.path.join(gen, n)
            if not os.path.exists(p) or open(p).read() != txt:
                same = False
        if same:
            return None
        wgen = os.path.join(self.work, "gen")
        shutil.rmtree(wgen, ignore_errors=True)
        os.makedirs(wgen)
        for p in glob.glob(os.path.join(gen, "*.v")):
            shutil.copy(p, wgen)
        for n, txt in files.items():
            open(os.path.join(wgen, n), "w").write(txt)
        args = ["-Q", os.path.join(COQ, "theories"), "Verif", "-Q", wgen, "VerifGen", "-w", "-all"]
        if order is None:
            rc, out, err = sh(["coqdep"] + args[:-2] + sorted(glob.glob(os.path.join(wgen, "*.v"))), timeout=120)
            deps = {}
            for line in out.splitlines():
                m = re.match(r"(\S+)\.vo\b.*?:\s*(.*)", line)
                if m and m.group(1).startswith(wgen):
                    deps[os.path.basename(m.group(1)) + ".v"] = [os.path.basename(d)[:-1] for d in m.group(2).split()
                                                               if d.endswith(".vo") and d.startswith(wgen)]
            order, seen = [], set()

            def visit(n):
                if n in seen:
                    return
                seen.add(n)
                for d in deps.get(n, []):
                    visit(d)
                order.append(n)
            for n in sorted(deps):
                visit(n)
        failed, log = [], ""
        for n in order:
            rc, out, err = sh(["coqc"] + args + [os.path.join(wgen, n)], cwd=wgen, timeout=timeout)
            if rc != 0:
                failed.append(n)
                log += (out + err)[-3000:]
        return wgen, failed, log

    def coq_properties(self, module=None, timeout=900, gen_dir=None):
        """Re-compile theories/Properties/Properties_<id>.v (it only contains `exact lemma` proofs, so this is
        cheap) and parse theorem names + Print Assumptions output. Records obligations."""
        module = module or ("Properties_" + self.pid)
        rel = "theories/Properties/%s.v" % module
        path = os.path.join(COQ, rel)
        src = open(path).read()
        forbidden = re.findall(r"\b(Admitted|admit|Axiom|Parameter|Conjecture|Abort)\b", src)
        names = re.findall(r"^\s*(?:Theorem|Lemma|Corollary)\s+([A-Za-z0-9_']+)", src, re.M)
        # build dependencies first
        failed = self.coq_make([rel + "o"], timeout=timeout)
        deps_ok = not failed
        # then always recompile the property file itself to capture Print Assumptions
        args = self._coq_args()
        if gen_dir:
            fixed, it = [], iter(args)
            for a in it:
                if a in ("-Q", "-R"):
                    d = next(it); n = next(it)
                    fixed += [a, (gen_dir if n == "VerifGen" else os.path.join(COQ, d)), n]
                else:
                    fixed.append(a)
            outvo = os.path.join(self.work, module + ".vo")
            rc, out, err = sh(["coqc"] + fixed + ["-o", outvo, os.path.join(COQ, rel)], cwd=COQ, timeout=timeout)
        else:
            rc, out, err = sh(["coqc"] + args + [rel], cwd=COQ, timeout=timeout)
        text = out + err
        res = []
        # split output per "Print Assumptions": they appear in order of the theorems
        chunks = re.split(r"(?m)^(?=Closed under the global context|Axioms:)", out)
        chunks = [c for c in chunks if c.startswith("Closed under") or c.startswith("Axioms:")]
        for i, n in enumerate(names):
            ass = None
            if i < len(chunks):
                c = chunks[i]
                if c.startswith("Closed under"):
                    ass = []
                else:
                    ass = re.findall(r"(?m)^([A-Za-z0-9_.']+)\s*:", c[len("Axioms:"):])
            ok = (rc == 0) and deps_ok and not forbidden
            res.append({"name": n, "ok": ok, "assumptions": ass})
        if rc != 0 or not deps_ok or forbidden:
            self.coq_log = getattr(self, "coq_log", "") + text[-6000:]
            # find which theorem failed (first error line)
            m = re.search(r'File "[^"]+", line (\d+)', text)
            self.coq_fail_line = int(m.group(1)) if m else None
        self.obligations += res
        return res

    def _coq_args(self):
        args = []
        for line in open(os.path.join(COQ, "_CoqProject")):
            line = line.strip()
            if line.startswith("-Q") or line.startswith("-R"):
                args += line.split()
        return args

    def coq_eval(self, vfile_text, name="cases", timeout=600):
        """Compile an ad-hoc .v (e.g. Eval vm_compute cases) in the work dir; returns (rc, stdout+stderr)."""
        p = os.path.join(self.work, name + ".v")
        open(p, "w").write(vfile_text)
        args = []
        for a in self._coq_args():
            args.append(a)
        # make -Q paths absolute
        fixed = []
        it = iter(args)
        for a in it:
            if a in ("-Q", "-R"):
                d = next(it)
                n = next(it)
                fixed += [a, os.path.join(COQ, d), n]
            else:
                fixed.append(a)
        rc, out, err = sh(["coqc"] + fixed + [p], cwd=self.work, timeout=timeout)
        return rc, out + err

    # ------------------------------------------------------------------ OCaml extraction
    def ocaml_model(self, extract_v, drivers, name=None, timeout=900, gen_dir=None):
        """extract_v: path under coq/extract (contains `Extraction "x.ml" ...`), drivers: list of .ml under ml/.
        A driver named "zconv.ml" is generated from ml/zconv.ml.in for the extracted module (first .ml produced by the
        extraction): conversions between zarith and the extracted positive/N/Z. Returns path of the native executable."""
        name = name or os.path.splitext(os.path.basename(extract_v))[0].lower()
        ev = os.path.join(COQ, "extract", extract_v)
        want_zconv = "zconv.ml" in drivers
        drivers = [d for d in drivers if d != "zconv.ml"]
        drv = [os.path.join(VERIF, "ml", d) for d in drivers]
        if want_zconv:
            drv.append(os.path.join(VERIF, "ml", "zconv.ml.in"))
        # key: extraction file + drivers + all theory sources (cheap to hash)
        theory = glob.glob(os.path.join(COQ, "theories", "**", "*.v"), recursive=True) + \
            glob.glob(os.path.join(gen_dir or os.path.join(COQ, "gen"), "*.v"))
        key = file_hash([ev] + drv + theory)[:16]
        outdir = os.path.join(BUILD, "ml", name)
        exe = os.path.join(outdir, "%s-%s" % (name, key))
        with Lock(os.path.join(BUILD, "ml", name + ".lock")):
            if not os.path.exists(exe):
                shutil.rmtree(outdir, ignore_errors=True)
                os.makedirs(outdir)
                args = []
                it = iter(self._coq_args())
                for a in it:
                    if a in ("-Q", "-R"):
                        d = next(it)
                        n = next(it)
                        args += [a, (gen_dir if (gen_dir and n == "VerifGen") else os.path.join(COQ, d)), n]
                rc, out, err = sh(["coqc"] + args + [ev], cwd=outdir, timeout=timeout)
                if rc != 0:
                    raise RuntimeError("extraction failed: %s\n%s" % (out[-3000:], err[-3000:]))
                mls = sorted(glob.glob(os.path.join(outdir, "*.ml")))
                mlis = sorted(glob.glob(os.path.join(outdir, "*.mli")))
                drv_names = []
                for d in drv:
                    if d.endswith("zconv.ml.in"):
                        modname = os.path.splitext(os.path.basename(mls[0]))[0].capitalize()
                        tmpl = open(d).read()
                        mlsrc = open(mls[0]).read()
                        if not re.search(r"(?m)^type n =", mlsrc):
                            tmpl = tmpl.split("(* N / nat helpers *)")[0]
                        open(os.path.join(outdir, "zconv.ml"), "w").write(tmpl.replace("@M@", modname))
                        drv_names.insert(0, "zconv.ml")
                    else:
                        shutil.copy(d, outdir)
                        drv_names.append(os.path.basename(d))
                order = [os.path.basename(x) for x in mlis] + [os.path.basename(x) for x in mls] + drv_names
                rc, out, err = sh(["ocamlfind", "ocamlopt", "-O3", "-w", "-a", "-package", "str,zarith", "-linkpkg"] + order +
                                  ["-o", exe + ".tmp"], cwd=outdir, timeout=timeout)
                if rc != 0:
                    rc, out, err = sh(["ocamlfind", "ocamlopt", "-w", "-a", "-package", "str,zarith", "-linkpkg"] + order +
                                      ["-o", exe + ".tmp"], cwd=outdir, timeout=timeout)
                if rc != 0:
                    raise RuntimeError("ocaml build failed: %s\n%s" % (out[-3000:], err[-3000:]))
                os.rename(exe + ".tmp", exe)
        return exe

    # ------------------------------------------------------------------ violations / findings
    def match_finding(self, key):
        for f in self.findings:
            k = f.get("key")
            if k == key:
                return f
            if f.get("key_regex") and re.fullmatch(f["key_regex"], key):
                return f
        return None

    def violation(self, key, what, replay, no_input=False):
        """Report a violation with canonical `key`. If listed in known_findings -> KNOWN-FINDING."""
        f = None if no_input else self.match_finding(key)
        if f is not None:
            if not any(k == f.get("key", f.get("key_regex")) for k, _ in self.known_hits):
                self.known_hits.append((f.get("key", f.get("key_regex")), f.get("what", what)))
            return False
        if any(v["key"] == key for v in self.violations):
            return True
        self.violations.append({"key": key, "what": what, "replay": replay, "no_input": no_input})
        return True

    def proof_failures(self):
        return [o for o in self.obligations if not o["ok"]]

    # ------------------------------------------------------------------ evidence
    def finish(self, level, coverage, assumptions=None, checker_cmd=None, trusted_base=None):
        wall = time.time() - self.t0
        cov = dict(coverage)
        if self.obligations:
            cov.setdefault("obligations", len(self.obligations))
            cov.setdefault("discharged", len([o for o in self.obligations if o["ok"]]))
            cov.setdefault("theorems", [
                {"name": o["name"], "ok": o["ok"],
                 "assumptions": ("closed under the global context" if o["assumptions"] == [] else o["assumptions"])}
                for o in self.obligations])
        if checker_cmd:
            cov["checker_cmd"] = checker_cmd
        if trusted_base is not None:
            cov["trusted_base"] = trusted_base
        cov["known_findings_hit"] = [k for k, _ in self.known_hits]
        if self.notes:
            cov["notes"] = self.notes
        ev = {
            "property_id": self.pid, "tier": self.tier, "seed": self.seed, "level": level,
            "coverage": cov, "assumptions": assumptions or [], "wall_s": round(wall, 2),
            "violations": len(self.violations),
        }
        for k, what in self.known_hits:
            print("KNOWN-FINDING: property=%s %s [%s]" % (self.pid, what, k), flush=True)
        for i, v in enumerate(self.violations):
            rp = os.path.join(self.replay_dir, "violation_%d.json" % i)
            with open(rp, "w") as f:
                json.dump({"property": self.pid, "key": v["key"], "what": v["what"], "replay": v["replay"],
                           "seed": self.seed, "tier": self.tier}, f, indent=1, default=str)
            tail = " no-failing-input-found" if v["no_input"] else ""
            print("VIOLATION property=%s replay=%s%s" % (self.pid, rp, tail), flush=True)
            print("   what: %s" % v["what"][:600], flush=True)
        path = os.path.join(VERIF, "evidence", self.pid + ".json")
        with open(path + ".tmp", "w") as f:
            json.dump(ev, f, indent=1, default=str)
        os.rename(path + ".tmp", path)
        self.log("done: %d violations, %d known findings, wall %.1fs" % (len(self.violations), len(self.known_hits), wall))
        return 1 if self.violations else 0


def forbidden_scan():
    """Refuse to run with Admitted/Axiom/... anywhere in the development (DESIGN section 2)."""
    bad = []
    pat = re.compile(r"\b(Admitted|admit|Axiom|Axioms|Parameter|Parameters|Conjecture|Unset\s+Guard|bypass_check|"
                     r"Admit\s+Obligations|native_compute|type-in-type)\b")
    for p in glob.glob(os.path.join(COQ, "**", "*.v"), recursive=True):
        txt = open(p, errors="replace").read()
        # strip comments (non-nested approximation is enough: we forbid the words in comments too, except docs)
        txt2 = re.sub(r"\(\*.*?\*\)", "", txt, flags=re.S)
        for m in pat.finditer(txt2):
            bad.append((os.path.relpath(p, VERIF), m.group(0)))
    return bad

#!/bin/bash
# Coordinator tool: run check(s) against a seeded change WITHOUT touching /repo (scratch worktree + VERIF_REPO).
# usage: tools/run_seed.sh <seed dir with patch.diff> <Cxx> [tier]     prints the VIOLATION / KNOWN-FINDING / done lines
set -u
D=$1; P=$2; T=${3:-quick}; N=$(basename $D); W=/tmp/rseed-$N-$P
git -C /repo worktree remove --force $W 2>/dev/null; rm -rf $W
git -C /repo worktree add -q $W HEAD || exit 2
( cd $W && git apply $D/patch.diff ) || { echo "PATCH-DOES-NOT-APPLY"; git -C /repo worktree remove --force $W; exit 2; }
cd "$(dirname "$0")/.."
VERIF_REPO=$W timeout 3000 ./check $P --tier $T > $W.log 2>&1; RC=$?
grep -E "^VIOLATION|^KNOWN-FINDING|^HARNESS-ERROR|done:" $W.log | cut -c1-400
grep -A1 "^VIOLATION" $W.log | grep "what:" | head -5 | cut -c1-400
echo "SEEDRUN $N check=$P rc=$RC"
git -C /repo worktree remove --force $W; rm -rf $W $W.log

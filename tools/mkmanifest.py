#!/usr/bin/env python3
"""Regenerate MANIFEST.json from tools/manifest_src.py (single source of truth; validated against the schema)."""
import json, os, sys
HERE = os.path.dirname(os.path.abspath(__file__))
VERIF = os.path.dirname(HERE)
sys.path.insert(0, HERE)
import manifest_src as M

def main():
    props = [json.loads(l)["id"] for l in open(os.path.join(VERIF, "properties.jsonl"))]
    checks = []
    for pid in props:
        c = M.CHECKS.get(pid)
        if not c:
            continue
        checks.append({
            "property_id": pid,
            "quick_cmd": "./check %s --tier quick" % pid,
            "thorough_cmd": "./check %s --tier thorough" % pid,
            "evidence_file": "/verif/evidence/%s.json" % pid,
            "replay_cmd_template": "./check %s --replay {path}" % pid,
            "engine": "coq-proof+correspondence",
            "level_claimed": {"category": c["category"], "text": c["text"], "design_ref": c.get("design_ref", "DESIGN.md section 3 / " + pid)},
            "level_note": c["note"],
            "technique": c["technique"],
        })
    na = [{"property_id": pid, "reason": M.NOT_CLAIMED.get(pid, "check not built yet (see DESIGN.md section 4.1 for the planned first version)")}
          for pid in props if pid not in M.CHECKS]
    man = {
        "version": 1,
        "setup_cmd": "./setup.sh",
        "hooks": M.HOOKS,
        "engines": [{"name": "coq-proof+correspondence", "path": "/verif/check",
                     "serves_properties": [c["property_id"] for c in checks],
                     "kind_free_text": "Coq 8.16.1 theorems over executable Gallina models (coq/theories), tied to /repo on every run by translators (coq/gen regenerated from the source) and by correspondence harnesses (C++ harness on /repo's working tree vs. the extracted OCaml model)"}],
        "checks": checks,
        "notes": M.NOTES,
        "not_applicable": na,
    }
    out = os.path.join(VERIF, "MANIFEST.json")
    json.dump(man, open(out + ".tmp", "w"), indent=1)
    try:
        import jsonschema
        jsonschema.validate(man, json.load(open("/root/.vp/MANIFEST.schema.json")))
    except ImportError:
        pass
    os.rename(out + ".tmp", out)
    print("MANIFEST.json: %d checks, %d not claimed" % (len(checks), len(na)))

if __name__ == "__main__":
    main()

#!/usr/bin/env python3
"""Coordinator tool: after fix commits were applied to /repo, run the given checks (2 quick seeds + thorough), drop the
finding lines of those properties that are never hit any more, and add a kind=fixed line for every fixes/<P>-*.patch whose
commit exists in /repo and is not listed yet. usage: tools/prune_findings.py C12 C14 ..."""
import subprocess, json, os, sys, glob
V = os.path.dirname(os.path.dirname(os.path.abspath(__file__)))
props = sys.argv[1:]
log = subprocess.run(['git', '-C', '/repo', 'log', '--format=%h %s'], stdout=subprocess.PIPE, text=True).stdout.split('\n')
commit = {}
for m in glob.glob(V + '/fixes/*.msg'):
    first = open(m).read().split('\n')[0].strip()
    for l in log:
        if l[8:].strip() == first: commit[os.path.basename(m)[:-4]] = (l[:7], first)
hits = {p: set() for p in props}
for P in props:
    for tier, seed in [("quick", 1), ("quick", 7), ("thorough", 3)]:
        env = dict(os.environ, VERIF_SEED=str(seed))
        r = subprocess.run(["./check", P, "--tier", tier], cwd=V, env=env, stdout=subprocess.PIPE, stderr=subprocess.STDOUT, text=True)
        ev = json.load(open(V + "/evidence/%s.json" % P))
        hits[P] |= set(ev["coverage"].get("known_findings_hit", []))
        print(P, tier, seed, "rc", r.returncode, "violations", ev.get("violations"), flush=True)
        if r.returncode != 0:
            print("\n".join([l for l in r.stdout.split("\n") if l.startswith("VIOLATION") or "what:" in l][:6]))
p = V + '/known_findings.jsonl'; out = []; listed = set(); dropped = []
for line in open(p).read().split('\n'):
    if line.strip() and not line.startswith('#'):
        d = json.loads(line)
        if d.get('kind') == 'fixed': listed.add(d.get('commit'))
        if d.get('kind') == 'fixed' and str(d.get('commit', '')).startswith('<'): continue
        k = d.get('key_regex', d.get('key'))
        if d['property'] in props and d['kind'] == 'finding' and k not in hits[d['property']] and d.get('key') not in hits[d['property']]:
            dropped.append(k); continue
    out.append(line)
for slug, (h, first) in sorted(commit.items()):
    if slug.split('-')[0] in props and h not in listed:
        out.append(json.dumps({'kind': 'fixed', 'property': slug.split('-')[0], 'commit': h, 'what': 'fixes/%s.patch: %s' % (slug, first)}))
open(p, 'w').write('\n'.join(out).rstrip('\n') + '\n')
print('dropped', len(dropped))

"""C13: instantiation of the x86 ISA database forms (expanded by /repo/db via tools/c13_dbforms.js) with representative operands,
decorations and near-miss mutations, as E commands of harness/c13_harness.cpp.  Independent of AsmJit's C++ tables: only the
database and the instruction-name list (to obtain instruction ids) are used."""
import json

# RegType numbers (checked against the dump by tools/checks/c13.py: REGTYPE_NAMES order of harness/c13_dump.cpp)
RT = {"gpb_lo": 2, "gpb_hi": 3, "gpw": 4, "gpd": 5, "gpq": 6, "xmm": 11, "ymm": 12, "zmm": 13, "k": 16, "tmm": 17,
      "sreg": 25, "creg": 26, "dreg": 27, "mm": 28, "st": 29, "bnd": 30, "pc": 31, "label": 1}
OPT = {"evex": 4096, "lock": 8192, "xacquire": 65536, "xrelease": 131072, "rep": 16384, "repne": 32768, "z": 8388608, "er": 262144, "sae": 524288}

CLASS_REG = {"r8": ("gpb_lo", 3), "r16": ("gpw", 3), "r32": ("gpd", 3), "r64": ("gpq", 3), "xmm": ("xmm", 3), "ymm": ("ymm", 3), "zmm": ("zmm", 3),
             "mm": ("mm", 3), "k": ("k", 3), "sreg": ("sreg", 3), "creg": ("creg", 3), "dreg": ("dreg", 3), "st(i)": ("st", 3), "st(0)": ("st", 0),
             "bnd": ("bnd", 1), "tmm": ("tmm", 3)}
FIXED_REG = {"al": ("gpb_lo", 0), "ah": ("gpb_hi", 0), "ax": ("gpw", 0), "eax": ("gpd", 0), "rax": ("gpq", 0),
             "cl": ("gpb_lo", 1), "cx": ("gpw", 1), "ecx": ("gpd", 1), "rcx": ("gpq", 1),
             "dx": ("gpw", 2), "edx": ("gpd", 2), "rdx": ("gpq", 2), "ebx": ("gpd", 3), "rbx": ("gpq", 3), "xmm0": ("xmm", 0),
             "es": ("sreg", 1), "cs": ("sreg", 2), "ss": ("sreg", 3), "ds": ("sreg", 4), "fs": ("sreg", 5), "gs": ("sreg", 6)}
NEXT_CLASS = {"gpb_lo": "gpw", "gpw": "gpd", "gpd": "gpq", "gpq": "gpd", "xmm": "ymm", "ymm": "zmm", "zmm": "ymm", "mm": "xmm", "k": "gpd",
              "st": "mm", "sreg": "gpw", "creg": "dreg", "dreg": "creg", "bnd": "xmm", "tmm": "zmm", "gpb_hi": "gpw"}
IMM_VALUE = {4: 5, 8: 0x45, 16: 0x1234, 32: 0x12345678, 64: 0x123456789ABCDEF0}
IMM_TOO_BIG = {4: 0x45, 8: 0x1234, 16: 0x12345678, 32: 0x123456789ABCDEF0}


def reg_tok(cls, rid):
    return "R %d %d" % (RT[cls], rid)


def mem_tok(mode, size, base="gp", index=None, off=16, seg=0, bcst=0):
    bt = RT["gpq"] if mode == 1 else RT["gpd"]
    it, iid = (0, 0)
    if index == "gp":
        it, iid = bt, 6
    elif index in ("xmm", "ymm", "zmm"):
        it, iid = RT[index], 5
    if base == "abs":
        return "M %d 0 0 %d %d 0 %d %d %d 0" % (size, it, iid, 0x1234, seg, bcst)
    return "M %d %d 5 %d %d 0 %d %d %d 0" % (size, bt, it, iid, off, seg, bcst)


MEM_SIZES = {"m8": 1, "m16": 2, "m32": 4, "m64": 8, "m80": 10, "m128": 16, "m256": 32, "m512": 64, "mem": 0, "m32fp": 4, "m64fp": 8, "m80fp": 10,
             "m80dec": 10, "m80bcd": 10, "m16int": 2, "m32int": 4, "m64int": 8, "m16_16": 4, "m16_32": 6, "m16_64": 10,
             "moff8": 1, "moff16": 2, "moff32": 4, "moff64": 8, "mib": 0, "tmem": 0,
             "vm32x": 0, "vm32y": 0, "vm32z": 0, "vm64x": 0, "vm64y": 0, "vm64z": 0}


def op_alternatives(o, mode):
    """list of (kind-label, token) alternatives for an explicit operand; [] = not instantiable"""
    alts = []
    if o["reg"]:
        r = o["reg"]
        if r in CLASS_REG and o.get("_consecutive") is not None:
            # consecutive register group (database regIndexRel): lead gets id 2, the followers 2 + distance
            alts.append((r, reg_tok(CLASS_REG[r][0], 2 + o["_consecutive"])))
        elif r in CLASS_REG:
            alts.append((r, reg_tok(*CLASS_REG[r])))
        elif r in FIXED_REG:
            alts.append((r, reg_tok(*FIXED_REG[r])))
        else:
            return []
    if o["mem"]:
        m = o["mem"]
        if m not in MEM_SIZES:
            return [] if not alts else alts
        if m.startswith("vm"):
            alts.append((m, mem_tok(mode, 0, index={"x": "xmm", "y": "ymm", "z": "zmm"}[m[-1]])))
        elif m.startswith("moff"):
            alts.append((m, mem_tok(mode, MEM_SIZES[m], base="abs")))
        elif m in ("mib", "tmem"):
            alts.append((m, mem_tok(mode, 0, index="gp", off=0)))
        else:
            alts.append((m, mem_tok(mode, MEM_SIZES[m])))
    if o["imm"]:
        v = o["immValue"] if o["immValue"] is not None else IMM_VALUE.get(o["imm"])
        if v is None:
            return []
        alts.append(("i%d" % o["imm"], "I %d" % v))
    if o["rel"]:
        alts.append(("rel%d" % o["rel"], "L"))
    return alts


def cmd(mode, inst_id, options, extra, toks):
    et, eid = extra if extra else (0, 0)
    return "E %d %d %d %d %d %d %s" % (mode, inst_id, options, et, eid, len(toks), " ".join(toks)) if toks else \
        "E %d %d %d %d %d 0" % (mode, inst_id, options, et, eid)


def mutate_tok(tok, how, mode):
    t = tok.split()
    if t[0] == "R" and how == "class":
        inv = {v: k for k, v in RT.items()}
        cls = inv.get(int(t[1]))
        if cls in NEXT_CLASS:
            return "R %d %s" % (RT[NEXT_CLASS[cls]], t[2])
    if t[0] == "M" and how == "class":
        sz = int(t[1])
        t[1] = str({0: 3, 1: 2, 2: 4, 4: 8, 6: 4, 8: 4, 10: 8, 16: 32, 32: 64, 64: 32}.get(sz, 1))
        return " ".join(t)
    if t[0] == "I" and how == "class":
        v = int(t[1])
        for w in (4, 8, 16, 32):
            if v == IMM_VALUE[w]:
                return "I %d" % IMM_TOO_BIG[w]
        return "I -%d" % (abs(v) + 1000)
    return None


def instantiate(forms, name_to_id, rng, tier):
    """Returns list of dict(cmd, form-index, mode, kind ('db' | 'db-decor' | 'mut:<what>'), key, allowed) and the skipped forms."""
    out = []
    skipped = {"no-such-instruction": [], "operand-kind": []}
    for fi, f in enumerate(forms):
        iid = name_to_id.get(f["name"])
        if iid is None:
            skipped["no-such-instruction"].append(f["name"])
            continue
        for mode in (0, 1):
            allowed = f["arch"] == "ANY" or (f["arch"] == "X64") == (mode == 1)
            for k, o in enumerate(f["operands"]):
                if o.get("regIndexRel", 0) > 0:
                    o["_consecutive"] = o["regIndexRel"]
                    f["operands"][k - o["regIndexRel"]]["_consecutive"] = 0
            expl = [o for o in f["operands"] if not o["implicit"]]
            alts = [op_alternatives(o, mode) for o in expl]
            if any(not a for a in alts):
                if mode == 0:
                    skipped["operand-kind"].append(f["name"] + " " + ",".join(o["data"] for o in f["operands"]))
                continue
            # choices: all first alternatives (register forms), then one memory alternative at a time
            choices = [[a[0] for a in alts]]
            choice_memidx = [None]
            for k, a in enumerate(alts):
                for alt in a[1:]:
                    c = [x[0] for x in alts]
                    c[k] = alt
                    choices.append(c)
                    choice_memidx.append(k if alt[1].startswith("M ") else None)
            variants = []
            for c in choices:
                variants.append(("db", [x[0] for x in c], [x[1] for x in c], 0, None))
            # all operands explicit (implicit registers / immediates written out)
            impl = [o for o in f["operands"] if o["implicit"]]
            if impl and all((o["reg"] in FIXED_REG or o["immValue"] is not None) and not o["mem"] for o in impl):
                full_k, full_t = [], []
                it = iter(choices[0])
                ok = True
                for o in f["operands"]:
                    if o["implicit"]:
                        if o["reg"]:
                            full_k.append("<%s>" % o["reg"]); full_t.append(reg_tok(*FIXED_REG[o["reg"]]))
                        else:
                            full_k.append("<%d>" % o["immValue"]); full_t.append("I %d" % o["immValue"])
                    else:
                        x = next(it); full_k.append(x[0]); full_t.append(x[1])
                if len(full_t) <= 6:
                    variants.append(("db-explicit", full_k, full_t, 0, None))
            # decorations the database grants
            base_k, base_t = variants[0][1], variants[0][2]
            has_mem_variant = [v for v in variants if any(t.startswith("M ") for t in v[2])]
            if f["kmask"]:
                variants.append(("db-decor", base_k + ["{k}"], base_t, 0, (RT["k"], 3)))
                if f["zmask"]:
                    variants.append(("db-decor", base_k + ["{k}{z}"], base_t, OPT["z"], (RT["k"], 3)))
            if f["er"] and f["name"] and not any(t.startswith("M ") for t in base_t):
                variants.append(("db-decor", base_k + ["{er}"], base_t, OPT["er"], None))
            # a lone {sae} exists only on forms without embedded rounding ({er} implies sae; validator rule of 6f19678)
            if f["sae"] and not f["er"] and not any(t.startswith("M ") for t in base_t):
                variants.append(("db-decor", base_k + ["{sae}"], base_t, OPT["sae"], None))
            # {evex}: for EVEX forms that are not APX promotions of legacy/VEX instructions (AsmJit does not implement APX)
            if (f.get("opcode") or "").startswith("EVEX") and "APX_F" not in f.get("ext", []):
                variants.append(("db-decor", base_k + ["{evex}"], base_t, OPT["evex"], None))
            # rounding / exception suppression together with masking
            if f["kmask"] and not any(t.startswith("M ") for t in base_t):
                if f["er"]:
                    variants.append(("db-decor", base_k + ["{er}{k}"], base_t, OPT["er"], (RT["k"], 3)))
                    if f["zmask"]:
                        variants.append(("db-decor", base_k + ["{er}{k}{z}"], base_t, OPT["er"] | OPT["z"], (RT["k"], 3)))
                if f["sae"] and not f["er"]:
                    variants.append(("db-decor", base_k + ["{sae}{k}"], base_t, OPT["sae"], (RT["k"], 3)))
            # embedded broadcast: per form (= per vector length) the {1toN} the database implies, N = memSize / bcstSize, incl. the
            # sub-128-bit cases (m64/b32 -> {1to2}, m64/b16 -> {1to4}, m32/b16 -> {1to2}); with the element size given and omitted, and under {k}
            bcst_muts = []
            if f["broadcast"]:
                for ci, c in enumerate(choices):
                    k = choice_memidx[ci]
                    if k is None:
                        continue
                    o = expl[k]
                    if not (o.get("bcstSize", 0) > 0 and o["memSize"] > 0 and o["memSize"] % o["bcstSize"] == 0):
                        continue
                    n = o["memSize"] // o["bcstSize"]
                    if n < 2 or n & (n - 1):
                        continue
                    b = n.bit_length() - 1
                    unit = o["bcstSize"] // 8
                    ks = [x[0] for x in c]; ts = [x[1] for x in c]
                    for label, size in (("{1to%d}" % n, unit), ("{1to%d}nosize" % n, 0)):
                        bt = ts[:k] + [mem_tok(mode, size, bcst=b)] + ts[k + 1:]
                        variants.append(("db-decor", ks + [label], bt, 0, None))
                        if f["kmask"]:
                            variants.append(("db-decor", ks + [label + "{k}"], bt, 0, (RT["k"], 3)))
                    # near misses: N one step too large / too small for this vector length
                    for b2 in (b + 1, b - 1):
                        if 1 <= b2 <= 5:
                            bcst_muts.append(("bcst-n", "%s %s" % (f["name"], ",".join(ks + ["{1to%d}" % n])), ts[:k] + [mem_tok(mode, unit, bcst=b2)] + ts[k + 1:], 0, None))
            # the other decorations / operand spellings on the memory form as well: {k}, {k}{z}, segment override, 32-bit address in
            # 64-bit mode; registers 8..15 in 64-bit mode; negative immediates where the database says signed/any
            for v in has_mem_variant[:1]:
                if f["kmask"]:
                    variants.append(("db-decor", v[1] + ["{k}"], v[2], 0, (RT["k"], 3)))
                    if f["zmask"] and not v[2][0].startswith("M "):
                        variants.append(("db-decor", v[1] + ["{k}{z}"], v[2], OPT["z"], (RT["k"], 3)))
                if not any(o["memOff"] or o["memSeg"] for o in expl):
                    variants.append(("db-decor", v[1] + ["fs:"], [(" ".join(t.split()[:8] + ["5"] + t.split()[9:]) if t.startswith("M ") else t) for t in v[2]], 0, None))
                if mode == 1 and not any(o["memOff"] for o in expl):
                    variants.append(("db-decor", v[1] + ["addr32"], [(" ".join(t.split()[:2] + [str(RT["gpd"]) if t.split()[2] == str(RT["gpq"]) else t.split()[2]] + t.split()[3:4]
                                                                              + [str(RT["gpd"]) if t.split()[4] == str(RT["gpq"]) else t.split()[4]] + t.split()[5:])
                                                                     if t.startswith("M ") else t) for t in v[2]], 0, None))
            # scale factors, 16-bit addressing (32-bit mode), registers 16..31 of EVEX-only forms
            for v in has_mem_variant[:1]:
                if not any(o["memOff"] or o.get("memRegOnly") or o["memSeg"] for o in expl):
                    for sh in (1, 2, 3):
                        def scaled(t, sh=sh):
                            q = t.split()
                            if q[0] != "M" or q[2] == "0":
                                return t
                            if q[4] == "0":
                                q[4] = q[2]; q[5] = "6"
                            q[6] = str(sh)
                            return " ".join(q)
                        st_ = [scaled(t) for t in v[2]]
                        if st_ != v[2] and not any(t.startswith("M ") and t.split()[4] == "0" for t in st_):
                            variants.append(("db-decor", v[1] + ["idx*%d" % (1 << sh)], st_, 0, None))
                    if mode == 0 and not any(o["mem"].startswith("vm") or o["mem"] in ("mib", "tmem") for o in expl if o["mem"]):
                        variants.append(("db-decor", v[1] + ["addr16"], [(" ".join(t.split()[:2] + [str(RT["gpw"])] + t.split()[3:]) if t.startswith("M ") else t) for t in v[2]], 0, None))
            if mode == 1 and (f.get("opcode") or "").startswith("EVEX"):
                # both ends of the register range only EVEX can name: 16 and 31
                for vid, lab in ((16, "v16"), (31, "v31")):
                    def hi2(t, vid=vid):
                        q = t.split()
                        if q[0] == "R" and int(q[1]) in (RT["xmm"], RT["ymm"], RT["zmm"]) and q[2] == "3":
                            return "R %s %d" % (q[1], vid)
                        if q[0] == "M" and int(q[4]) in (RT["xmm"], RT["ymm"], RT["zmm"]):
                            q[5] = str(vid)
                            return " ".join(q)
                        return t
                    for v in variants[:2]:
                        ht = [hi2(t) for t in v[2]]
                        if ht != v[2] and v[0] == "db":
                            variants.append(("db-decor", v[1] + [lab], ht, 0, None))
            if mode == 1:
                def hi(t):
                    q = t.split()
                    if q[0] == "R" and int(q[1]) in (RT["gpb_lo"], RT["gpw"], RT["gpd"], RT["gpq"], RT["xmm"], RT["ymm"], RT["zmm"]) and q[2] == "3":
                        return "R %s 11" % q[1]
                    if q[0] == "M" and q[3] == "5" and int(q[2]) in (RT["gpd"], RT["gpq"]):
                        q[3] = "13"
                        return " ".join(q)
                    return t
                for v in variants[:2]:
                    ht = [hi(t) for t in v[2]]
                    if ht != v[2] and v[0] in ("db",):
                        variants.append(("db-decor", v[1] + ["r8-15"], ht, 0, None))
            # the ends of the immediate class the database names (case-split boundaries of the validator's immediate ladder)
            for k, o in enumerate(expl):
                if allowed and o["imm"] and o["immValue"] is None and o["imm"] in (8, 16, 32):     # (in an excluded mode a sibling form may own the value)
                    n_ = o["imm"]
                    ends = {"signed": [(1 << (n_ - 1)) - 1, -(1 << (n_ - 1))], "unsigned": [(1 << n_) - 1], "any": [(1 << n_) - 1, -(1 << (n_ - 1))]}.get(o["immSign"], [])
                    for v in variants[:1]:
                        if v[0] == "db" and v[2][k].startswith("I "):
                            for e_ in ends:
                                variants.append(("db-decor", v[1] + ["imm=%d" % e_], v[2][:k] + ["I %d" % e_] + v[2][k + 1:], 0, None))
            for k, o in enumerate(expl):
                if o["imm"] and o["immValue"] is None and o["immSign"] in ("any", "signed") and o["imm"] >= 8:
                    for v in variants[:2]:
                        if v[0] == "db" and v[2][k].startswith("I "):
                            variants.append(("db-decor", v[1] + ["imm<0"], v[2][:k] + ["I -3"] + v[2][k + 1:], 0, None))
            if f["prefixes"].get("lock"):
                for v in has_mem_variant[:1]:
                    if v[2][0].startswith("M "):
                        variants.append(("db-decor", v[1] + ["lock"], v[2], OPT["lock"], None))
            if f["prefixes"].get("rep"):
                variants.append(("db-decor", base_k + ["rep"], base_t, OPT["rep"], None))
            if f["prefixes"].get("repne"):
                variants.append(("db-decor", base_k + ["repne"], base_t, OPT["repne"], None))
            for kind, ks, ts, opt, extra in variants:
                key = "%s %s" % (f["name"], ",".join(ks))
                out.append({"cmd": cmd(mode, iid, opt, extra, ts), "form": fi, "mode": mode, "kind": kind, "key": key, "allowed": allowed})
            # near-miss mutations of the plain variants
            muts = []
            for kind, ks, ts, opt, extra in variants[:2]:
                key = "%s %s" % (f["name"], ",".join(ks))
                if len(ts) >= 2 and ts[0] != ts[1]:
                    muts.append(("swap", key, [ts[1], ts[0]] + ts[2:], opt, extra))
                for k in range(len(ts)):
                    m = mutate_tok(ts[k], "class", mode)
                    if m:
                        muts.append(("class%d" % k, key, ts[:k] + [m] + ts[k + 1:], opt, extra))
                if ts:
                    muts.append(("drop", key, ts[:-1], opt, extra))
                if len(ts) < 6:
                    muts.append(("extra", key, ts + [ts[-1] if ts else "I 1"], opt, extra))
                if len(ts) >= 2:
                    muts.append(("gap", key, [ts[0], "N"] + ts[1:], opt, extra) if len(ts) < 6 else ("gap", key, [ts[0], "N"] + ts[2:], opt, extra))
                if not f["prefixes"].get("lock"):
                    muts.append(("lock", key, ts, opt | OPT["lock"], extra))
                elif ts and not ts[0].startswith("M "):
                    muts.append(("lock-reg", key, ts, opt | OPT["lock"], extra))
                if not f["prefixes"].get("rep"):
                    muts.append(("rep", key, ts, opt | OPT["rep"], extra))
                if not f["zmask"]:
                    muts.append(("z", key, ts, opt | OPT["z"], (RT["k"], 3) if f["kmask"] else extra))
                if not f["kmask"]:
                    muts.append(("k", key, ts, opt, (RT["k"], 3)))
                else:
                    muts.append(("k0", key, ts, opt, (RT["k"], 0)))
                    muts.append(("k-not-mask", key, ts, opt, (RT["gpd"], 3)))
                if not (f.get("opcode") or "").startswith("EVEX"):
                    muts.append(("evex", key, ts, opt | OPT["evex"], extra))
                if not f["er"]:
                    muts.append(("er", key, ts, opt | OPT["er"], extra))
                if not f["sae"] or f["er"]:
                    muts.append(("sae", key, ts, opt | OPT["sae"], extra))
                if any(t.startswith("M ") for t in ts):
                    muts.append(("seg7", key, [t if not t.startswith("M ") else " ".join(t.split()[:8] + ["7"] + t.split()[9:]) for t in ts], opt, extra))
                    muts.append(("bcst", key, [t if not t.startswith("M ") else " ".join(t.split()[:9] + ["2"] + t.split()[10:]) for t in ts], opt, extra)) if not f["broadcast"] else None
                    muts.append(("er-mem", key, ts, opt | OPT["er"], extra)) if f["er"] else None
            if tier == "quick" and len(muts) > 3:
                muts = rng.sample(muts, 3)
            muts += bcst_muts
            for what, key, ts, opt, extra in muts:
                out.append({"cmd": cmd(mode, iid, opt, extra, ts), "form": fi, "mode": mode, "kind": "mut:" + what, "key": key, "allowed": allowed})
    return out, skipped


def load_forms(text):
    return [json.loads(l) for l in text.splitlines() if l.strip()]


# ------------------------------------------------------------------ database rows at the operand-KIND level (for C13_signature_rows_present)
OF = {"gpb_lo": 1, "gpb_hi": 2, "gpw": 4, "gpd": 8, "gpq": 0x10, "xmm": 0x20, "ymm": 0x40, "zmm": 0x80, "mm": 0x100, "k": 0x200, "sreg": 0x400,
      "creg": 0x800, "dreg": 0x1000, "st": 0x2000, "bnd": 0x4000, "tmm": 0x8000}
OF_MEM = {0: 0x40000, 8: 0x80000, 16: 0x100000, 32: 0x200000, 48: 0x400000, 64: 0x800000, 80: 0x1000000, 128: 0x2000000, 256: 0x4000000, 512: 0x8000000}
OF_VM = {"vm32x": 0x40000000, "vm32y": 0x80000000, "vm32z": 0x100000000, "vm64x": 0x200000000, "vm64y": 0x400000000, "vm64z": 0x800000000}
OF_IMM = {(4, "s"): 0x1000000000, (4, "u"): 0x2000000000, (8, "s"): 0x4000000000, (8, "u"): 0x8000000000, (16, "s"): 0x10000000000, (16, "u"): 0x20000000000,
          (32, "s"): 0x40000000000, (32, "u"): 0x80000000000, (64, "s"): 0x100000000000, (64, "u"): 0x200000000000}
OF_REL = {8: 0x400000000000, 32: 0x800000000000}
OF_IMPLICIT = 1 << 55
OF_MEMBASE = 1 << 48


def db_operand_need(o):
    """list of alternatives [(label, flags an admitting signature operand must contain, fixed-register bit or 0)] or None"""
    alts = []
    impl = OF_IMPLICIT if o["implicit"] else 0
    if o["reg"]:
        r = o["reg"]
        if r == "st(0)":
            alts.append((r, OF["st"] | impl, 1))
        elif r in CLASS_REG:
            alts.append((r, OF[CLASS_REG[r][0]] | impl, 0))
        elif r in FIXED_REG:
            cls, rid = FIXED_REG[r]
            alts.append((r, OF[cls] | impl, 1 << rid))
        else:
            return None
    if o["mem"]:
        m = o["mem"]
        mb = OF_MEMBASE if o.get("memRegOnly") else 0     # "[reg]" only: no index, no displacement (kFlagMemBase)
        if m in OF_VM:
            alts.append((m, OF_VM[m] | impl, 0))
        elif m in ("mib", "tmem", "mem"):
            alts.append((m, OF_MEM[0] | impl | mb, 0))
        elif m in MEM_SIZES and MEM_SIZES[m] * 8 in OF_MEM:
            alts.append((m, OF_MEM[MEM_SIZES[m] * 8] | impl | mb, 0))
        else:
            return None
    if o["imm"]:
        if o["immValue"] is not None:
            return None            # an immediate fixed by the opcode ("shl r, 1"): AsmJit has no such operand kind
        need = 0
        if o["immSign"] in ("any", "signed"):
            need |= OF_IMM[(o["imm"], "s")]
        if o["immSign"] in ("any", "unsigned"):
            need |= OF_IMM[(o["imm"], "u")]
        alts.append(("i%d%s" % (o["imm"], o["immSign"][0]), need | impl, 0))
    if o["rel"]:
        if o["rel"] not in OF_REL:
            return None
        alts.append(("rel%d" % o["rel"], OF_REL[o["rel"]] | impl, 0))
    return alts or None


def db_rows(forms, name_to_id):
    """database rows expanded to ONE operand kind per operand (register or memory alternative):
    -> list of (key, inst_id, mode_mask, ((need, fixed, implicit), ...)) and the keys of rows that cannot be expressed"""
    import itertools
    rows, unsupported = [], []
    seen = set()
    for f in forms:
        iid = name_to_id.get(f["name"])
        if iid is None:
            continue
        ops = [db_operand_need(o) for o in f["operands"]]
        if any(x is None for x in ops) or len(ops) > 6:
            unsupported.append("%s %s" % (f["name"], ",".join(o["data"] for o in f["operands"])))
            continue
        mode = 3 if f["arch"] == "ANY" else (2 if f["arch"] == "X64" else 1)
        for combo in itertools.product(*ops):
            if sum(1 for i, c in enumerate(combo) if f["operands"][i]["mem"] and c[0] == f["operands"][i]["mem"]) > 1:
                continue            # at most one memory operand
            key = "%s %s" % (f["name"], ",".join(("<%s>" % c[0]) if f["operands"][i]["implicit"] else c[0] for i, c in enumerate(combo)))
            t = (key, iid, mode, tuple((c[1], c[2], 1 if f["operands"][i]["implicit"] else 0) for i, c in enumerate(combo)))
            if t in seen:
                continue
            seen.add(t)
            rows.append(t)
    return rows, unsupported


def row_present(d, row):
    """python twin of ValidateModel.row_present (used to NAME a missing row; the deciding evaluation is the Coq one)"""
    key, iid, mode, ops = row
    inst = d["x86.inst"]; isig = d["x86.isig"]; osig = d["x86.osig"]
    sidx, scnt = inst[4 * iid + 2], inst[4 * iid + 3]
    for r in range(sidx, sidx + scnt):
        s = isig[9 * r:9 * r + 9]
        if s[0] != len(ops) or (s[1] & mode) != mode:
            continue
        ok = True
        for k, (need, fixed, impl) in enumerate(ops):
            fl, mask = osig[2 * s[3 + k]], osig[2 * s[3 + k] + 1]
            if (fl & need) != need or bool(fl & OF_IMPLICIT) != bool(impl) or bool(fl & OF_MEMBASE) != bool(need & OF_MEMBASE):
                ok = False; break
            if need & 0xFFFF:
                if fixed == 0 and mask != 0:
                    ok = False; break
                if fixed != 0 and mask != 0 and not (mask & fixed):
                    ok = False; break
        if ok:
            return True
    return False


def orphan_records(d, rows):
    """(instruction id, index within the instruction's signature records) of records that admit no database row of the instruction
    sharing a mode (python twin of ValidateModel.sig_origin; the Coq evaluation decides)"""
    import collections
    byinst = collections.defaultdict(list)
    for r in rows:
        byinst[r[1]].append(r)
    inst = d["x86.inst"]; isig = d["x86.isig"]; osig = d["x86.osig"]
    out = []
    for iid in range(1, len(inst) // 4):
        for k in range(inst[4 * iid + 3]):
            s = isig[9 * (inst[4 * iid + 2] + k):9 * (inst[4 * iid + 2] + k) + 9]
            ok = False
            for key, _i, mode, ops in byinst.get(iid, []):
                if s[0] != len(ops) or (s[1] & mode) == 0:
                    continue
                good = True
                for q, (need, fixed, impl) in enumerate(ops):
                    fl, mask = osig[2 * s[3 + q]], osig[2 * s[3 + q] + 1]
                    if (fl & need) != need or bool(fl & OF_IMPLICIT) != bool(impl) or bool(fl & OF_MEMBASE) != bool(need & OF_MEMBASE):
                        good = False; break
                    if need & 0xFFFF and ((fixed == 0 and mask != 0) or (fixed and mask and not (mask & fixed))):
                        good = False; break
                if good:
                    ok = True; break
            if not ok:
                out.append((iid, k))
    return out


OPMASK = 281474439643135


def kinds_without_origin(d, rows):
    """(instruction id, record index, operand index, kind bit) of signature-record operand kinds that no admitted database row names
    (python twin of ValidateModel.kinds_have_origin; systematic additions kMemUnspecified / kRegGpbHi-next-to-kRegGpbLo exempt)"""
    import collections
    byinst = collections.defaultdict(list)
    for r in rows:
        byinst[r[1]].append(r)
    inst = d["x86.inst"]; isig = d["x86.isig"]; osig = d["x86.osig"]

    def compat(need, fixed, impl, fl, mask):
        if (fl & need) != need or bool(fl & OF_IMPLICIT) != bool(impl) or bool(fl & OF_MEMBASE) != bool(need & OF_MEMBASE):
            return False
        if need & 0xFFFF and ((fixed == 0 and mask != 0) or (fixed and mask and not (mask & fixed))):
            return False
        return True
    out = []
    for iid in range(1, len(inst) // 4):
        for k in range(inst[4 * iid + 3]):
            s = isig[9 * (inst[4 * iid + 2] + k):9 * (inst[4 * iid + 2] + k) + 9]
            refs = [(osig[2 * s[3 + q]], osig[2 * s[3 + q] + 1]) for q in range(s[0])]
            cands = [r for r in byinst.get(iid, []) if len(r[3]) == s[0] and (r[2] & s[1]) and all(compat(n, f, i, *refs[q]) for q, (n, f, i) in enumerate(r[3]))]
            for q, (fl, mask) in enumerate(refs):
                for sh in range(48):
                    b = 1 << sh
                    if not (fl & b & OPMASK) or b == 0x40000 or (b == 2 and fl & 1):
                        continue
                    if not any(r[3][q][0] & b for r in cands):
                        out.append((iid, k, q, b))
    return out


# ------------------------------------------------------------------ decorations the database grants, as flag bits of the instruction tables
DECOR_IF = {"lock": 65536, "xacquire": 131072, "xrelease": 262144, "rep": 16384, "repne": 16384}
DECOR_AF = {"k": 1, "z": 2, "er": 4, "sae": 8, "b16": 16, "b32": 32, "b64": 64}
IF_EVEX = 8388608


def db_decorations(forms, name_to_id):
    """-> {inst id: set of decoration names} over all forms of the instruction"""
    import collections
    need = collections.defaultdict(set)
    for f in forms:
        i = name_to_id.get(f["name"])
        if i is None:
            continue
        for p in ("lock", "xacquire", "xrelease", "rep", "repne"):
            if f["prefixes"].get(p):
                need[i].add(p)
        for k in ("k", "z", "er", "sae"):
            if f[{"k": "kmask", "z": "zmask"}.get(k, k)]:
                need[i].add(k)
        if f["broadcast"]:
            for o in f["operands"]:
                if o.get("bcstSize", 0) in (16, 32, 64):
                    need[i].add("b%d" % o["bcstSize"])
    return need


def decoration_has(d, iid, dec):
    fl, av = d["x86.inst"][4 * iid], d["x86.inst"][4 * iid + 1]
    if dec in DECOR_IF:
        return bool(fl & DECOR_IF[dec])
    return bool(av & DECOR_AF[dec]) and bool(fl & IF_EVEX)


def db_decorated_rows(forms, name_to_id, d=None):
    """kind-level rows together with ONE decoration the database form grants, as the instruction word that carries it:
    -> list of (key, inst_id, mode_mask, ops, options, extra_type, extra_id)"""
    import itertools
    out, seen = [], set()
    for f in forms:
        iid = name_to_id.get(f["name"])
        if iid is None:
            continue
        ops = [db_operand_need(o) for o in f["operands"]]
        if any(x is None for x in ops) or len(ops) > 6:
            continue
        mode = 3 if f["arch"] == "ANY" else (2 if f["arch"] == "X64" else 1)
        for combo in itertools.product(*ops):
            is_mem = [bool(f["operands"][i]["mem"]) and c[0] == f["operands"][i]["mem"] for i, c in enumerate(combo)]
            if sum(is_mem) > 1:
                continue
            expl = [i for i in range(len(combo)) if not f["operands"][i]["implicit"]]
            first_mem = bool(expl) and is_mem[expl[0]]
            any_mem = any(is_mem[i] for i in expl)
            decs = []
            if f["prefixes"].get("lock") and first_mem:
                decs.append(("lock", OPT["lock"], 0, 0))
            if f["prefixes"].get("rep"):
                decs.append(("rep", OPT["rep"], 0, 0))
            if f["prefixes"].get("repne"):
                decs.append(("repne", OPT["repne"], 0, 0))
            if f["kmask"]:
                decs.append(("{k}", 0, RT["k"], 3))
                if f["zmask"] and not first_mem:
                    decs.append(("{k}{z}", OPT["z"], RT["k"], 3))
            # AsmJit restricts {er}/{sae} of PACKED instructions (those with broadcast flags) to 512-bit operands; the database also lists them
            # for the 128/256-bit forms (AVX10.2): those combinations are refused by validator and assembler alike and are not generated
            packed_not_512 = False
            if d is not None and (d["x86.inst"][4 * iid + 1] & 0x70):
                packed_not_512 = not any((c[1] & 0x80) or (c[1] & 0x8000000) for c in combo[:2])
            if f["er"] and not any_mem and not packed_not_512:
                decs.append(("{er}", OPT["er"], 0, 0))
                if f["kmask"]:
                    decs.append(("{er}{k}", OPT["er"], RT["k"], 3))
            if f["sae"] and not f["er"] and not any_mem and not packed_not_512:
                decs.append(("{sae}", OPT["sae"], 0, 0))
                if f["kmask"]:
                    decs.append(("{sae}{k}", OPT["sae"], RT["k"], 3))
            if (f.get("opcode") or "").startswith("EVEX") and "APX_F" not in f.get("ext", []):
                decs.append(("{evex}", OPT["evex"], 0, 0))
            key0 = "%s %s" % (f["name"], ",".join(("<%s>" % c[0]) if f["operands"][i]["implicit"] else c[0] for i, c in enumerate(combo)))
            if d is not None:
                # decorations whose flag the tables lack are the known-absent pairs of db_decorations_absent_x86.txt (AVX10.2 forms of VEX instructions)
                fl, av = d["x86.inst"][4 * iid], d["x86.inst"][4 * iid + 1]
                ok_ = {"{k}": (fl & IF_EVEX) and (av & 1), "{k}{z}": (fl & IF_EVEX) and (av & 1) and (av & 2), "{evex}": fl & IF_EVEX,
                       "{er}": fl & IF_EVEX, "{er}{k}": (fl & IF_EVEX) and (av & 1), "{sae}": fl & IF_EVEX, "{sae}{k}": (fl & IF_EVEX) and (av & 1)}
                decs = [x for x in decs if ok_.get(x[0], True)]
            for dn, o, et, ei in decs:
                t = (key0 + "," + dn, iid, mode, tuple((c[1], c[2], 1 if f["operands"][i]["implicit"] else 0) for i, c in enumerate(combo)), o, et, ei)
                if t[1:] in seen:
                    continue
                seen.add(t[1:])
                out.append(t)
    return out

"""C07 independent oracle: a byte-level interpreter of the instruction lists the REAL emit_prolog/emit_epilog produced
(text dumped by harness/c07_harness.cpp), with semantics written from the Intel SDM / ARM ARM — it shares nothing with
the Coq model nor with AsmJit.  For one frame it runs

    prolog ; [checks inside the body] ; poisoning body confined to the declared areas ; epilog

on a concrete machine state and judges the property C07 itself:
  * returns to the caller's return address, sp = entry sp + return-address size + callee-pops bytes
  * every register of the convention's preserved set has its entry value (on the saved width)
  * inside the body: sp aligned as promised, call/local areas aligned, inside the frame, disjoint from everything the
    epilog reads, stack arguments where the frame says they are
  * nothing above the entry sp is written, aligned vector moves are aligned, every instruction is encodable

judge(cmd, answer, seed) -> list of (key, description); empty list = property holds on this input."""
import random
import zlib

M64 = (1 << 64) - 1


class Fault(Exception):
    def __init__(self, key, what):
        Exception.__init__(self, what)
        self.key = key
        self.what = what


def parse_answer(ans):
    """'F 0 I ... L ... P be ae n insts E be ae n insts' -> dict, or None for refused frames"""
    t = ans.split(" ")
    if len(t) < 3 or t[0] != "F" or t[1] != "0" or t[2] != "I":
        return None
    r = {}
    i = 3
    names_i = ["natural", "mindyn", "redzone", "spillzone", "cleanup", "argstack"]
    for n in names_i:
        r[n] = int(t[i]); i += 1
    r["preserved"] = [int(x) for x in t[i:i + 4]]; i += 4
    r["srsize"] = [int(x) for x in t[i:i + 4]]; i += 4
    r["sralign"] = [int(x) for x in t[i:i + 4]]; i += 4
    if t[i] != "L" or t[i + 1].startswith("?"):
        return None
    i += 1
    for n in ["avsr", "has_da", "sp_reg", "sa_reg", "final_align"]:
        r[n] = int(t[i]); i += 1
    r["dirty"] = [int(x) for x in t[i:i + 4]]; i += 4
    for n in ["pp_size", "ex_size", "local_off", "ex_off", "da_off", "pp_off", "adj", "final_size", "sa_from_sp", "sa_from_sa"]:
        r[n] = int(t[i]); i += 1
    for which in ("P", "E"):
        if t[i] != which:
            return None
        r[which + "_berr"] = int(t[i + 1]); r[which + "_aerr"] = int(t[i + 2]) if t[i + 2] != "-" else 0
        n = int(t[i + 3])
        # the instruction text may contain spaces: it extends to the next " E " marker / end of line
        i += 4
        if which == "P":
            j = t.index("E", i)
            text = " ".join(t[i:j]); i = j
        else:
            text = " ".join(t[i:])
        r[which] = [] if text == "-" else text.split(";")
        if len(r[which]) != n:
            return None
    return r


def parse_op(s):
    if s[0] == "#":
        return ("imm", int(s[1:]))
    if s[0] == "[":
        mode = 0
        if s.endswith("!"):
            mode = 1; s = s[:-1]
        elif s.endswith("^"):
            mode = 2; s = s[:-1]
        body = s[1:-1]
        assert body[0] == "G"
        k = 1
        while body[k].isdigit():
            k += 1
        return ("mem", int(body[1:k]), int(body[k:]), mode)
    g = "GVKM".index(s[0])
    sz, idx = s[1:].split(".")
    return ("reg", g, int(sz), int(idx))


def parse_inst(s):
    p = s.split(" ", 1)
    ops = [parse_op(x) for x in p[1].split(",")] if len(p) > 1 else []
    return p[0], ops


class Machine:
    def __init__(self, arch, ws):
        self.arch = arch          # 0 x86, 1 x64, 2 a64
        self.ws = ws
        self.sp = 31 if arch == 2 else 4
        self.regs = [dict(), dict(), dict(), dict()]
        self.mem = {}             # addr -> byte (written bytes only)
        self.written = set()
        self.retto = None
        self.background = lambda a: (a * 0x9E3779B1 >> 7) & 0xFF

    def rd(self, a):
        return self.mem.get(a, self.background(a))

    def load(self, a, n):
        return sum(self.rd(a + i) << (8 * i) for i in range(n))

    def store(self, a, n, v):
        for i in range(n):
            self.mem[a + i] = (v >> (8 * i)) & 0xFF
            self.written.add(a + i)

    def greg(self, g, idx):
        return self.regs[g].get(idx, 0)

    def wmask(self):
        return (1 << (8 * self.ws)) - 1

    def check_sp_access(self, base):
        if self.arch == 2 and base == 31 and self.regs[0][31] % 16 != 0:
            raise Fault("sp-misaligned-access", "AArch64 memory access through sp = %#x which is not 16-byte aligned" % self.regs[0][31])

    def addr(self, op):
        _, base, off, mode = op
        self.check_sp_access(base)
        b = self.regs[0][base]
        if mode == 0:
            return (b + off) & M64, None
        if mode == 1:
            return (b + off) & M64, (base, (b + off) & M64)
        return b, (base, (b + off) & M64)

    def step(self, mn, ops):
        if self.retto is not None:
            raise Fault("after-ret", "instruction after ret")
        R = self.regs
        ws = self.ws
        if mn in ("endbr32", "endbr64", "emms", "vzeroupper", "bti"):
            return
        if mn == "push":
            (_, g, sz, r), = ops
            assert g == 0 and sz == ws
            v = R[0][r]
            R[0][self.sp] = (R[0][self.sp] - ws) & M64
            self.store(R[0][self.sp], ws, v)
            return
        if mn == "pop":
            (_, g, sz, r), = ops
            assert g == 0 and sz == ws
            v = self.load(R[0][self.sp], ws)
            R[0][self.sp] = (R[0][self.sp] + ws) & M64
            R[0][r] = v
            return
        if mn == "mov":
            d, s = ops
            if d[0] == "reg" and s[0] == "reg":
                assert d[1] == 0 and s[1] == 0
                R[0][d[3]] = R[0][s[3]]
            elif d[0] == "mem" and s[0] == "reg":
                assert self.arch != 2 and d[3] == 0 and s[1] == 0
                self.store(self.addr(d)[0], s[2], R[0][s[3]])
            elif d[0] == "reg" and s[0] == "mem":
                assert self.arch != 2 and s[3] == 0 and d[1] == 0
                R[0][d[3]] = self.load(self.addr(s)[0], d[2])
            else:
                raise Fault("unknown-form", "mov %r" % (ops,))
            return
        if mn == "xchg":
            d, s = ops
            assert d[0] == "reg" and s[0] == "reg" and d[1] == 0 and s[1] == 0 and self.arch != 2
            R[0][d[3]], R[0][s[3]] = R[0][s[3]], R[0][d[3]]
            return
        if mn == "and":
            d, s = ops
            assert d[0] == "reg" and d[1] == 0 and s[0] == "imm" and self.arch != 2
            R[0][d[3]] = R[0][d[3]] & (s[1] & M64) & self.wmask()
            return
        if mn in ("sub", "add"):
            if len(ops) == 2:
                d, s = ops
                assert self.arch != 2 and d[0] == "reg" and d[1] == 0 and s[0] == "imm"
                if not (-(1 << 31) <= s[1] < (1 << 31)):
                    raise Fault("unencodable", "%s immediate %d does not fit imm32" % (mn, s[1]))
                v = R[0][d[3]] - s[1] if mn == "sub" else R[0][d[3]] + s[1]
                R[0][d[3]] = v & self.wmask()
            else:
                d, a, s = ops
                assert self.arch == 2 and d[0] == "reg" and a[0] == "reg" and s[0] == "imm" and d[1] == 0 and a[1] == 0
                if not (0 <= s[1] < 4096 or (s[1] & 0xFFF == 0 and 0 <= s[1] >> 12 < 4096)):
                    raise Fault("unencodable", "%s immediate %d is not an AArch64 add/sub immediate" % (mn, s[1]))
                v = R[0][a[3]] - s[1] if mn == "sub" else R[0][a[3]] + s[1]
                R[0][d[3]] = v & M64
            return
        if mn == "lea":
            d, s = ops
            assert d[0] == "reg" and s[0] == "mem" and s[3] == 0 and self.arch != 2
            R[0][d[3]] = (R[0][s[1]] + s[2]) & self.wmask()
            return
        if mn in ("movaps", "movups", "vmovaps", "vmovups", "kmovq", "movq"):
            d, s = ops
            reg, mem = (s, d) if d[0] == "mem" else (d, s)
            assert reg[0] == "reg" and mem[0] == "mem" and mem[3] == 0 and self.arch != 2
            g, sz, idx = reg[1], reg[2], reg[3]
            want_g = 1 if mn.endswith("ps") else (2 if mn == "kmovq" else 3)
            assert g == want_g and sz == (16 if g == 1 else 8)
            nreg = 8 if (self.arch == 0 or g >= 2) else (16 if mn in ("movaps", "movups") else 32)
            if idx >= nreg:
                raise Fault("unencodable-register", "%s cannot encode register id %d of group %d in this mode" % (mn, idx, g))
            a = self.addr(mem)[0]
            if mn in ("movaps", "vmovaps") and a % 16 != 0:
                raise Fault("misaligned-vector-move", "%s at address %#x (not 16-byte aligned)" % (mn, a))
            if d[0] == "mem":
                self.store(a, sz, R[g][idx])
            else:
                R[g][idx] = self.load(a, sz)
            return
        if mn == "ret":
            if self.arch == 2:
                (_, g, sz, r), = ops
                assert g == 0
                self.retto = R[0][r]
            else:
                n = ops[0][1] if ops else 0
                assert 0 <= n < 65536
                self.retto = self.load(R[0][self.sp], ws)
                R[0][self.sp] = (R[0][self.sp] + ws + n) & self.wmask()
            return
        if mn in ("stp", "str", "ldp", "ldr"):
            assert self.arch == 2
            regs, mem = ops[:-1], ops[-1]
            assert mem[0] == "mem" and len(regs) == (2 if mn.endswith("p") else 1)
            sz = regs[0][2]
            assert all(r[0] == "reg" and r[2] == sz and r[1] == regs[0][1] for r in regs) and sz in (8, 16)
            off, mode = mem[2], mem[3]
            if len(regs) == 2:
                if off % sz != 0 or not (-64 * sz <= off <= 63 * sz):
                    raise Fault("unencodable", "%s offset %d not encodable (imm7 * %d)" % (mn, off, sz))
            else:
                if mode == 0:
                    if not ((off % sz == 0 and 0 <= off <= 4095 * sz) or -256 <= off <= 255):
                        raise Fault("unencodable", "%s offset %d not encodable" % (mn, off))
                elif not (-256 <= off <= 255):
                    raise Fault("unencodable", "%s pre/post-index offset %d not encodable (simm9)" % (mn, off))
            a, wb = self.addr(mem)
            for k, r in enumerate(regs):
                g, idx = r[1], r[3]
                if mn.startswith("st"):
                    self.store(a + k * sz, sz, R[g][idx] & ((1 << (8 * sz)) - 1))
                else:
                    R[g][idx] = self.load(a + k * sz, sz)     # D-register loads zero the upper 64 bits
            if wb:
                R[0][wb[0]] = wb[1]
            return
        raise Fault("unknown-instruction", "unknown instruction %s" % mn)


# callee-saved registers of the standard ABIs, written from the ABI documents (NOT from AsmJit); group -> mask
def abi_preserved(arch, plat, cc):
    if arch == 0:
        if cc <= 7:
            return [(1 << 3) | (1 << 5) | (1 << 6) | (1 << 7), 0, 0, 0]
        return None
    if arch == 1:
        if cc == 32 or (cc in (0, 1, 2, 4, 5, 6, 7) and plat != 1):
            return [(1 << 3) | (1 << 5) | (0xF << 12), 0, 0, 0]
        if cc in (33, 3) or (cc in (0, 1, 2, 4, 5, 6, 7) and plat == 1):
            return [(1 << 3) | (1 << 5) | (1 << 6) | (1 << 7) | (0xF << 12), 0xFFC0, 0, 0]
        return None
    if cc <= 7:
        return [(0x3FF << 19) | (1 << 29), 0xFF00, 0, 0]
    return None


def callee_pops(arch, plat, cc):
    return arch == 0 and (cc in (1, 2, 3) or (cc == 4 and plat == 1))


def entry_slot(cmd, seed):
    """which of the 64 admissible entry stack pointers (natural alignment apart) the scenario of this frame uses: shared by the
    interpreter and the proven-machine run of the check, so that both judge the SAME entry state (a defect that depends on the
    residue of the entry sp modulo a larger alignment is then seen, or not seen, by both)"""
    return zlib.crc32(("%s|%d|entry-sp" % (cmd, seed)).encode()) % 64


def judge(cmd, ans, seed, slot=None):
    """Returns list of (key, description)."""
    c = cmd.split()
    arch, plat, cc, nargs, attrs = [int(x) for x in c[1:6]]
    d_in = [int(x) for x in c[6:10]]
    lsize, lalign, csize, calign, sareg = [int(x) for x in c[10:15]]
    r = parse_answer(ans)
    if r is None:
        return []
    out = []
    an = ["x86", "x64", "a64"][arch]
    ws = 4 if arch == 0 else 8
    ras = 0 if arch == 2 else ws
    has_fp = bool(attrs & 1)
    fp = 29 if arch == 2 else 5
    spid = 31 if arch == 2 else 4
    if r["P_berr"] or r["E_berr"]:
        # the emitter refused the frame with an error: no code, no claim (counted by the caller)
        return [("refused", "emitter returned error %d/%d" % (r["P_berr"], r["E_berr"]))]
    rng = random.Random((seed * 1000003) ^ zlib.crc32(cmd.encode()))
    m = Machine(arch, ws)
    ngp = 32 if arch == 2 else (8 if arch == 0 else 16)
    nvec = 32 if arch != 0 else 8
    wmask = (1 << (8 * ws)) - 1
    for i in range(ngp):
        m.regs[0][i] = rng.getrandbits(8 * ws)
    for i in range(nvec):
        m.regs[1][i] = rng.getrandbits(128)
    for i in range(8):
        m.regs[2][i] = rng.getrandbits(64)
        m.regs[3][i] = rng.getrandbits(64)
    natural = r["natural"]
    # entry sp: exactly the promised alignment (natural, minus the return address), any residue modulo larger alignments
    sp0 = (0x7FFF0000 if arch == 0 else 0x7FFFFFFF0000) - natural * (entry_slot(cmd, seed) if slot is None else slot) - ras
    m.regs[0][spid] = sp0
    ra = rng.getrandbits(8 * ws - 1) | 1
    if arch == 2:
        m.regs[0][30] = ra
    else:
        m.store(sp0, ws, ra)
    m.written.clear()
    entry = [dict(g) for g in m.regs]
    key = lambda k: "C07/%s/%s" % (an, k)
    desc = lambda s: "%s -> %s" % (cmd, s)
    try:
        for s in r["P"]:
            mn, ops = parse_inst(s)
            m.step(mn, ops)
        spb = m.regs[0][spid]
        above = [a for a in m.written if a >= sp0]
        if above:
            out.append((key("prolog-writes-into-caller-frame"), desc("the prolog stores at entry sp %+d: the return address / the caller's frame (at or above the entry sp) is overwritten" % (min(above) - sp0))))
        # frame conditions of the prolog (C07_frame_conditions_x86 / _a64): no register except sp, the frame pointer and the SA
        # register changes (arguments reach the body); AArch64: memory is written only inside the push/pop save area
        for g in range(4):
            for i in sorted(m.regs[g].keys()):
                if g == 0 and (i == spid or (has_fp and i == fp) or i == r["sa_reg"]):
                    continue
                if m.regs[g][i] != entry[g][i]:
                    out.append((key("prolog-clobbers-register"), desc("the prolog changes register group %d id %d (%#x -> %#x): only sp, the frame pointer and the SA register may change, arguments must reach the body" % (g, i, entry[g][i], m.regs[g][i]))))
                    break
        if arch == 2:
            below = [a for a in m.written if a < sp0 - r["pp_size"]]
            if below:
                out.append((key("prolog-writes-outside-save-area"), desc("the prolog stores at entry sp %+d, below the %d-byte save area" % (min(below) - sp0, r["pp_size"]))))
        else:
            below = [a for a in m.written if a < spb + r["ex_off"]]
            if below:
                out.append((key("prolog-writes-outside-save-area"), desc("the prolog stores at body sp %+d, below the extra-register save area at +%d (call area / local area / below sp)" % (min(below) - spb, r["ex_off"]))))
        # ---- inside the body
        fa = r["final_align"]
        uses_stack = lsize > 0 or csize > 0 or r["ex_size"] > 0 or bool(attrs & 2)
        if uses_stack and spb % fa != 0:
            k = "dynamic-alignment-ignored" if (arch == 2 and fa > 16) else "body-sp-misaligned"
            out.append((key(k), desc("sp inside the body is %#x, not aligned to the promised %d" % (spb, fa))))
        if arch == 2 and spb % 16 != 0:
            out.append((key("body-sp-misaligned"), desc("AArch64 sp inside the body %#x not 16-byte aligned" % spb)))
        # what the frame promises is its final_stack_alignment(): a requested local/call alignment above it is not promised
        lalign = min(lalign, fa) if lalign else lalign
        calign = min(calign, fa) if calign else calign
        if lsize > 0 and lalign > 1 and (spb + r["local_off"]) % lalign != 0:
            k = "dynamic-alignment-ignored" if (arch == 2 and fa > 16) else "local-area-misaligned"
            out.append((key(k), desc("local area at %#x not aligned to %d" % (spb + r["local_off"], lalign))))
        if csize > 0 and calign > 1 and spb % calign != 0:
            k = "dynamic-alignment-ignored" if (arch == 2 and fa > 16) else "call-area-misaligned"
            out.append((key(k), desc("call area at sp %#x not aligned to %d" % (spb, calign))))
        if csize > r["local_off"]:
            out.append((key("areas-overlap"), desc("call area [0,%d) overlaps the local area at %d" % (csize, r["local_off"]))))
        if spb + r["local_off"] + lsize > sp0:
            out.append((key("areas-overlap"), desc("local area ends above the entry sp")))
        if spb > sp0:
            out.append((key("sp-above-entry"), desc("sp inside the body above the entry sp")))
        args_base = sp0 + ras
        if r["sa_from_sp"] != -1 and spb + r["sa_from_sp"] != args_base:
            k = "dynamic-alignment-ignored" if (arch == 2 and fa > 16) else "stack-args-offset-sp"
            out.append((key(k), desc("stack arguments are at sp+%d, the frame reports sp+%d" % (args_base - spb, r["sa_from_sp"]))))
        if r["sa_reg"] != spid:
            got = (m.regs[0][r["sa_reg"]] + r["sa_from_sa"]) & wmask
            if got != args_base:
                if arch == 2:
                    k = "fp-relative-arg-offset" if (has_fp and r["sa_reg"] == fp and m.regs[0][fp] + r["pp_size"] == args_base) else "sa-reg-not-initialised"
                    if cc > 7 and r["srsize"][1] == 16 and m.regs[0][r["sa_reg"]] == spb + r["adj"] and r["sa_from_sa"] == r["pp_size"]:
                        k = "non-cdecl-save-area-size-mismatch"   # register set up, offset = push/pop size, but PrologEpilogInfo used another size
                else:
                    k = "stack-args-offset-sa"
                out.append((key(k), desc("stack arguments are at %#x, [saReg %d + %d] is %#x" % (args_base, r["sa_reg"], r["sa_from_sa"], got))))
        elif has_fp and r["sa_from_sp"] == -1:
            out.append((key("stack-args-unreachable"), desc("dynamic alignment, SA register is sp and no sp offset")))
        if has_fp and r["sa_reg"] == spid:
            # the allocator addresses stack arguments through FP + sa_offset_from_sa when the frame preserves FP (rapass.cpp)
            got = (m.regs[0][fp] + r["sa_from_sa"]) & wmask
            if got != args_base:
                k = "fp-relative-arg-offset" if arch == 2 else "stack-args-offset-fp"
                if arch == 2 and cc > 7 and r["srsize"][1] == 16 and r["sa_from_sa"] == r["pp_size"]:
                    k = "non-cdecl-save-area-size-mismatch"
                out.append((key(k), desc("stack arguments are at %#x, [fp + %d] is %#x" % (args_base, r["sa_from_sa"], got))))
        # ---- the body: poison everything the frame declares as the body's
        body_written = set()
        for a in range(spb, spb + csize) if csize <= 4096 else list(range(spb, spb + 2048)) + list(range(spb + csize - 2048, spb + csize)):
            m.mem[a] = 0xA5; body_written.add(a)
        for a in range(spb + r["local_off"], spb + r["local_off"] + lsize) if lsize <= 4096 else \
                list(range(spb + r["local_off"], spb + r["local_off"] + 2048)) + list(range(spb + r["local_off"] + lsize - 2048, spb + r["local_off"] + lsize)):
            m.mem[a] = 0x5A; body_written.add(a)
        for a in range(spb - 160, spb):
            m.mem[a] = 0xC3
        fp_in_body = m.regs[0][fp]
        for g in range(4):
            for i in list(m.regs[g].keys()):
                if (d_in[g] >> i) & 1:
                    if g == 0 and (i == spid or (has_fp and i == fp)):
                        continue
                    m.regs[g][i] = rng.getrandbits(128 if g == 1 else 8 * ws if g == 0 else 64)
        m.written.clear()
        before_epilog = [dict(g) for g in m.regs]
        for s in r["E"]:
            mn, ops = parse_inst(s)
            m.step(mn, ops)
        # frame conditions of the epilog: no memory write at all; only sp, the frame pointer and the saved registers change
        # (return values leave the function as the body left them)
        if m.written:
            out.append((key("epilog-writes-memory"), desc("the epilog stores at entry sp %+d" % (min(m.written) - sp0))))
        for g in range(4):
            for i in sorted(m.regs[g].keys()):
                if g == 0 and (i == spid or (has_fp and i == fp)):
                    continue
                if ((r["dirty"][g] & r["preserved"][g]) >> i) & 1:
                    continue
                if m.regs[g][i] != before_epilog[g][i]:
                    out.append((key("epilog-clobbers-unsaved-register"), desc("the epilog changes register group %d id %d, which the frame did not save (%#x -> %#x): return values must leave as the body left them" % (g, i, before_epilog[g][i], m.regs[g][i]))))
                    break
        if m.retto is None:
            out.append((key("no-return"), desc("epilog does not return")))
        elif m.retto != ra:
            out.append((key("wrong-return-address"), desc("returns to %#x instead of the caller's return address %#x" % (m.retto, ra))))
        want_sp = sp0 + ras + (r["argstack"] if callee_pops(arch, plat, cc) else 0)
        if m.regs[0][spid] != want_sp:
            out.append((key("wrong-sp-after-return"), desc("sp after return is entry%+d, the convention requires entry%+d" % (m.regs[0][spid] - sp0, want_sp - sp0))))
        pres = list(r["preserved"])
        abi = abi_preserved(arch, plat, cc)
        if abi is not None:
            for g in range(4):
                if abi[g] & ~pres[g]:
                    out.append((key("abi-preserved-missing"), desc("convention's preserved mask %#x of group %d lacks ABI callee-saved registers %#x" % (pres[g], g, abi[g] & ~pres[g]))))
        for g in range(4):
            width = r["srsize"][g] if g != 0 else ws
            msk = (1 << (8 * width)) - 1 if width else 0
            for i in sorted(m.regs[g].keys()):
                if g == 0 and i == spid:
                    continue
                if (pres[g] >> i) & 1 and (m.regs[g][i] & msk) != (entry[g][i] & msk):
                    if arch == 2 and g == 1 and width == 16 and (m.regs[g][i] & M64) == (entry[g][i] & M64):
                        k = "non-cdecl-vec-save-64-of-128"
                    else:
                        k = "callee-saved-not-restored"
                    out.append((key(k), desc("callee-saved register group %d id %d holds %#x after return, entry value %#x" % (g, i, m.regs[g][i] & msk, entry[g][i] & msk))))
                    break
        above = [a for a in m.written if a >= sp0 + ras]
        if above:
            out.append((key("writes-above-entry-sp"), desc("epilog wrote at entry sp %+d" % (min(above) - sp0))))
    except Fault as f:
        k = f.key
        if arch == 2 and cc > 7 and k == "unencodable":
            k = "non-cdecl-unencodable-save-offset"
        if arch == 2 and k == "sp-misaligned-access":
            k = "body-sp-misaligned"
        out.append((key(k), desc(f.what)))
    except (AssertionError, KeyError, ValueError, IndexError) as e:
        out.append((key("unknown-form"), desc("instruction form outside the prolog/epilog repertoire: %r" % (e,))))
    # known-defect families get their own keys (so that any OTHER violation keeps a distinct key)
    out2 = []
    for k, w in out:
        short = k.split("/")[-1]
        if arch == 0 and r["natural"] < r["final_align"] < r["mindyn"] and short in ("body-sp-misaligned", "local-area-misaligned", "call-area-misaligned"):
            k = key("alignment-between-natural-and-min-dynamic")
        if arch == 2 and cc > 7 and short == "stack-args-offset-sp" and r["srsize"][1] == 16:
            k = key("non-cdecl-save-area-size-mismatch")
        out2.append((k, w))
    out = out2
    # de-duplicate keys (first description wins)
    seen, res = set(), []
    for k, w in out:
        if k not in seen:
            seen.add(k); res.append((k, w))
    return res


def judge_args(cmd, ans, seed):
    """frame + argument copies (harness command A): prolog ; emit_args_assignment ; [every argument at its destination] ;
    poisoning body ; epilog ; round trip.  Returns list of (key, description)."""
    parts = ans.split(" | ")
    if len(parts) != 4 or not parts[0].startswith("A 0"):
        return []
    c = cmd.split()
    arch, plat, cc = int(c[1]), int(c[2]), int(c[3])
    attrs = int(c[5])
    r = parse_answer(parts[1])
    if r is None or r["P_berr"] or r["E_berr"]:
        return []
    st = parts[2].split(" ", 3)
    if st[1] != "0":
        return [("refused", "emit_args_assignment returned error %s" % st[1])]
    asg = [] if st[3] == "-" else st[3].split(";")
    xt = parts[3].split()
    n = int(xt[1])
    specs = [tuple(int(x) for x in xt[2 + 4 * i: 6 + 4 * i]) for i in range(n)]
    an = ["x86", "x64", "a64"][arch]
    ws = 4 if arch == 0 else 8
    ras = 0 if arch == 2 else ws
    has_fp = bool(attrs & 1)
    fp = 29 if arch == 2 else 5
    spid = 31 if arch == 2 else 4
    key = lambda k: "C07/%s/args/%s" % (an, k)
    desc = lambda s: "%s -> %s" % (cmd, s)
    rng = random.Random((seed * 7919) ^ zlib.crc32(cmd.encode()))
    m = Machine(arch, ws)
    wmask = (1 << (8 * ws)) - 1
    for i in range(32 if arch == 2 else (8 if arch == 0 else 16)):
        m.regs[0][i] = rng.getrandbits(8 * ws)
    for i in range(32 if arch != 0 else 8):
        m.regs[1][i] = rng.getrandbits(128)
    for i in range(8):
        m.regs[2][i] = rng.getrandbits(64); m.regs[3][i] = rng.getrandbits(64)
    sp0 = (0x7FFF0000 if arch == 0 else 0x7FFFFFFF0000) - r["natural"] * rng.randrange(0, 64) - ras
    m.regs[0][spid] = sp0
    ra = rng.getrandbits(8 * ws - 1) | 1
    if arch == 2:
        m.regs[0][30] = ra
    else:
        m.store(sp0, ws, ra)
    vals = [(0xA0000000 + 0x1111 * (i + 1)) & wmask for i in range(n)]
    for i, (sk, sv, dk, dv) in enumerate(specs):
        if sk == 0:
            m.regs[0][sv] = vals[i]
        else:
            m.store(sp0 + ras + sv, ws, vals[i])
    m.written.clear()
    entry = [dict(g) for g in m.regs]
    out = []
    try:
        for s in r["P"]:
            m.step(*parse_inst(s))
        spb = m.regs[0][spid]
        for s in asg:
            m.step(*parse_inst(s))
        if m.regs[0][spid] != spb:
            out.append((key("copies-change-sp"), desc("the argument copies change sp")))
        for i, (sk, sv, dk, dv) in enumerate(specs):
            got = m.regs[0][dv] & wmask if dk == 0 else m.load(spb + dv, ws)
            if got != vals[i]:
                out.append((key("argument-not-at-destination"), desc("argument %d (value %#x, passed in %s) is not at its destination %s after prolog + argument copies (found %#x)"
                                                                   % (i, vals[i], ("reg %d" % sv) if sk == 0 else ("stack+%d" % sv), ("reg %d" % dv) if dk == 0 else ("[sp+%d]" % dv), got))))
                break
            if dk == 1 and not (r["local_off"] <= dv and dv + ws <= r["local_off"] + max(int(c[10]), 8 * n + 8)):
                out.append((key("destination-outside-local-area"), desc("destination slot [sp+%d] outside the local area" % dv)))
        above = [a for a in m.written if a >= sp0]
        if above:
            out.append((key("writes-into-caller-frame"), desc("prolog/argument copies store at entry sp %+d" % (min(above) - sp0))))
        lsize = max(int(c[10]), 8 * n + 8)
        for a in range(spb, spb + int(c[12])):
            m.mem[a] = 0xA5
        for a in range(spb + r["local_off"], spb + r["local_off"] + min(lsize, 4096)):
            m.mem[a] = 0x5A
        for a in range(spb - 160, spb):
            m.mem[a] = 0xC3
        for g in range(4):
            for i in list(m.regs[g].keys()):
                if (r["dirty"][g] >> i) & 1 and not (g == 0 and (i == spid or (has_fp and i == fp))):
                    m.regs[g][i] = rng.getrandbits(128 if g == 1 else 8 * ws if g == 0 else 64)
        for s in r["E"]:
            m.step(*parse_inst(s))
        if m.retto != ra:
            out.append((key("wrong-return-address"), desc("returns to %s instead of %#x" % (m.retto, ra))))
        want_sp = sp0 + ras + (r["argstack"] if callee_pops(arch, plat, cc) else 0)
        if m.regs[0][spid] != want_sp:
            out.append((key("wrong-sp-after-return"), desc("sp after return is entry%+d, required entry%+d" % (m.regs[0][spid] - sp0, want_sp - sp0))))
        for g in range(4):
            width = r["srsize"][g] if g != 0 else ws
            msk = (1 << (8 * width)) - 1 if width else 0
            for i in sorted(m.regs[g].keys()):
                if g == 0 and i == spid:
                    continue
                if (r["preserved"][g] >> i) & 1 and (m.regs[g][i] & msk) != (entry[g][i] & msk):
                    k = "callee-saved-not-restored"
                    if g == 0 and any(sk == 0 and sv == i for (sk, sv, dk, dv) in specs):
                        k = "preserved-argument-register-clobbered"     # conventions whose ARGUMENT registers are callee-saved too (LightCall; a64 non-cdecl)
                    out.append((key(k), desc("callee-saved register group %d id %d not restored (a register the argument copies use is not in the frame's dirty set)" % (g, i))))
                    break
    except Fault as f:
        out.append((key(f.key), desc(f.what)))
    except (AssertionError, KeyError, ValueError, IndexError) as e:
        out.append((key("unknown-form"), desc("instruction form outside the repertoire: %r" % (e,))))
    seen, res = set(), []
    for k, w in out:
        if k not in seen:
            seen.add(k); res.append((k, w))
    return res

"""C08 generator + independent list oracle.

Generates emitter-call programs (text protocol of harness/c08_harness.cpp) from the harness' own catalogue of valid instruction forms and
computes, with a plain python list (no AsmJit, no Coq), the sequence of direct Assembler calls the property says the Builder's final
node list must be equivalent to ("the code of the edited sequence").
"""
import random

D_LOCK, D_REP, D_K, D_Z, D_SHORTLONG, D_MODMR, D_VEX3, D_EVEX, D_ER, D_TAKEN, D_SAE, D_LABELREF = (1 << i for i in range(12))


class Catalog:
    def __init__(self, text):
        self.err, self.opt, self.forms, self.xr, self.types, self.align, self.node, self.maxops = {}, {}, {0: [], 1: [], 2: []}, {}, {}, {}, {}, None
        for line in text.splitlines():
            t = line.split()
            if not t:
                continue
            if t[0] == "ERR":
                self.err[t[1]] = int(t[2])
            elif t[0] == "OPT":
                self.opt[t[1]] = int(t[2])
            elif t[0] == "ALIGN":
                self.align[t[1]] = int(t[2])
            elif t[0] == "NODE":
                self.node = {t[i]: int(t[i + 1]) for i in range(1, len(t), 2)}
            elif t[0] == "MAXOPS":
                self.maxops = tuple(map(int, t[1:4]))
            elif t[0] == "TYPES":
                self.types[int(t[1])] = list(map(int, t[2:]))
            elif t[0] == "XR":
                self.xr.setdefault((int(t[1]), t[2]), []).append((int(t[3]), int(t[4])))
            elif t[0] == "F":
                arch, name, iid, deco, immbits, n = int(t[1]), t[2], int(t[3]), int(t[4]), int(t[5]), int(t[6])
                ops = []
                for i in range(n):
                    k = t[7 + 5 * i]
                    ops.append((k, [int(x) for x in t[8 + 5 * i: 12 + 5 * i]]))
                self.forms[arch].append({"name": name, "id": iid, "deco": deco, "immbits": immbits, "ops": ops})
            elif t[0].startswith("CATALOG-MISMATCH"):
                raise RuntimeError("harness catalogue inconsistent: " + line)


def hexs(b):
    return b.hex() if b else "="


# ------------------------------------------------------------------------------------------------ list oracle
class ListOracle:
    """The property's reading of the Builder: a plain list of recorded calls with an insertion point.
    node = dict(kind, origin, ref=[assembler command lines], sec=section id for section nodes, label=id for label nodes)"""

    def __init__(self):
        self.sec_nodes = {0: {"kind": "S", "origin": -1, "ref": ["S 0"], "sec": 0}}
        self.label_nodes = {}
        self.act = [self.sec_nodes[0]]
        self.cur = 0            # index of the cursor node or -1
        self.pool = []
        self.pend = {"opts": 0, "extra": None, "comment": None}

    # -- emitter calls
    def insert(self, node):
        self.act.insert(self.cur + 1, node)
        self.cur += 1
        self._prune()

    def _prune(self):
        self.pool = [n for n in self.pool if not any(n is m for m in self.act)]

    def section(self, sid, origin):
        n = self.sec_nodes.get(sid)
        if n is None:
            n = self.sec_nodes[sid] = {"kind": "S", "origin": origin, "ref": ["S %d" % sid], "sec": sid}
        idx = self.index(n)
        if idx is None:
            self.act.append(n)
            self.cur = len(self.act) - 1
            self._prune()
        else:
            nxt = None
            for j in range(idx + 1, len(self.act)):
                if self.act[j]["kind"] == "S":
                    nxt = j
                    break
            self.cur = (nxt - 1) if nxt is not None else len(self.act) - 1

    def index(self, n):
        for i, m in enumerate(self.act):
            if m is n:
                return i
        return None

    def label_node(self, l, origin):
        n = self.label_nodes.get(l)
        if n is None:
            n = self.label_nodes[l] = {"kind": "L", "origin": origin, "ref": ["B %d" % l], "label": l}
        return n

    # -- edits
    def set_cursor(self, idx):
        self.cur = idx

    def remove(self, i):
        n = self.act.pop(i)
        if self.cur == i:
            self.cur = i - 1
        elif self.cur > i:
            self.cur -= 1
        self.pool.append(n)

    def remove_range(self, i, j):
        ns = self.act[i:j + 1]
        del self.act[i:j + 1]
        if i <= self.cur <= j:
            self.cur = i - 1
        elif self.cur > j:
            self.cur -= (j - i + 1)
        self.pool += ns

    def add_after(self, k, idx):
        n = self.pool.pop(k)
        self.act.insert(idx + 1, n)
        if self.cur > idx:
            self.cur += 1

    def add_before(self, k, idx):
        n = self.pool.pop(k)
        self.act.insert(idx, n)
        if self.cur >= idx:
            self.cur += 1

    def add_node(self, k):
        n = self.pool.pop(k)
        self.act.insert(self.cur + 1, n)
        self.cur += 1

    def reference(self):
        out = []
        for n in self.act:
            for r in n["ref"]:
                out.append("@%d %s" % (n["origin"] if n["origin"] >= 0 else 0, r))
        return out


def shape_714(ref_lines, ops_label_refs):
    """True if the direct sequence contains an INSTRUCTION reference to a label that is already bound in a different section
    (DESIGN 7.14: corrupts the label entry in the pinned tree, for the Assembler itself) -- such programs are not generated."""
    cur = 0
    bound = {}
    for line in ref_lines:
        t = line.split()
        if t[0].startswith("@"):
            t = t[1:]
        if t[0] == "S":
            cur = int(t[1])
        elif t[0] == "B":
            bound.setdefault(int(t[1]), cur)
        elif t[0] == "CP":
            bound.setdefault(int(t[1]), cur)
        elif t[0] == "CPN":
            pass
        elif t[0] == "I":
            for l in ops_label_refs(t):
                if l in bound and bound[l] != cur:
                    return True
    return False


def inst_label_refs(t):
    """label ids referenced by the operands of an 'I' command token list (label operand: op type 5; memory with label base)."""
    n = int(t[2])
    out = []
    for i in range(n):
        sig, oid = int(t[3 + 4 * i]), int(t[4 + 4 * i])
        if (sig & 7) == 5:
            out.append(oid)
        elif (sig & 7) == 2 and ((sig >> 3) & 31) == 1:   # memory operand whose base "register type" is the label tag
            out.append(oid)
    return out


def reference_of(lines, cat):
    """Recompute, from the builder command lines alone, the direct sequence ("the edited sequence") with the plain list oracle.
    Returns (reference lines, ok): ok is False when an edit command addresses a node that does not exist (an invalid program).
    Used by the shrinker and as a cross-check of the generator's incremental bookkeeping."""
    lo = ListOracle()
    nlabels = 0
    ok = True
    for idx, line in enumerate(lines):
        t = line.split()
        k = t[0]
        n = len(lo.act)
        if k == "NL":
            nlabels += 1
        elif k == "NS":
            pass
        elif k == "SO":
            lo.pend["opts"] = int(t[1])
        elif k == "AO":
            lo.pend["opts"] |= int(t[1])
        elif k == "SX":
            lo.pend["extra"] = (int(t[1]), int(t[2]))
        elif k == "SC":
            lo.pend["comment"] = None if t[1] == "-" else (b"" if t[1] == "=" else bytes.fromhex(t[1]))
        elif k == "I":
            po = lo.pend
            ref = []
            if po["opts"]:
                ref.append("SO %d" % po["opts"])
            if po["extra"] is not None:
                ref.append("SX %d %d" % po["extra"])
            if po["comment"] is not None:
                ref.append("SC %s" % hexs(po["comment"]))
            ref.append(line)
            lo.pend = {"opts": 0, "extra": None, "comment": None}
            lo.insert({"kind": "I", "origin": idx, "ref": ref})
        elif k == "B":
            l = int(t[1])
            if l >= nlabels:
                lo.insert({"kind": "bind_invalid", "origin": idx, "ref": [line]})
            else:
                nd = lo.label_node(l, idx)
                if lo.index(nd) is None:
                    nd["origin"] = idx
                    lo.insert(nd)
        elif k == "CP":
            l, item, data = int(t[1]), int(t[2]), t[4]
            if l >= nlabels:
                lo.insert({"kind": "CPbad", "origin": idx, "ref": [line]})
            else:
                nd = lo.label_node(l, idx)
                if lo.index(nd) is not None:
                    lo.insert({"kind": "A", "origin": -1, "ref": ["A %d %d" % (cat.align["data"], item)], "partial": True})
                else:
                    lo.insert({"kind": "A", "origin": idx, "ref": ["A %d %d" % (cat.align["data"], item)]})
                    nd["origin"] = idx
                    lo.insert(nd)
                    lo.insert({"kind": "D", "origin": idx, "ref": ["E %s" % data]})
        elif k == "CPN":
            l = nlabels
            nlabels += 1
            nd = {"kind": "CPN", "origin": idx, "ref": ["CP %d %s %s %s" % (l, t[1], t[2], t[3])], "label": l}
            lo.label_nodes[l] = nd
            lo.insert(nd)
        elif k in ("A", "E", "EA", "EL", "ED", "CM"):
            lo.insert({"kind": k, "origin": idx, "ref": [line]})
        elif k == "SN":
            lo.insert({"kind": "SN", "origin": idx, "ref": []})          # a sentinel node stands for no call at all
        elif k == "S":
            lo.section(int(t[1]), idx)
        elif k == "SCUR":
            i = int(t[1])
            if i >= n:
                ok = False
            else:
                lo.set_cursor(i)
        elif k == "RM":
            i = int(t[1])
            if i >= n or n <= 1:
                ok = False
            else:
                lo.remove(i)
        elif k == "RMR":
            i, j = int(t[1]), int(t[2])
            if not (i <= j < n) or j - i + 1 >= n:
                ok = False
            else:
                lo.remove_range(i, j)
        elif k == "RMP":
            if int(t[1]) >= len(lo.pool):
                ok = False
        elif k in ("AA", "AB"):
            kk, i = int(t[1]), int(t[2])
            if kk >= len(lo.pool) or i >= n:
                ok = False
            elif k == "AA":
                lo.add_after(kk, i)
            else:
                lo.add_before(kk, i)
        elif k == "AN":
            if int(t[1]) >= len(lo.pool):
                ok = False
            else:
                lo.add_node(int(t[1]))
        elif k == "USL":
            pass
        if not ok:
            break
    return lo.reference(), ok


def program_text(pidx, arch, base1, base2, flags, lines, ref):
    return "\n".join(["P %d %d %d %d %d" % (pidx, arch, base1, base2, flags)] + lines + ["X"] + ref + ["END"]) + "\n"


# ------------------------------------------------------------------------------------------------ program generator
class ProgGen:
    def __init__(self, rng, cat, arch, kind, pidx, size=None, allow_xsec=False):
        self.rng, self.cat, self.arch, self.kind, self.pidx = rng, cat, arch, kind, pidx
        self.allow_xsec = allow_xsec
        self.regsize = 4 if arch == 0 else 8
        self.lines = []          # builder program
        self.lo = ListOracle()
        self.nlabels = 0
        self.nsections = 1
        self.cur_sec = 0
        self.home = {}           # label -> home section
        self.bound = set()
        self.xlabel = set()      # labels referenced from section-0 instructions and bound at the very end in another section
        self.stats = {}
        self.size = size or rng.randrange(6, 40)
        self.double_bound = False
        self.double_bind_at = None

    def count(self, k):
        self.stats[k] = self.stats.get(k, 0) + 1

    def emit(self, line):
        self.lines.append(line)
        return len(self.lines) - 1

    # ---- pieces
    def new_label(self, home=None):
        self.emit("NL")
        l = self.nlabels
        self.nlabels += 1
        self.home[l] = self.rng.randrange(self.nsections) if home is None else home
        if self.home[l] != 0 and self.rng.random() < 0.5:
            self.xlabel.add(l)
        return l

    def rnd_comment(self):
        r = self.rng
        n = r.choice([0, 1, 3, 8, 20, 40, 90])
        return bytes(r.choice(b"abcdefghijklmnopqrstuvwxyz ;|=-0123456789") for _ in range(n))

    def pick_label_for_inst(self):
        if self.allow_xsec and self.nlabels and self.rng.random() < 0.3:
            self.count("inst_label_ref_any_section")
            return self.rng.randrange(self.nlabels)     # cross-section references, bound before or after (needs the DESIGN 7.14 repair)
        c = [l for l in range(self.nlabels) if (self.home[l] == self.cur_sec and l not in self.xlabel) or (self.cur_sec == 0 and l in self.xlabel and l not in self.bound)]
        return self.rng.choice(c) if c else None

    def gen_inst(self, malformed=False):
        r, cat = self.rng, self.cat
        forms = cat.forms[self.arch]
        f = r.choice(forms)
        lab = self.pick_label_for_inst() if f["deco"] & D_LABELREF else None
        if f["deco"] & D_LABELREF and lab is None:
            f = forms[0]
        ops = []
        for (k, w) in f["ops"]:
            w = list(w)
            if k in ("l", "ml"):
                w[1] = lab
            elif k == "i" and f["immbits"]:
                bits = f["immbits"]
                if self.arch == 2:
                    v = r.randrange(0, 1 << bits)
                elif bits >= 8:
                    v = r.getrandbits(bits - 1) - (r.getrandbits(bits - 1) if r.random() < 0.3 else 0)
                    if bits == 8:
                        v = r.randrange(0, 128)
                else:
                    v = r.randrange(0, 1 << bits)
                v &= (1 << 64) - 1
                w[2], w[3] = v & 0xFFFFFFFF, v >> 32
            ops.append(w)
        opts = 0
        extra = None
        O = cat.opt
        d = f["deco"]
        if d & D_LOCK and r.random() < 0.5:
            opts |= O["Lock"]
        if d & D_REP and r.random() < 0.7:
            opts |= r.choice([O["Rep"], O["Repne"]])
            if r.random() < 0.5:
                extra = cat.xr[(self.arch, "rep")][0]
        if d & D_K and r.random() < 0.6:
            extra = r.choice(cat.xr[(self.arch, "k")])
            if d & D_Z and r.random() < 0.5:
                opts |= O["ZMask"]
        if d & D_SHORTLONG and r.random() < 0.5:
            opts |= O["LongForm"] if r.random() < 0.8 else O["ShortForm"]
        if d & D_TAKEN and r.random() < 0.3:
            opts |= r.choice([O["Taken"], O["NotTaken"]])
        if d & D_MODMR and r.random() < 0.5:
            opts |= O["ModMR"]
        if d & D_EVEX and r.random() < 0.3:
            opts |= O["Evex"]
        elif d & D_VEX3 and r.random() < 0.3:
            opts |= O["Vex3"]
        if d & D_ER and r.random() < 0.4:
            opts |= O["ER"] | r.choice([0, O["RD_SAE"], O["RU_SAE"], O["RZ_SAE"]])
        if d & D_SAE and r.random() < 0.4:
            opts |= O["SAE"]
        if r.random() < 0.1:
            opts |= O["Reserved"]
        if r.random() < 0.05:
            opts |= r.choice([O["Unfollow"], O["Overwrite"]])
        comment = self.rnd_comment() if r.random() < 0.3 else None
        iid = f["id"]
        if malformed:
            # case 8 (x86 programs that run under strict validation only: both emitters validate before they encode): one operand field
            # rewritten - the case split of X86Dec.dec_x86 (register id, memory segment / broadcast / size / index / reg-home, immediate ranges)
            m = r.randrange(9 if (getattr(self, "validated", False) and self.arch != 2) else 8)
            self.count("malformed_inst_%d" % m)
            if m == 0:      # hole in the operand list
                if len(ops) >= 5 and r.random() < 0.6:
                    ops[len(ops) - 2] = [0, 0, 0, 0]          # the prefix stays a form of its own (AArch64 register lists): wrong bytes, not an error
                elif len(ops) >= 2:
                    ops[r.randrange(len(ops) - 1)] = [0, 0, 0, 0]
            elif m == 1:    # operand beyond a hole in the extended part
                if len(ops) <= 3:
                    # mostly a copy of the form's last operand: for register-list forms (AArch64 tbl) every prefix is a form of its own
                    x = list(ops[-1]) if len(ops) == 3 and r.random() < 0.7 else list(forms[2]["ops"][0][1])
                    while len(ops) < 3:
                        ops.append([0, 0, 0, 0])
                    # the empty slot at index 3 (operand in slot 4) or at index 4 (operands in slots 3 and 5)
                    ops += [[0, 0, 0, 0], x] if r.random() < 0.5 else [list(x), [0, 0, 0, 0], list(x)]
            elif m == 2:    # random option bits
                opts = r.getrandbits(32)
            elif m == 3:    # operands of another form
                g = r.choice([x for x in forms if not (x["deco"] & D_LABELREF)])
                ops = [list(w) for (_k, w) in g["ops"]]
            elif m == 4:    # extra register where none belongs / arbitrary id
                extra = (r.choice(cat.xr[(self.arch, "k")])[0], r.randrange(0, 32)) if self.arch != 2 else (r.getrandbits(32), r.randrange(64))
            elif m == 5:    # shuffled operands
                r.shuffle(ops)
            elif m == 6:    # more operands than the form has
                g = r.choice(forms)
                ops = (ops + [list(w) for (k, w) in g["ops"] if k not in ("l", "ml")])[:6]
            elif m == 8 and ops:
                w = ops[r.randrange(len(ops))]
                ty = w[0] & 7
                if ty == 1:
                    w[1] = r.choice([r.randrange(48), r.randrange(48), 255])
                elif ty == 2:
                    f = r.randrange(6)
                    if f == 0:
                        w[0] = (w[0] & ~(7 << 18)) | (r.randrange(8) << 18)
                    elif f == 1:
                        w[0] = (w[0] & ~(7 << 21)) | (r.randrange(8) << 21)
                    elif f == 2:
                        w[0] = (w[0] & 0x00FFFFFF) | (r.choice([0, 1, 2, 3, 4, 5, 6, 8, 10, 16, 32, 64, 128]) << 24)
                    elif f == 3:
                        w[0] = (w[0] & ~(31 << 8)) | (r.choice([0, 5, 6, 11, 12, 13, 4, 16]) << 8)
                        w[2] = r.randrange(40)
                    elif f == 4 and ((w[0] >> 3) & 31) > 1:
                        w[1] = r.randrange(40)
                    else:
                        w[3] = r.choice([0, 1, 0x7FFFFFFF, 0x80000000, 0xFFFFFFFF, r.getrandbits(32)])
                        if ((w[0] >> 3) & 31) == 0:
                            w[1] = r.choice([0, 0, 1, 0x7FFFFFFF, 0x80000000, 0xFFFFFFFF])     # high half of an absolute 64-bit address
                elif ty == 4:
                    v = r.choice([7, 8, 15, 16, 127, 128, 255, 256, 32767, 32768, 65535, 65536, 2 ** 31 - 1, 2 ** 31, 2 ** 32 - 1, 2 ** 32, 2 ** 63 - 1,
                                  -8, -9, -128, -129, -32768, -32769, -2 ** 31, -2 ** 31 - 1, -2 ** 63, r.getrandbits(64)]) & (2 ** 64 - 1)
                    w[2], w[3] = v & 0xFFFFFFFF, v >> 32
            elif m == 7:    # invalid label id in a label operand (never in a memory operand: DESIGN 7.3 crashes the 32-bit path)
                ops = [[5, 900 + r.randrange(50), 0, 0]]
                iid = [x for x in forms if x["deco"] & D_LABELREF and x["ops"][0][0] == "l"][0]["id"]
        # one-shot state then the call (the oracle's pending state follows every setter line)
        po = self.lo.pend
        if opts:
            if r.random() < 0.3:
                a = opts & r.getrandbits(32)
                self.emit("SO %d" % a)
                self.emit("AO %d" % (opts & ~a))
            else:
                self.emit("SO %d" % opts)
            po["opts"] = opts
        if extra is not None:
            self.emit("SX %d %d" % extra)
            po["extra"] = extra
        if comment is not None:
            self.emit("SC %s" % hexs(comment))
            po["comment"] = comment
        line = ("I %d %d %s" % (iid, len(ops), " ".join(" ".join(str(x) for x in w) for w in ops))).strip()
        idx = self.emit(line)
        ref = []
        if po["opts"]:
            ref.append("SO %d" % po["opts"])
        if po["extra"] is not None:
            ref.append("SX %d %d" % po["extra"])
        if po["comment"] is not None:
            ref.append("SC %s" % hexs(po["comment"]))
        ref.append(line)
        self.lo.pend = {"opts": 0, "extra": None, "comment": None}
        self.lo.insert({"kind": "I", "origin": idx, "ref": ref})
        self.count("inst")
        self.count("inst_ops_%d" % len(ops))
        if opts:
            self.count("inst_with_options")
        if extra is not None:
            self.count("inst_with_extra_reg")
        if comment is not None:
            self.count("inst_with_comment")

    def simple(self, line, kind):
        idx = self.emit(line)
        self.lo.insert({"kind": kind, "origin": idx, "ref": [line]})
        self.count(kind)

    def gen_bind(self, l):
        idx = self.emit("B %d" % l)
        n = self.lo.label_node(l, idx)
        if self.lo.index(n) is not None:
            self.double_bound = True
            if self.double_bind_at is None:
                self.double_bind_at = idx
            return
        n["origin"] = idx
        self.lo.insert(n)
        self.bound.add(l)
        self.count("bind")

    def gen_data(self):
        r = self.rng
        n = r.randrange(1, 24)
        if self.arch == 2:
            n = (n + 3) & ~3
        self.simple("E %s" % hexs(bytes(r.getrandbits(8) for _ in range(n))), "embed")

    def gen_typed(self, malformed=False):
        r = self.rng
        ty = r.choice([32, 33, 34, 35, 36, 37, 38, 39, 40, 41, 42, 43, 45, 46, 47, 48, 49, 50, 52, 62, 72])
        if malformed:
            ty = r.choice([0, 1, 31, 101, 200, 255])
        sz = self.cat.types[self.regsize][ty]
        sz = sz if sz > 0 else 1
        if self.arch == 2 and sz < 4:
            cnt = 4 * r.randrange(0, 3)
        else:
            cnt = r.choice([0, 1, 1, 2, 3, 4])
        rep = r.choice([0, 1, 1, 1, 2, 3])
        self.simple("EA %d %d %d %s" % (ty, cnt, rep, hexs(bytes(r.getrandbits(8) for _ in range(cnt * sz)))), "embed_typed")

    def gen_constpool(self, l):
        r = self.rng
        item = r.choice([4, 8, 16])
        k = r.randrange(1, 5)
        if r.random() < 0.12:
            k, item = 0, 0          # an EMPTY pool: legal (size 0, alignment 0); the label is aligned-to and bound all the same
        items = []
        while len(items) < k:
            b = bytes(r.getrandbits(8) for _ in range(item))
            if b not in items:
                items.append(b)
        data = b"".join(items)
        line = "CP %d %d %d %s" % (l, item, item, hexs(data))
        idx = self.emit(line)
        if l < self.nlabels:
            n = self.lo.label_node(l, idx)
            if self.lo.index(n) is not None:
                self.double_bound = True
                if self.double_bind_at is None:
                    self.double_bind_at = idx
                # the Assembler (and a Builder with the double-bind fix) aligns before its bind fails
                self.lo.insert({"kind": "A", "origin": -1, "ref": ["A %d %d" % (self.cat.align["data"], item)], "partial": True})
                return
            self.lo.insert({"kind": "A", "origin": idx, "ref": ["A %d %d" % (self.cat.align["data"], item)]})
            n["origin"] = idx
            self.lo.insert(n)
            self.lo.insert({"kind": "D", "origin": idx, "ref": ["E %s" % hexs(data)]})
            self.bound.add(l)
        else:
            self.lo.insert({"kind": "CPbad", "origin": idx, "ref": [line]})
        self.count("constpool")

    def gen_constpool_node(self):
        """a ConstPoolNode (what the Compiler creates for its constants): registers its own label, serialized by embed_const_pool"""
        r = self.rng
        item = r.choice([4, 8, 16])
        items = []
        while len(items) < r.randrange(1, 4):
            b = bytes(r.getrandbits(8) for _ in range(item))
            if b not in items:
                items.append(b)
        data = b"".join(items)
        idx = self.emit("CPN %d %d %s" % (item, item, hexs(data)))
        l = self.nlabels
        self.nlabels += 1
        self.home[l] = self.cur_sec
        self.bound.add(l)
        n = {"kind": "CPN", "origin": idx, "ref": ["CP %d %d %d %s" % (l, item, item, hexs(data))], "label": l}
        self.lo.label_nodes[l] = n
        self.lo.insert(n)
        self.count("constpool_node")

    def gen_section(self, sid=None):
        sid = self.rng.randrange(self.nsections) if sid is None else sid
        idx = self.emit("S %d" % sid)
        self.lo.section(sid, idx)
        self.cur_sec = sid
        self.count("section_switch")

    # ---- whole program
    def unbound_here(self):
        return [l for l in range(self.nlabels) if l not in self.bound and self.home[l] == self.cur_sec and l not in self.xlabel]

    def step(self):
        r = self.rng
        x = r.random()
        mal = self.kind == "malformed" and r.random() < 0.15
        if x < 0.55:
            self.gen_inst(malformed=mal)
        elif x < 0.67:
            c = self.unbound_here()
            if mal:
                m = r.randrange(3)
                if m == 0:
                    self.simple("B %d" % (900 + r.randrange(9)), "bind_invalid")
                elif m == 1 and self.bound and self.kind == "malformed" and r.random() < 0.3:
                    self.gen_bind(r.choice(sorted(self.bound)))
                elif c:
                    self.gen_bind(r.choice(c))
            elif c:
                self.gen_bind(r.choice(c))
        elif x < 0.72:
            n = r.choice([1, 2, 4, 8, 16, 32, 64])
            if mal:
                n = r.choice([3, 5, 128, 100, 65])
            mode = r.choice([0, 0, 1, 2])
            if self.arch == 2 and n < 4 and not mal:
                n = 4
            self.simple("A %d %d" % (mode, n), "align")
        elif x < 0.77:
            self.gen_data()
        elif x < 0.82:
            self.gen_typed(malformed=mal)
        elif x < 0.86 and self.nlabels:
            l = r.randrange(self.nlabels)
            sz = r.choice([0, 0, 8, 8] if self.regsize == 8 else [0, 0, 4])   # a 4-byte absolute address cannot hold a 64-bit base
            if mal:
                l, sz = r.choice([(l, 3), (l, 16), (l, 5), (950, 4), (l, 7)])
            self.simple("EL %d %d" % (l, sz), "embed_label")
        elif x < 0.90 and self.nlabels:
            l, b = r.randrange(self.nlabels), r.randrange(self.nlabels)
            # 1 and 2 bytes: the range check of the immediate path / of the expression relocation (a delta that does not fit is refused at the
            # call when both labels are bound in one section, at relocate_to_base otherwise)
            sz = r.choice([0, 4, 8, 1, 2, 1])
            if mal:
                l, b, sz = r.choice([(l, b, 3), (l, b, 16), (950, b, 4), (l, 951, 0)])
            self.simple("ED %d %d %d" % (l, b, sz), "embed_label_delta")
        elif x < 0.93:
            c = self.unbound_here()
            if mal and r.random() < 0.5:
                self.gen_constpool(940 + r.randrange(5))
            elif c:
                self.gen_constpool(r.choice(c))
        elif x < 0.94:
            self.simple("CM %s" % hexs(self.rnd_comment()), "comment")
        elif x < 0.946:
            self.gen_constpool_node()
        elif x < 0.95:
            idx = self.emit("SN %d" % r.choice([0, 1]))
            self.lo.insert({"kind": "SN", "origin": idx, "ref": []})
            self.count("sentinel_node")
        elif x < 0.99:
            if self.nsections > 1:
                self.gen_section()
        else:
            self.new_label()

    def edit_step(self):
        r, lo = self.rng, self.lo
        n = len(lo.act)
        x = r.random()
        if x < 0.25:
            idx = r.randrange(-1, n) if r.random() < 0.9 else -1
            self.emit("SCUR %d" % idx)
            lo.set_cursor(idx)
            self.count("edit_set_cursor")
            if idx >= 0:
                self._resync_section()
        elif x < 0.45 and n > 2:
            i = r.randrange(n)
            secs = [k for k, m in enumerate(lo.act) if m["kind"] == "S"]
            if secs and r.random() < 0.3:
                i = r.choice(secs)          # aim at the section-link cache: remove a section node ...
            touched = lo.act[i]["kind"] == "S"
            self.emit("RM %d" % i)
            lo.remove(i)
            self.count("edit_remove")
            if touched:
                self.count("edit_remove_section_node")
                self._resync_section()
                if self.nsections > 1 and r.random() < 0.8:   # ... then switch sections and record something there
                    self.gen_section()
                    self.gen_inst()
        elif x < 0.50 and n > 3 and len([m for m in lo.act[1:] if m["kind"] == "S"]) >= 1 and r.random() < 0.5:
            # aimed at the link cache: with CLEAN links remove a range that ENDS with a section node, then switch to the section in front of it
            secs = [k for k, m in enumerate(lo.act) if m["kind"] == "S" and k >= 1]
            j = r.choice(secs)
            i = max(0, j - r.randrange(1, 4))
            before = [m["sec"] for m in lo.act[:i] if m["kind"] == "S"]
            if i < j and j - i + 1 < n and before:
                self.emit("USL")
                self.emit("RMR %d %d" % (i, j))
                lo.remove_range(i, j)
                self.count("edit_remove_range_ending_with_section")
                self._resync_section()
                self.gen_section(before[-1])
                self.gen_inst()
        elif x < 0.55 and n > 3:
            i = r.randrange(n - 1)
            j = min(n - 1, i + r.randrange(0, 4))
            if j - i + 1 >= n:
                j = n - 2 if i == 0 else j
                if j < i:
                    return
            if j - i + 1 >= n:
                return
            self.emit("RMR %d %d" % (i, j))
            lo.remove_range(i, j)
            self.count("edit_remove_range")
        elif x < 0.60 and lo.pool:
            self.emit("RMP %d" % r.randrange(len(lo.pool)))
            self.count("edit_remove_inactive")
        elif x < 0.75 and lo.pool:
            k = r.randrange(len(lo.pool))
            idx = r.randrange(n)
            self.emit("AA %d %d" % (k, idx))
            lo.add_after(k, idx)
            self.count("edit_add_after")
        elif x < 0.88 and lo.pool:
            k = r.randrange(len(lo.pool))
            idx = r.randrange(n)
            touched = lo.pool[k]["kind"] == "S"
            self.emit("AB %d %d" % (k, idx))
            lo.add_before(k, idx)
            self.count("edit_add_before")
            if touched:
                self.count("edit_readd_section_node")
                self._resync_section()
                if self.nsections > 1 and r.random() < 0.8:
                    self.gen_section()
                    self.gen_inst()
        elif x < 0.96 and lo.pool:
            k = r.randrange(len(lo.pool))
            self.emit("AN %d" % k)
            lo.add_node(k)
            self.count("edit_add_node")
        else:
            self.emit("USL")
            self.count("edit_update_links")
        self._resync_section()

    def _resync_section(self):
        """after an edit the 'current section' of later generated calls is whatever section node precedes the cursor"""
        cur = 0
        for i, n in enumerate(self.lo.act):
            if i > self.lo.cur:
                break
            if n["kind"] == "S":
                cur = n["sec"]
        self.cur_sec = cur

    def generate(self):
        r = self.rng
        nsec = r.choice([0, 0, 1, 2, 3]) if self.kind != "single" else 0
        for i in range(nsec):
            self.emit("NS .s%d %d" % (i + 1, r.choice([1, 4, 8, 16, 64])))
            self.nsections += 1
        for _ in range(r.randrange(2, 8)):
            self.new_label()
        for _ in range(self.size):
            self.step()
            if self.kind == "edit" and r.random() < 0.25:
                for _ in range(r.randrange(1, 4)):
                    self.edit_step()
        # bind what is left, in the home sections (x-labels: now)
        if self.kind == "edit":
            self.emit("SCUR %d" % (len(self.lo.act) - 1))
            self.lo.set_cursor(len(self.lo.act) - 1)
            self._resync_section()
        active_labels = {n.get("label") for n in self.lo.act if n["kind"] == "L"}
        for l in range(self.nlabels):
            if l in self.bound or l in active_labels or r.random() < 0.08:
                continue
            n = self.lo.label_nodes.get(l)
            if n is not None and self.lo.index(n) is not None:
                continue
            if self.home[l] != self.cur_sec:
                if self.home[l] >= self.nsections:
                    continue
                self.gen_section(self.home[l])
            if self.kind == "edit":
                self._resync_section()
                if self.cur_sec != self.home[l]:
                    continue
            self.gen_bind(l)
        ref = self.lo.reference()
        return ref

    def generate_func(self):
        """Compiler-only program: functions (add_func / ret / end_func) whose bodies use physical registers only and no label references
        (the register allocator removes code it proves unreachable, which a plain Assembler would keep)."""
        r = self.rng

        def body_step():
            x = r.random()
            if x < 0.7:
                # no label references and no real return / indirect branch: the register allocator ends the block there and drops what follows
                forms = [f for f in self.cat.forms[self.arch] if not (f["deco"] & D_LABELREF) and f["name"] not in ("ret", "br", "jmp_r")]
                saved = self.cat.forms[self.arch]
                self.cat.forms[self.arch] = forms
                try:
                    self.gen_inst()
                finally:
                    self.cat.forms[self.arch] = saved
            elif x < 0.78:
                self.gen_data()
            elif x < 0.84:
                self.simple("A %d %d" % (r.choice([0, 1, 2]), r.choice([4, 8, 16])), "align")
            elif x < 0.90:
                self.simple("CM %s" % hexs(self.rnd_comment() or b"x"), "comment")
            elif x < 0.95 and self.nlabels:
                self.simple("EL %d %d" % (r.randrange(self.nlabels), 0), "embed_label")
            else:
                c = self.unbound_here()
                if c:
                    self.gen_bind(r.choice(c))
        pools = {0: None, 1: None}      # scope -> [label id, {constant: offset}]
        nann = [0]

        def form(name):
            return [f for f in self.cat.forms[self.arch] if f["name"] == name][0]

        def new_const(scope):
            """_new_const + an instruction that reads the constant through [pool label + offset]"""
            c = bytes(r.getrandbits(8) for _ in range(8)) if r.random() < 0.8 or not pools[scope] or not pools[scope][1] else r.choice(sorted(pools[scope][1]))
            self.emit("NC %d %s" % (scope, hexs(c)))
            if pools[scope] is None:
                pools[scope] = [self.nlabels, {}]
                self.home[self.nlabels] = 0
                self.bound.add(self.nlabels)
                self.nlabels += 1
            lab, offs = pools[scope]
            if c not in offs:
                offs[c] = 8 * len(offs)
            f = form("mov_r_ml" if self.arch != 2 else "ldr_lit")
            ops = []
            for (k, w) in f["ops"]:
                w = list(w)
                if k == "ml":
                    w[1], w[3] = lab, offs[c]
                ops.append(w)
            self.simple("I %d %d %s" % (f["id"], len(ops), " ".join(" ".join(str(x) for x in w) for w in ops)), "inst_reading_pool_constant")
            self.count("new_const_scope_%d" % scope)

        def annotated_jump():
            labs = [r.randrange(self.nlabels) for _ in range(r.randrange(0, 3))] if self.nlabels else []
            self.emit("JA %s" % " ".join(map(str, labs)))
            f = form("jmp_r" if self.arch != 2 else "br")
            if r.random() < 0.4:
                self.emit("SC %s" % hexs(self.rnd_comment()))
            if r.random() < 0.4:
                self.emit("SO %d" % self.cat.opt["Unfollow"])
            self.simple("IJ %d %d %s" % (f["id"], nann[0], " ".join(str(x) for x in f["ops"][0][1])), "annotated_jump")
            nann[0] += 1

        def invoke():
            f = form("call_r" if self.arch != 2 else "blr")
            if r.random() < 0.3:
                self.emit("SC %s" % hexs(self.rnd_comment()))
            if r.random() < 0.4:
                self.emit("SO %d" % r.choice([self.cat.opt["Overwrite"], self.cat.opt["Unfollow"], self.cat.opt["Overwrite"] | self.cat.opt["Unfollow"]]))
            self.simple("IV %d 0 %s" % (f["id"], " ".join(str(x) for x in f["ops"][0][1])), "invoke")

        for _ in range(r.randrange(1, 4)):
            self.new_label(home=0)
        for _ in range(r.randrange(0, 4)):
            body_step()
        if r.random() < 0.3:
            annotated_jump()
        if r.random() < 0.3:
            new_const(1)
        for _ in range(r.randrange(1, 3)):
            if r.random() < 0.4:                   # one-shot state in front of add_func: the comment goes to the FuncNode, the rest is dropped
                self.emit("SC %s" % hexs(self.rnd_comment()))
                if r.random() < 0.5:
                    self.emit("SO %d" % self.cat.opt["Lock"])
            self.emit("FN")
            self.nlabels += 2                      # exit label, then the function's own label
            self.home[self.nlabels - 2] = 0
            self.home[self.nlabels - 1] = 0
            self.bound.update((self.nlabels - 2, self.nlabels - 1))
            self.count("func")
            for _ in range(r.randrange(1, 12)):
                y = r.random()
                if y < 0.12:
                    new_const(r.choice([0, 0, 1]))
                elif y < 0.2:
                    invoke()
                else:
                    body_step()
            if r.random() < 0.7:
                if r.random() < 0.4:
                    self.emit("SC %s" % hexs(self.rnd_comment()))
                    if r.random() < 0.5 and self.arch != 2:
                        self.emit("SX %d %d" % self.cat.xr[(self.arch, "k")][0])
                self.emit("FR")
                self.count("func_ret")
            self.emit("FE")
            pools[0] = None                         # end_func flushes the local pool; the next function starts a new one
            for _ in range(r.randrange(0, 3)):
                body_step()
            if r.random() < 0.2:
                annotated_jump()
        return []

    def text(self, base1, base2):
        if self.kind == "func":
            self.generate_func()
            head = "P %d %d %d %d %d" % (self.pidx, self.arch, base1, base2, 3)
            return "\n".join([head] + self.lines + ["X", "END"]) + "\n", []
        ref = self.generate()
        flags = 1 if self.kind != "edit" else 0
        head = "P %d %d %d %d %d" % (self.pidx, self.arch, base1, base2, flags)
        return "\n".join([head] + self.lines + ["X"] + ref + ["END"]) + "\n", ref


def make_program(rng, cat, pidx, arch, kind, allow_xsec=False):
    """Returns (text, meta) of one program; regenerates until the DESIGN 7.14 shape (and, for well-formed kinds, a double bind) is absent."""
    validate = kind in ("pure", "malformed") and rng.random() < 0.25
    for attempt in range(50):
        g = ProgGen(random.Random(rng.getrandbits(64)), cat, arch, kind, pidx, allow_xsec=allow_xsec)
        g.validated = validate
        base1 = rng.choice([0x10000, 0x7F0000000000 if arch else 0x40000000, 0x400000])
        base2 = base1 + rng.choice([0x1000, 0x123000, 0x10000000 if arch else 0x100000])
        text, ref = g.text(base1, base2)
        direct = [l for l in g.lines if l.split()[0] not in ("SCUR", "RM", "RMR", "RMP", "AA", "AB", "AN", "USL")]
        bad = shape_714(ref, inst_label_refs) or (kind != "edit" and shape_714(direct, inst_label_refs))
        if bad and not allow_xsec:
            continue
        if g.double_bound and kind != "malformed":
            continue
        if kind == "func":
            return text, {"pidx": pidx, "arch": arch, "kind": kind, "stats": g.stats, "double_bind": False, "double_bind_at": None,
                          "ncmds": len(g.lines), "lines": g.lines, "ref": [], "base": (base1, base2), "flags": 3}
        ref2, ok2 = reference_of(g.lines, cat)
        if not ok2 or ref2 != ref:
            raise RuntimeError("generator bookkeeping and reference_of disagree on program %d" % pidx)
        if validate:
            head, _, rest = text.partition("\n")
            text = head[:-1] + str(int(head[-1]) | 4) + "\n" + rest
        return text, {"pidx": pidx, "arch": arch, "kind": kind, "stats": g.stats, "double_bind": g.double_bound, "double_bind_at": g.double_bind_at,
                      "ncmds": len(g.lines), "lines": g.lines, "ref": ref, "base": (base1, base2), "flags": (1 if kind != "edit" else 0) | (4 if validate else 0),
                      "validate": validate}
    raise RuntimeError("generator could not produce a program free of the 7.14 shape")


# ------------------------------------------------------------------------------------------------ exhaustive sweep at the proofs' case split
def sweep_programs(cat, start_pidx):
    """One tiny program per (architecture, which of the six operand slots are used, strict validation off/on): the case split of
    inst_node_faithful / canon_replayed / C08_all_operands_kept (64 patterns of is_none) compared exhaustively on the real Builder, Compiler and
    Assembler in every run.  For each architecture the operand of the longest all-register form is used in every slot (AArch64: tbl, whose
    prefixes are forms of their own)."""
    out = []
    pidx = start_pidx
    for arch in (1, 0, 2):
        cands = [f for f in cat.forms[arch] if f["ops"] and all(k == "r" for k, _w in f["ops"])]
        if not cands:
            continue
        f = max(cands, key=lambda x: len(x["ops"]))
        words = [list(w) for _k, w in f["ops"]]
        for pat in range(64):
            ops = [(words[min(i, len(words) - 1)] if (pat >> i) & 1 else [0, 0, 0, 0]) for i in range(6)]
            n = max([i + 1 for i in range(6) if (pat >> i) & 1] or [0])
            line = "I %d %d%s" % (f["id"], n, "".join(" " + " ".join(str(x) for x in w) for w in ops[:n]))
            for validate in (0, 4):
                lines = ["CM 2a", line] if pat & 1 else [line]
                ref, ok = reference_of(lines, cat)
                if not ok:
                    raise RuntimeError("sweep program not well formed")
                flags = 1 | validate
                text = program_text(pidx, arch, 0x10000, 0x11000, flags, lines, ref)
                out.append((text, {"pidx": pidx, "arch": arch, "kind": "malformed", "stats": {"operand_pattern_sweep": 1}, "double_bind": False,
                                   "double_bind_at": None, "ncmds": len(lines), "lines": lines, "ref": ref, "base": (0x10000, 0x11000),
                                   "flags": flags, "validate": bool(validate), "sweep": True}))
                pidx += 1
    return out

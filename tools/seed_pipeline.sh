#!/bin/bash
# usage: tools/seed_pipeline.sh Cxx-k:Cyy[,Czz] ...   verify (suite+demo) then run the named checks against the seed
cd "$(dirname "$0")/.."
for a in "$@"; do
  s=${a%%:*}; cs=${a#*:}
  echo "##### $s"
  tools/verify_seed.sh /work/seedout/$s 2>&1 | grep -E "^SEED|PATCH|BUILD-FAILED"
  for c in ${cs//,/ }; do tools/run_seed.sh /work/seedout/$s $c quick 2>&1; done
done

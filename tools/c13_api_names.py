"""C13: emitter API method name -> instruction id -> name. Parses the Inst::kId enum (a64globals.h / x86globals.h) and the ASMJIT_INST_* macro
lines of a64emitter.h / x86emitter.h of VERIF_REPO and checks, against the dumped name tables, that method `foo(...)` emits the id whose
name is "foo" (trailing '_' of C++ keywords dropped)."""
import re, os


def parse_enum(path):
    txt = open(path).read()
    m = re.search(r"enum Id : uint32_t \{(.*?)_kIdCount", txt, re.S)
    ids = re.findall(r"\bkId([A-Za-z0-9_]+)\b\s*(?:=\s*0\s*)?,", m.group(1))
    return {n: i for i, n in enumerate(ids)}


def parse_methods(path):
    out = []
    for line in open(path):
        m = re.match(r"\s*ASMJIT_INST_\w+\(\s*([A-Za-z0-9_]+)\s*,\s*([A-Za-z0-9_]+)\s*[,)]", line)
        if m:
            out.append((m.group(1), m.group(2)))
    return out


def check(repo, arch, names):
    """-> (checked, mismatches [(method, IdName, table name)])"""
    if arch == "a64":
        enum = parse_enum(os.path.join(repo, "asmjit/arm/a64globals.h"))
        methods = parse_methods(os.path.join(repo, "asmjit/arm/a64emitter.h"))
    else:
        enum = parse_enum(os.path.join(repo, "asmjit/x86/x86globals.h"))
        methods = parse_methods(os.path.join(repo, "asmjit/x86/x86emitter.h"))
    bad, n = [], 0
    for meth, idn in methods:
        if idn not in enum or enum[idn] >= len(names):
            bad.append((meth, idn, "<no such id>"))
            continue
        n += 1
        want = names[enum[idn]]
        if meth.rstrip("_") != want:
            bad.append((meth, idn, want))
    return n, bad

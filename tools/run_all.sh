#!/bin/bash
# run every registered check once (quick) on the unchanged /repo and print one line per property
cd "$(dirname "$0")/.."
for p in $(python3 -c "import json;print(' '.join(c['property_id'] for c in json.load(open('MANIFEST.json'))['checks']))"); do
  s=$(date +%s); out=$(./check $p --tier ${1:-quick} 2>&1); rc=$?; e=$(( $(date +%s) - s ))
  echo "$p rc=$rc ${e}s $(echo "$out" | grep -E 'done:' | sed 's/.*done: //') $(echo "$out" | grep -c '^VIOLATION') violation-lines $(echo "$out" | grep -E 'HARNESS-ERROR' | head -1 | cut -c1-80)"
done

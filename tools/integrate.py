#!/usr/bin/env python3
"""Coordinator tool: take the files a builder owns from branch build/<P> into the current checkout (path-based, no merge).
usage: tools/integrate.py C19 [C04 ...extra property ids owned by the same branch]   (branch = build/<first id>)"""
import subprocess, sys, os, re
def sh(*a):
    return subprocess.run(a, check=True, stdout=subprocess.PIPE, text=True).stdout
P = sys.argv[1]; owned = set(sys.argv[1:]); br = "build/" + P
base = sh("git", "merge-base", "HEAD", br).strip()
files = [f for f in sh("git", "diff", "--name-only", base, br).split("\n") if f]
SHARED = {"MANIFEST.json", "tools/vlib.py", "check", "setup.sh", "BUILDING.md", "DESIGN.md", "coq/mkproject.sh", "tools/manifest_src.py",
          "tools/mkmanifest.py", "tools/validate.py", "tools/integrate.py", ".gitignore", ".gitattributes", "properties.jsonl"}
taken, skipped = [], []
for f in files:
    if f in SHARED or f.startswith("coq/theories/Base/") and False:
        skipped.append(f); continue
    m = re.match(r"evidence/(C\d+)\.json", f)
    if m and m.group(1) not in owned:
        skipped.append(f); continue
    if f == "known_findings.jsonl":
        new = sh("git", "show", br + ":" + f).split("\n")
        cur = open(f).read().split("\n") if os.path.exists(f) else []
        import json as _j
        def _own(l):
            try: return _j.loads(l).get("property") in owned
            except Exception: return False
        add = [l for l in new if l.strip() and l not in cur and _own(l)]
        if add:
            if os.path.exists(f) and not open(f).read().endswith("\n"):
                open(f, "a").write("\n")
            with open(f, "a") as fh:
                for l in add: fh.write(l + "\n")
        taken.append(f + " (+%d lines)" % len(add)); continue
    # deleted on branch?
    r = subprocess.run(["git", "cat-file", "-e", br + ":" + f])
    if r.returncode != 0:
        skipped.append(f + " (deleted on branch)"); continue
    sh("git", "checkout", br, "--", f); taken.append(f)
print("taken:"); [print("  ", t) for t in taken]
print("skipped:"); [print("  ", t) for t in skipped]

#!/usr/bin/env python3
"""Validate MANIFEST.json and evidence/*.json against the schemas (run with python3-vt, which has jsonschema)."""
import json, glob, sys, os
import jsonschema
V = os.path.dirname(os.path.dirname(os.path.abspath(__file__)))
ok = True
def check(path, schema):
    global ok
    try:
        jsonschema.validate(json.load(open(path)), json.load(open(schema)))
        print("ok   ", path)
    except Exception as e:
        ok = False
        print("BAD  ", path, str(e)[:400])
check(os.path.join(V, "MANIFEST.json"), "/root/.vp/MANIFEST.schema.json")
for p in sorted(glob.glob(os.path.join(V, "evidence", "*.json"))):
    check(p, "/root/.vp/EVIDENCE.schema.json")
sys.exit(0 if ok else 1)

// C01 translator, stage 1: expand db/isa_x86.json with the repository's own db/index.js and print one JSON object
// per expanded instruction form (only the fields the Coq database IsaX86Db.v and the generator need).
// usage: node c01_isa.js <repo>
const fs = require("fs");
const path = require("path");
const repo = process.argv[2] || "/repo";
const x86 = require(path.join(repo, "db")).x86;
const isa = new x86.ISA(JSON.parse(fs.readFileSync(path.join(repo, "db", "isa_x86.json"), "utf8")));

function fixedIndex(op) {
  // index of a fixed register inside its class, -1 if the operand is a register class
  if (!op.reg || op.reg === op.regType || op.reg === "st(i)") return -1;
  const m = /(\d+)\)?$/.exec(op.reg);
  const names = {
    al: 0, cl: 1, dl: 2, bl: 3, ah: 0, ch: 1, dh: 2, bh: 3,
    ax: 0, cx: 1, dx: 2, bx: 3, sp: 4, bp: 5, si: 6, di: 7,
    eax: 0, ecx: 1, edx: 2, ebx: 3, esp: 4, ebp: 5, esi: 6, edi: 7,
    rax: 0, rcx: 1, rdx: 2, rbx: 3, rsp: 4, rbp: 5, rsi: 6, rdi: 7,
    zax: 0, zcx: 1, zdx: 2, zbx: 3, zsp: 4, zbp: 5, zsi: 6, zdi: 7,
    es: 1, cs: 2, ss: 3, ds: 4, fs: 5, gs: 6
  };
  if (Object.prototype.hasOwnProperty.call(names, op.reg)) return names[op.reg];
  if (m) return parseInt(m[1], 10);
  return -2;
}

const out = [];
for (const i of isa.instructions) {
  out.push({
    name: i.name, arch: i.arch, prefix: i.prefix, encoding: i.encoding, opcodeString: i.opcodeString,
    byte: i.opcode.byte, ri: !!i.opcode.ri, h67: !!i.opcode._67h, mm: i.opcode.mm, pp: i.opcode.pp, w: i.opcode.w, l: i.opcode.l,
    mod: i.opcode.mod, modr: i.opcode.modr, modrm: i.opcode.modrm,
    gp: i.groupPattern, gi: i.groupIndex, rel: i.rel || 0, moff: !!i.moff,
    tt: i.tupleType, es: i.elementSize, bcst: !!i.broadcast, k: !!i.kmask, z: !!i.zmask, er: !!i.er, sae: !!i.sae,
    vsib: i.vsibReg || "", vsibSize: i.vsibSize, tsib: !!i.tsib, apx: !!(i.ext && i.ext.APX_F),
    ext: Object.keys(i.ext || {}).sort(), prefixes: Object.keys(i.prefixes || {}).sort(), encPref: i.encodingPreference || "",
    ops: i.operands.map(o => ({
      data: o.data, reg: o.reg || "", regType: o.regType || "", fixed: fixedIndex(o), mem: o.mem || "", memSize: o.memSize,
      imm: o.imm || 0, immSign: o.immSign || "", immValue: (o.immValue === null || o.immValue === undefined) ? -1 : o.immValue,
      rel: o.rel || 0, implicit: !!o.implicit, memSegment: o.memSegment || "", memRegOnly: o.memRegOnly || "",
      memOff: !!o.memOff, memFar: !!o.memFar, vsibReg: o.vsibReg || "", bcstSize: o.bcstSize, regIndexRel: o.regIndexRel || 0,
      read: !!o.read, write: !!o.write
    }))
  });
}
process.stdout.write(JSON.stringify(out));

"""C02 translator, stage 2: rows of /repo/db/isa_aarch64.json (loaded by the repository's own db/index.js, see c02_tr_isa.js)
-> operand-syntax terms of coq/theories/A64/A64Sem.v -> coq/gen/IsaA64Db.v.

Everything the model does not support is returned with a reason (counted and named in the evidence, never passed silently).
"""
import json
import math
import os
import re
import vlib

HERE = os.path.dirname(os.path.abspath(__file__))

# AsmJit ShiftOp numbering (asmjit/core/archcommons.h)
LSL, LSR, ASR, ROR = 0, 1, 2, 3
UXTB, UXTH, UXTW, UXTX, SXTB, SXTH, SXTW, SXTX = 6, 7, 8, 9, 10, 11, 12, 13

# LDR/STR (immediate, unsigned offset) fall back to the unscaled LDUR/STUR encodings when the offset does not fit (ARM ARM
# C6.2 "LDR (immediate)" assembler note; GNU as and llvm-mc do the same).
ALT_MNEMONIC = {"ldr": "ldur", "ldrb": "ldurb", "ldrh": "ldurh", "ldrsb": "ldursb", "ldrsh": "ldursh", "ldrsw": "ldursw",
                "str": "stur", "strb": "sturb", "strh": "sturh", "prfm": "prfum"}

# LDP/STP encoding class of the assembler: write-back addressing with a zero offset is emitted as the plain signed-offset word
PAIR_NAMES = {"ldp", "stp", "ldpsw", "stgp"}
INVERTIBLE = {"SGp", "SImmU", "SImmS", "SCond", "SRel", "SMemBase", "SMemOff", "SMemLit", "SShift", "SVec", "SVecElem",
              "SGpDup", "SImmLt", "SSysReg", "SImmConst", "SMemPostImm", "SMemPostReg", "SMemIdx", "SMemPair", "SGpPair", "SSysOp", "SImmRsub", "SFpImm", "SVecListElem", "SImmAff"}
INV_COND = {"cinc", "cinv", "cneg", "cset", "csetm"}


def load_rows(repo=None):
    repo = repo or vlib.REPO
    rc, out, err = vlib.sh(["node", os.path.join(HERE, "c02_tr_isa.js"), repo], timeout=120)
    if rc != 0:
        raise RuntimeError("c02_tr_isa.js failed: %s" % err[-2000:])
    return json.loads(out)


def load_overrides():
    p = os.path.join(vlib.VERIF, "corpus", "C02", "db_overrides.json")
    return json.load(open(p)) if os.path.exists(p) else []


def apply_overrides(rows, overrides):
    """A DB row whose text is a recorded defect of the database (wrong opcode bits / scale: the independent assembler and
    AsmJit agree with each other and disagree with the row) is replaced by its corrected text so that the model still covers the
    instruction; every applied override is reported by the check as a (known) finding keyed by the row text."""
    applied = []
    by = {}
    for o in overrides:
        by[(o["inst"], o["op"])] = o
    for r in rows:
        o = by.get((r["inst"], r["opstr"]))
        if o is None:
            continue
        if "ops" in o:
            r["ops"] = list(o["ops"])
        if "value" in o:
            r["value"] = int(o["value"], 16) if isinstance(o["value"], str) else o["value"]
        if "fields" in o:
            r["fields"] = o["fields"]
        r["override"] = o["key"]
        applied.append(o)
    return applied


ARR = {"8B": (3, 1), "16B": (4, 1), "4H": (3, 2), "8H": (4, 2), "2S": (3, 3), "4S": (4, 3), "1D": (3, 4), "2D": (4, 4),
       "2H": (2, 2)}          # Vn.2H: the 32-bit view with H elements (FADDP Hd, Vn.2H ...)
SCALAR_RT = {"B": 0, "H": 1, "S": 2, "D": 3, "Q": 4}
ELEM = {"B": (1, 16), "H": (2, 8), "S": (3, 4), "D": (4, 2),
        "4B": (5, 4), "2H": (6, 4)}     # groups of four bytes / two half-words (dot products): AsmJit's VecElementType kB4 = 5, kH2 = 6


def expand_simd(rows):
    """A SIMD row written with arrangement variables (Vd.t / Vd.ta, Vn.tb and a "t" list such as "8B 4H 2S") stands for one form per
    list entry, the entry's position being the value of the 2-bit size field `sz` ('~' = no such form). Each form becomes its own
    row with `sz` turned into fixed bits (row id = 10 * original id + position)."""
    out = []
    for r in rows:
        t = r.get("t", "")
        uses_t = any(re.search(r"\.t[ab]?(\}|$)", o) for o in r["ops"])
        has_sz = "sz" in r["fields"] and len(r["fields"]["sz"]) == 1 and r["fields"]["sz"][0]["size"] == 2
        by_immh = "immh" in r["fields"] and "sz" not in r["fields"]        # shift-by-immediate forms: the size is in immh, not in sz
        if not t or not uses_t or not (has_sz or by_immh):
            r2 = dict(r); r2["idx"] = r["idx"] * 10
            out.append(r2)
            continue
        pos = r["fields"]["sz"][0]["pos"] if has_sz else 0
        for i, tok in enumerate(t.split()):
            if tok == "~" or i > 3:
                continue
            a, b_ = (tok.split(".") + [None])[:2] if "." in tok else (tok, None)
            r2 = json.loads(json.dumps(r))
            r2["idx"] = r["idx"] * 10 + i
            ops = []
            for o in r2["ops"]:
                if b_ is None:
                    o = re.sub(r"\.t(?=\}|$)", "." + a, o)
                else:
                    o = re.sub(r"\.ta(?=\}|$)", "." + a, o)
                    o = re.sub(r"\.tb(?=\}|$)", "." + b_, o)
                ops.append(o)
            r2["ops"] = ops
            r2["t_index"] = i
            if has_sz:
                del r2["fields"]["sz"]
                r2["value"] = r["value"] | (i << pos)
            r2["inst"] = r["inst"] + " {t=%s}" % tok
            r2["expanded_from"] = r["idx"]
            out.append(r2)
    return out


def row_is_x(r):
    for o in r["ops"]:
        m = re.match(r"^([WX])[a-z0-9]+(\|\w+)?$", o)
        if m:
            return m.group(1) == "X"
    return None


def fwidth(r, name):
    return sum(s["size"] for s in r["fields"][name])


class Unsupported(Exception):
    pass


def parse_ops(r):
    """-> list of syntax tuples (constructor name, args...) with field NAMES (mapped to ids later)"""
    ops = list(r["ops"])
    name = r["name"]
    F = r["fields"]
    imm = r.get("immraw", "")
    syn = []
    isx = row_is_x(r)
    i = 0
    if name.endswith(".<cond>") and "cond" in F:
        syn.append(("SCond", "cond", False))      # condition carried by the instruction id (b.<cond>)

    def need(f):
        if f == "Rn" and f not in F and "Vn" in F and any(o.startswith("[Xn|SP") for o in ops):
            return "Vn"          # SIMD load/store rows name the base register field Vn
        if f not in F and re.match(r"^R[dnmt]$", f) and "V" + f[1] in F and fwidth(r, "V" + f[1]) == 5 \
                and not any(re.match(r"^[BHSDQV]%s(\W|$)" % f[1], x) for x in ops):
            return "V" + f[1]    # FP<->integer conversions name the general register's field Vd / Vn
        if f not in F:
            raise Unsupported("field %s missing in opcode" % f)
        return f
    while i < len(ops):
        o = ops[i]
        nxt = ops[i + 1] if i + 1 < len(ops) else None
        for fv in F:
            if fv.startswith("V") and fwidth(r, fv) > 5:
                raise Unsupported("vector register written into two fields")
        def vfield(nm):
            """the register field of vector operand <nm>: V<nm>, or - when the row names the same register differently in its operand
            text and in its opcode (stores: `Sd` / Vs, destructive forms: `Vd` / Vx) - the alternative that no other operand uses"""
            if "V" + nm in F:
                return "V" + nm
            for alt in {"d": ("s", "x", "t"), "d2": ("s2", "t2"), "t": ("d", "s"), "t2": ("d2", "s2")}.get(nm, ()):
                used = any(re.match(r"^(\d+x\{)?[BHSDQV]%s(\W|$)" % alt, x) for x in ops)
                if "V" + alt in F and not used:
                    return "V" + alt
            if "R" + nm in F and fwidth(r, "R" + nm) == 5 and not any(re.match(r"^[WX]%s(\W|$)" % nm, x) or x.startswith("[Xn|SP") and nm == "n" for x in ops):
                return "R" + nm          # INS (element) names the source vector's field Rn
            return None
        mv = re.match(r"^([BHSDQ])([a-z]+\d?)$", o)
        if mv and vfield(mv.group(2)):
            f = vfield(mv.group(2))
            syn.append(("SVec", SCALAR_RT[mv.group(1)], 0, f, fwidth(r, f)))
            i += 1
            continue
        mv = re.match(r"^V([a-z]+\d?)\.(8B|16B|4H|8H|2S|4S|1D|2D|2H)$", o)
        if mv and vfield(mv.group(1)):
            f = vfield(mv.group(1))
            rt, et = ARR[mv.group(2)]
            syn.append(("SVec", rt, et, f, fwidth(r, f)))
            i += 1
            continue
        mv = re.match(r"^V([a-z]+\d?)\.(4B|2H|[BHSD])\[#(\w+)\]$", o)
        fi = mv.group(3) if mv and mv.group(3) in F else ("imm" if mv and mv.group(3) == "idx" and "imm" in F and not imm else None)   # FMLAL: lane field named imm
        if mv and ("V" + mv.group(1)) in F and fi:
            f = "V" + mv.group(1)
            et, lanes = ELEM[mv.group(2)]
            wi = fwidth(r, fi)
            syn.append(("SVecElem", et, f, fwidth(r, f), fi, wi, min(lanes, 1 << wi)))
            i += 1
            continue
        msh = re.match(r"^ASimdShift([NP])Imm\(\w+, (\w+)\)$", imm) or re.match(r"^ASimd(F)BitsHBImm\(\w+, (\d+)\)$", imm)
        if not msh and re.match(r"^ASimdSHL\(\w+, (\w+)\)$", imm):          # SHL: left shift 0..esize-1
            msh = re.match(r"^ASimdSH(L)\(\w+, (\w+)\)$", imm)
        if not msh and re.match(r"^ASimdSHRN\(\w+, (\w+)\)$", imm):         # SHRN: right shift 1..esize of the NARROW element
            msh = re.match(r"^ASimdSHR(N)\(\w+, (\w+)\)$", imm)
        if msh and o in ("#n", "#fbits", "#bits") and "immh" in F and "immb" in F and fwidth(r, "immh") == 4 and fwidth(r, "immb") == 3:
            if msh.group(1) == "F":
                esize, left = int(msh.group(2)), False
            else:
                k = r.get("t_index") if msh.group(2) == "sz" else int(msh.group(2))
                if k is None or not (0 <= k <= 3):
                    raise Unsupported("shift immediate without element size")
                esize, left = 8 << k, msh.group(1) in ("P", "L")
            syn.append(("SVShift", left, esize, "immh", "immb"))
            imm = ""
            i += 1
            continue
        mp = re.match(r"^2x\{([WX])([a-z])\}\+$", o)
        if mp and ("R" + mp.group(2)) in F:
            syn.append(("SGpPair", mp.group(1) == "X", "R" + mp.group(2)))
            i += 1
            continue
        if o == "+" and i > 0 and any(re.match(r"^\dx\{", x) for x in ops[:i]) and all(x == "+" or re.match(r"^\dx\{", x) for x in ops[max(0, i - 3):i][-1:]):
            # continuation slot of a GP pair / of a register list written with "+" (consecutive registers)
            i += 1
            continue
        if o == "":            # continuation slot of a register list (db/aarch64.js expands "Nx{...}" into N operands)
            i += 1
            continue
        mv = re.match(r"^([1-4])x\{V([a-z]+\d?)\.(8B|16B|4H|8H|2S|4S|1D|2D)\}\+?$", o)
        if mv and ("V" + mv.group(2)) in F and fwidth(r, "V" + mv.group(2)) == 5:
            rt, et = ARR[mv.group(3)]
            syn.append(("SVecList", int(mv.group(1)), rt, et, "V" + mv.group(2)))
            i += 1
            continue
        mv = re.match(r"^([2-4])x\{V([a-z]+\d?)\.([BHSD])\}\+?\[#(\w+)\]$", o)
        if mv and ("V" + mv.group(2)) in F and fwidth(r, "V" + mv.group(2)) == 5 and mv.group(4) in F:
            et, lanes = ELEM[mv.group(3)]
            wi = fwidth(r, mv.group(4))
            syn.append(("SVecListElem", int(mv.group(1)), et, "V" + mv.group(2), mv.group(4), wi, min(lanes, 1 << wi)))
            i += 1
            continue
        if o == "[Xn|SP, Xm]@" and "Rm" in F:
            syn.append(("SMemPostReg", need("Rn"), "Rm"))
            i += 1
            continue
        mv = re.match(r"^\[Xn\|SP, #off==(\d)<<sz\]@$", o)
        if mv and r.get("t_index") is not None:        # LDnR post-index by the transfer size: n elements of the arrangement's element size
            syn.append(("SMemPostImm", need("Rn"), int(mv.group(1)) << r["t_index"]))
            i += 1
            continue
        mv = re.match(r"^\[Xn\|SP, #off==?(\d+)\]@$", o)
        if mv:
            syn.append(("SMemPostImm", need("Rn"), int(mv.group(1))))
            i += 1
            continue
        if o in ("#0", "#0.0"):
            syn.append(("SImmConst", 0))
            i += 1
            continue
        m = re.match(r"^([WX])(d|n|m|a|t|s|d2|s2|t2)(\|(WSP|SP))?$", o)
        if m and nxt == "{extend #n}":
            syn.append(("SExtReg", m.group(1) == "X" and False or (isx is True), need("Rm"), need("option"), need("n")))
            i += 2
            continue
        if o == "Rm" and nxt == "{extend #n}":
            syn.append(("SExtReg", True, need("Rm"), need("option"), need("n")))
            i += 2
            continue
        if m:
            f = need("R" + m.group(2))
            if f + "'" in F:
                syn.append(("SGpDup", m.group(1) == "X", 31 if m.group(3) else 63, f, f + "'"))
            else:
                syn.append(("SGp", m.group(1) == "X", 31 if m.group(3) else 63, f))
            i += 1
            continue
        if o in ("{lsl|lsr|asr #n}", "{sop #n}"):
            if isx is None:
                raise Unsupported("shift without register width")
            syn.append(("SShift", need("sop"), need("n"), 0b0111 if o.startswith("{lsl") else 0b1111, 64 if isx else 32))
            i += 1
            continue
        m = re.match(r"^#(\w+)$", o)
        # --- bitfield family and shift-by-immediate aliases
        if o == "#lsb" and nxt == "#width" and "immr" in F and "imms" in F:
            kind = {"sbfx": 0, "ubfx": 0, "bfxil": 0, "sbfiz": 1, "ubfiz": 1, "bfi": 1, "bfc": 1}.get(name)
            if kind is None or isx is None:
                raise Unsupported("bitfield alias %s" % name)
            syn.append(("SBitfield", kind, 64 if isx else 32, "immr", "imms"))
            imm = ""
            i += 2
            continue
        if o == "#n" and name == "lsl" and "immr" in F and "imms" in F and isx is not None:
            syn.append(("SBitfield", 2, 64 if isx else 32, "immr", "imms"))
            i += 1
            continue
        if o == "#n" and name in ("lsr", "asr") and "immr" in F and "n" not in F and isx is not None:
            syn.append(("SImmLt", "immr", fwidth(r, "immr"), 64 if isx else 32))
            i += 1
            continue
        if o in ("#immr", "#imms") and re.match(r"^ImmBFM\(", imm) and isx is not None:
            syn.append(("SImmLt", o[1:], fwidth(r, o[1:]), 64 if isx else 32))
            if o == "#imms":
                imm = ""
            i += 1
            continue
        if o == "#n" and name == "ror" and "n" in F and isx is not None:
            syn.append(("SImmLt", "n", fwidth(r, "n"), 64 if isx else 32))
            i += 1
            continue
        if o == "#imm" and name == "extr" and isx is not None:
            syn.append(("SImmLt", "imm", fwidth(r, "imm"), 64 if isx else 32))
            i += 1
            continue
        # --- move wide
        if o == "#imm" and nxt == "{lsl #n}" and re.match(r"^ImmWide(Inv)?\(imm, n, [01]\)$", imm) and "hw" in F:
            syn.append(("SMovW", imm.endswith("1)"), "imm", "hw"))
            imm = ""
            i += 2
            continue
        mfs = re.match(r"^ASimdFBitsScaleImm\(fbits, (32|64)\)$", imm)
        if o == "#fbits" and mfs and "scale" in F and fwidth(r, "scale") == 6:
            syn.append(("SImmRsub", "scale", 6, 64, 1, int(mfs.group(1))))      # fixed-point conversions: scale = 64 - fbits, 1 <= fbits <= register width
            imm = ""
            i += 1
            continue
        mo = re.match(r"^\{#(\w+)(=\d+)?\}$", o)
        if mo and (not imm or re.match(r"^ImmISB\(", imm)) and (mo.group(1) in F or "CRm" in F):
            # optional immediate (ISB / CLREX option, DCPSn): a64::Assembler requires the operand, so only the explicit form is modelled
            f = mo.group(1) if mo.group(1) in F else "CRm"
            syn.append(("SImmU", f, fwidth(r, f), 1))
            imm = ""
            i += 1
            continue
        if o == "#barrier_op" and "CRm" in F and "barrier_op" not in F:      # DMB / DSB: the option is the CRm field
            syn.append(("SImmU", "CRm", fwidth(r, "CRm"), 1))
            imm = ""
            i += 1
            continue
        if o == "#rotate" and re.match(r"^ASimdRotateImm_0_90_180_270\(rotate\)$", imm) and "imm" in F and fwidth(r, "imm") == 2:
            syn.append(("SImmU", "imm", 2, 90))      # FCMLA: rotation 0 / 90 / 180 / 270 degrees = imm * 90
            imm = ""
            i += 1
            continue
        if o == "#rotate" and re.match(r"^ASimdRotateImm_90_270\(rotate\)$", imm) and "imm" in F and fwidth(r, "imm") == 1:
            syn.append(("SImmAff", "imm", 1, 90, 180))      # FCADD: rotation 90 / 270 degrees = 90 + 180 * imm
            imm = ""
            i += 1
            continue
        if o == "#fimm" and re.match(r"^ASimdFMovImm\(", imm):
            if "imm" in F and len(F["imm"]) == 1 and F["imm"][0]["size"] == 8 and F["imm"][0]["from"] == 0 and "abc" not in F and "defgh" not in F:
                sl = F.pop("imm")[0]         # the scalar rows write the 8-bit immediate as one field: split it like the vector rows (abc:defgh)
                F["abc"] = [{"pos": sl["pos"] + 5, "size": 3, "from": 0}]
                F["defgh"] = [{"pos": sl["pos"], "size": 5, "from": 0}]
            if "abc" in F and "defgh" in F and fwidth(r, "abc") == 3 and fwidth(r, "defgh") == 5:
                syn.append(("SFpImm", "abc", "defgh"))
                imm = ""
                i += 1
                continue
        if o == "#sysreg" and "sysreg" in F:
            syn.append(("SSysReg", "sysreg"))
            i += 1
            continue
        if m and m.group(1) in ("Cn", "Cm") and ("CR" + m.group(1)[1]) in F and not imm:
            f = "CR" + m.group(1)[1]
            syn.append(("SImmU", f, fwidth(r, f), 1))
            i += 1
            continue
        if m and nxt == "{lsl #n=0|12}":
            syn.append(("SAddImm", need(m.group(1)), need("n")))
            i += 2
            continue
        if m and m.group(1) == "cond":
            syn.append(("SCond", need("cond"), name in INV_COND))
            i += 1
            continue
        if m and m.group(1) == "relS":
            # ADRP: the displacement between the 4 KiB pages, i.e. a byte displacement that is a multiple of 4096 (the assembler binds labels
            # relative to the instruction, so page arithmetic on absolute addresses does not arise)
            syn.append(("SRel", need("relS"), fwidth(r, "relS"), 4096 if name == "adrp" else 1))
            i += 1
            continue
        if o == "#relS*4":
            syn.append(("SRel", need("relS"), fwidth(r, "relS"), 4))
            i += 1
            continue
        ms = re.match(r"^#(\w+)\*(\d+)$", o)
        if ms and not imm and ms.group(1) in F:
            syn.append(("SImmU", ms.group(1), fwidth(r, ms.group(1)), int(ms.group(2))))
            i += 1
            continue
        if m and re.match(r"^Imm(At|DC|IC|TLBI)\(%s\)$" % m.group(1), imm) and all(x in F for x in ("op1", "CRm", "op2")) \
                and fwidth(r, "op1") == 3 and fwidth(r, "CRm") == 4 and fwidth(r, "op2") == 3:
            syn.append(("SSysOp", "op1", "CRm", "op2", (r["value"] >> 12) & 15))      # CRn is part of the instruction's fixed bits
            imm = ""
            i += 1
            continue
        if m:
            f = m.group(1)
            mi = re.match(r"^(LogicalImm|ImmLogical)\((\w+), ([01])\)$", imm)
            if mi and mi.group(2) == f and f in F and fwidth(r, f) == 13:
                syn.append(("SLogImm", mi.group(3) == "1", f))
                i += 1
                continue
            if re.match(r"^Imm(DataBarrier|PRF)\(\w+\)$", imm):
                imm = ""          # named operand values (barrier option, prefetch operation) are plain unsigned immediates of the field's width
            if imm:
                raise Unsupported("immediate transformation %s" % imm.split("(")[0])
            if f == "immS":
                syn.append(("SImmS", need(f), fwidth(r, f)))
            else:
                syn.append(("SImmU", need(f), fwidth(r, f), 1))
            i += 1
            continue
        if o == "[Xn|SP]":
            syn.append(("SMemBase", need("Rn")))
            i += 1
            continue
        m = re.match(r"^\[Xn\|SP, #(off[SZ])(\*(\d+))?\](@|!|\{@\}\{!\})?$", o)
        if m:
            f = need(m.group(1))
            scale = int(m.group(3) or 1)
            sgn = f == "offS"
            mode = {None: 0, "@": 2, "!": 1}.get(m.group(4), None)
            if m.group(4) == "{@}{!}":
                syn.append(("SMemPair", need("Rn"), f, fwidth(r, f), scale, need("!post"), need("W"), name in PAIR_NAMES))
            else:
                syn.append(("SMemOff", need("Rn"), f, fwidth(r, f), sgn, scale, mode))
            i += 1
            continue
        mx = re.match(r"^\[Xn\|SP, Rm, \{uxtw\|lsl\|sxtw\|sxtx #n\*([1-4])\}\]$", o)
        if mx and "s" not in F and "n" in F and fwidth(r, "n") == 1:
            # SIMD&FP register-offset loads/stores: the S bit is the field named n, the shift amount is log2 of the transfer size
            syn.append(("SMemIdx", need("Rn"), need("Rm"), need("option"), "n", int(mx.group(1))))
            i += 1
            continue
        if o == "[Xn|SP, Rm, {uxtw|lsl|sxtw|sxtx #n}]":
            mi = re.match(r"^Imm(LDR|LDRB|LDRH|LDRW|LDR_STR|LDRB_STRB|LDRH_STRH)\(iop, n\)$", imm)
            if not mi:
                raise Unsupported("register-index form without size tag")
            k = mi.group(1)
            amount = {"LDRB": 0, "LDRB_STRB": 0, "LDRH": 1, "LDRH_STRH": 1, "LDRW": 2}.get(k)
            if amount is None:
                amount = 3 if isx else 2
            syn.append(("SMemIdx", need("Rn"), need("Rm"), need("option"), need("s"), amount))
            imm = ""
            i += 1
            continue
        if o == "[PC, #offS*4]":
            syn.append(("SMemLit", need("offS"), fwidth(r, "offS")))
            i += 1
            continue
        raise Unsupported("operand syntax %s" % o)
    return syn


SYN_FIELDS = {   # which args are field names, and the declared widths (mirror of A64Sem.syn_fields)
    "SGp": lambda a: [(a[2], 5)], "SImmU": lambda a: [(a[0], a[1])], "SImmS": lambda a: [(a[0], a[1])], "SCond": lambda a: [(a[0], 4)],
    "SShift": lambda a: [(a[0], 2), (a[1], 6)], "SExtReg": lambda a: [(a[1], 5), (a[2], 3), (a[3], 3)],
    "SAddImm": lambda a: [(a[0], 12), (a[1], 1)], "SRel": lambda a: [(a[0], a[1])], "SMemBase": lambda a: [(a[0], 5)],
    "SMemOff": lambda a: [(a[0], 5), (a[1], a[2])], "SMemPair": lambda a: [(a[0], 5), (a[1], a[2]), (a[4], 1), (a[5], 1)],
    "SMemIdx": lambda a: [(a[0], 5), (a[1], 5), (a[2], 3), (a[3], 1)], "SMemLit": lambda a: [(a[0], a[1])],
    "SLogImm": lambda a: [(a[1], 13)], "SGpDup": lambda a: [(a[2], 5), (a[3], 5)], "SImmLt": lambda a: [(a[0], a[1])],
    "SBitfield": lambda a: [(a[2], 6), (a[3], 6)], "SMovW": lambda a: [(a[1], 16), (a[2], 2)], "SSysReg": lambda a: [(a[0], 15)],
    "SImmConst": lambda a: [], "SVec": lambda a: [(a[2], a[3])], "SVecElem": lambda a: [(a[1], a[2]), (a[3], a[4])],
    "SVShift": lambda a: [(a[2], 4), (a[3], 3)], "SGpPair": lambda a: [(a[1], 5)], "SSysOp": lambda a: [(a[0], 3), (a[1], 4), (a[2], 3)], "SImmRsub": lambda a: [(a[0], a[1])], "SFpImm": lambda a: [(a[0], 3), (a[1], 5)], "SVecListElem": lambda a: [(a[2], 5), (a[3], a[4])], "SImmAff": lambda a: [(a[0], a[1])], "SVecList": lambda a: [(a[3], 5)], "SMemPostReg": lambda a: [(a[0], 5), (a[1], 5)], "SMemPostImm": lambda a: [(a[0], 5)],
}
FIELD_ARGPOS = {"SGp": [2], "SImmU": [0], "SImmS": [0], "SCond": [0], "SShift": [0, 1], "SExtReg": [1, 2, 3], "SAddImm": [0, 1], "SRel": [0],
                "SMemBase": [0], "SMemOff": [0, 1], "SMemPair": [0, 1, 4, 5], "SMemIdx": [0, 1, 2, 3], "SMemLit": [0], "SLogImm": [1],
                "SGpDup": [2, 3], "SImmLt": [0], "SBitfield": [2, 3], "SMovW": [1, 2], "SSysReg": [0],
                "SImmConst": [], "SVec": [2], "SVecElem": [1, 3], "SVecList": [3], "SMemPostReg": [0, 1], "SMemPostImm": [0],
                "SVShift": [2, 3], "SGpPair": [1], "SSysOp": [0, 1, 2], "SImmRsub": [0], "SFpImm": [0, 1], "SVecListElem": [2, 3], "SImmAff": [0]}


def template_items(r):
    """sequential template from msb: ('F', width, value) | ('V', field, hi, lo)"""
    sl = []
    for f, ss in r["fields"].items():
        for s in ss:
            sl.append((s["pos"], s["size"], f, s["from"]))
    sl.sort(reverse=True)
    items = []
    cur = 32
    val = r["value"]
    for pos, size, f, frm in sl:
        top = pos + size
        if top > cur:
            raise Unsupported("overlapping opcode fields")
        if top < cur:
            items.append(("F", cur - top, (val >> top) & ((1 << (cur - top)) - 1)))
        if (val >> pos) & ((1 << size) - 1):
            raise Unsupported("opcode value has bits inside field %s" % f)
        items.append(("V", f, frm + size - 1, frm))
        cur = pos
    if cur > 0:
        items.append(("F", cur, val & ((1 << cur) - 1)))
    return items


def split_dup_fields(r):
    """a 5-bit register field that occurs twice as a whole in the opcode (ROR #imm: EXTR Rn,Rn; CINC: CSINC Rn,Rn) -> f and f'"""
    for f in list(r["fields"].keys()):
        ss = r["fields"][f]
        if len(ss) == 2 and all(x["size"] == 5 for x in ss) and sorted(x["from"] for x in ss) in ([0, 0], [0, 5]) and re.match(r"^R[a-z]\d?$", f):
            ss.sort(key=lambda x: x["pos"])
            r["fields"][f] = [dict(ss[0], **{"from": 0})]
            r["fields"][f + "'"] = [dict(ss[1], **{"from": 0})]


def fix_field(r, f, v):
    r2 = json.loads(json.dumps(r))
    ss = r2["fields"].pop(f)
    assert len(ss) == 1 and 0 <= v < (1 << ss[0]["size"])
    r2["value"] = r2["value"] | (v << ss[0]["pos"])
    r2.setdefault("inferred", []).append([f, v])
    return r2


def infer_fixed(r, missing):
    """Opcode fields that no operand binds and that the row's text determines (translator conventions, validated by the llvm-mc oracle
    like every other row):  sz (2 bits) = element-size index B0 H1 S2 D3 of the first vector operand written with an explicit
    arrangement or as a scalar register;  immh of the SXTL/UXTL aliases (a shift by 0) = 1 << index of the "t" entry.  Returns the row with these fields turned into fixed bits, or None."""
    r2 = r
    for f in missing:
        ss = r["fields"][f]
        if len(ss) != 1:
            return None
        if f == "sz" and ss[0]["size"] == 2:
            k = None
            for o in r["ops"]:
                m = re.match(r"^([BHSD])[a-z]+\d?$", o) or re.match(r"^V[a-z]+\d?\.\d+([BHSD])$", o)
                if m:
                    k = "BHSD".index(m.group(1))
                    break
            if k is None:
                return None
            r2 = fix_field(r2, f, k)
        elif f == "immh" and ss[0]["size"] == 4 and r.get("t_index") is not None and r["name"] in ("sxtl", "sxtl2", "uxtl", "uxtl2") and r["t_index"] <= 2:
            r2 = fix_field(r2, f, 1 << r["t_index"])
        else:
            return None
    return r2


def load_excluded():
    p = os.path.join(vlib.VERIF, "corpus", "C02", "db_excluded.json")
    return json.load(open(p)) if os.path.exists(p) else []


def classify(rows, excluded=None):
    """-> (supported list of dict(row, syn, items, fields), unsupported list of (row, reason))"""
    sup, unsup = [], []
    exk = {(o["inst"], o["op"], o.get("t_index")) for o in (excluded or [])}   # t_index (optional): the entry holds only for that value of the size field
    for r in rows:
        cats = set(r["cat"])
        if ((r["inst"], r["opstr"], None) in exk or (r["inst"], r["opstr"], r.get("t_index")) in exk) and not r.get("revalidate"):
            r["excluded"] = True
            unsup.append((r, "DB row recorded as defective (corpus/C02/db_excluded.json): excluded from the model"))
            continue
        if cats & {"SVE", "SME"}:
            unsup.append((r, "SVE/SME: not implemented by a64::Assembler"))
            continue
        try:
            split_dup_fields(r)
            syn = parse_ops(r)
            bound = set()
            for s in syn:
                bound |= {d[0] for d in SYN_FIELDS[s[0]](s[1:])}
            missing = sorted(set(r["fields"].keys()) - bound)
            if missing and bound <= set(r["fields"].keys()):
                r2 = infer_fixed(r, missing)
                if r2 is not None:
                    r.clear()
                    r.update(r2)
            items = template_items(r)
            declared = []
            for s in syn:
                declared += SYN_FIELDS[s[0]](s[1:])
            names = [d[0] for d in declared]
            if len(set(names)) != len(names):
                raise Unsupported("field bound twice")
            for f, w in declared:
                if fwidth(r, f) != w:
                    raise Unsupported("field %s has %d bits, syntax needs %d" % (f, fwidth(r, f), w))
            if set(names) != set(r["fields"].keys()):
                raise Unsupported("opcode fields without operand: %s" % ",".join(sorted(set(r["fields"].keys()) - set(names))))
            for f, ss in r["fields"].items():      # slices must tile the field
                cov = sorted((s["from"], s["size"]) for s in ss)
                at = 0
                for frm, size in cov:
                    if frm != at:
                        raise Unsupported("field %s slices do not tile" % f)
                    at += size
            sup.append({"row": r, "syn": syn, "items": items, "fields": sorted(declared)})
        except Unsupported as e:
            unsup.append((r, str(e)))
    return sup, unsup


def numbering(sup):
    """mnemonic / field numbers. They are kept STABLE across growth of the model (corpus/C02/stable_ids.json: the numbering of the snapshot other
    properties' Coq files were written against - Labels/A64DbTie.v of C03 names mnemonic numbers); new names get the next free numbers."""
    mns = sorted({s["row"]["name"] for s in sup} | set(ALT_MNEMONIC.values()) | set(ALT_MNEMONIC.keys()))
    fns = sorted({f for s in sup for f, _ in s["fields"]})
    p = os.path.join(vlib.VERIF, "corpus", "C02", "stable_ids.json")
    st = json.load(open(p)) if os.path.exists(p) else {"mnemonics": {}, "fields": {}}

    def assign(names, fixed, key):
        out = {n: fixed[n] for n in names if n in fixed}
        nxt = max(list(fixed.values()) + [-1]) + 1
        for n in names:
            if n not in out:
                out[n] = nxt
                nxt += 1
        return out
    # field names with '*' are printed with 'x' in the header the stable file was read from
    ff = dict(st["fields"])
    fmap = assign(fns, {n: ff[n.replace("*", "x")] for n in fns if n.replace("*", "x") in ff}, "fields")
    return assign(mns, st["mnemonics"], "mnemonics"), fmap


def coq_bool(b):
    return "true" if b else "false"


def coq_z(v):
    return str(v) if v >= 0 else "(%d)" % v


def coq_syn(s, fid):
    args = []
    for k, a in enumerate(s[1:]):
        if s[0] in ("SVecList", "SVecListElem") and k == 0:
            args.append("%d%%nat" % a)
            continue
        if k in FIELD_ARGPOS[s[0]]:
            args.append(str(fid[a]))
        elif isinstance(a, bool):
            args.append(coq_bool(a))
        else:
            args.append(coq_z(a))
    return "%s %s" % (s[0], " ".join(args))


def coq_row(s, mn_id, fid):
    r = s["row"]
    items = "; ".join(("TFixed %d %d" % (it[1], it[2])) if it[0] == "F" else ("TField %d %d %d" % (fid[it[1]], it[2], it[3])) for it in s["items"])
    return "  (* %s *) {| r_id := %d; r_mn := %d; r_ops := [%s]; r_tmpl := [%s]; r_fields := [%s] |}" % (
        (r["inst"] + " | " + r["opstr"]).replace("(*", "( *").replace("*)", "* )"), r["idx"], mn_id[r["name"]],
        "; ".join(coq_syn(x, fid) for x in s["syn"]), items, "; ".join("(%d, %d)" % (fid[f], w) for f, w in s["fields"]))


def coq_text(sup, mn_id, fid, nchunk=100, exsup=()):
    L = []
    L.append("(* GENERATED by tools/c02_rows.py from /repo/db/isa_aarch64.json (via the repository's db/index.js). Do not edit.")
    L.append("   One row per supported form of the ISA database: mnemonic number, operand syntaxes, bit template, field widths.")
    L.append("   mnemonics: %s" % " ".join("%d=%s" % (i, n) for n, i in sorted(mn_id.items(), key=lambda x: x[1])))
    L.append("   fields: %s *)" % " ".join("%d=%s" % (i, n.replace("*", "x")) for n, i in sorted(fid.items(), key=lambda x: x[1])))
    L.append("From Coq Require Import ZArith List Bool.")
    L.append("From Verif Require Import A64.A64Tmpl A64.A64Sem.")
    L.append("Import ListNotations.")
    L.append("Local Open Scope Z_scope.")
    chunks = [sup[i:i + nchunk] for i in range(0, len(sup), nchunk)] or [[]]
    for ci, ch in enumerate(chunks):
        L.append("Definition rows_%d : list row := [" % ci)
        ents = []
        for s in ch:
            r = s["row"]
            items = "; ".join(("TFixed %d %d" % (it[1], it[2])) if it[0] == "F" else ("TField %d %d %d" % (fid[it[1]], it[2], it[3])) for it in s["items"])
            ents.append("  (* %s *) {| r_id := %d; r_mn := %d; r_ops := [%s]; r_tmpl := [%s]; r_fields := [%s] |}" % (
                (r["inst"] + " | " + r["opstr"]).replace("(*", "( *").replace("*)", "* )"), r["idx"], mn_id[r["name"]],
                "; ".join(coq_syn(x, fid) for x in s["syn"]), items,
                "; ".join("(%d, %d)" % (fid[f], w) for f, w in s["fields"])))
        L.append(";\n".join(ents))
        L.append("].")
    L.append("Definition rows : list row := %s." % " ++ ".join("rows_%d" % i for i in range(len(chunks))))
    L.append("(* rows recorded as defective in corpus/C02/db_excluded.json: translated only to re-validate on every run that they still disagree *)")
    L.append("Definition rows_excluded : list row := [")
    L.append(";\n".join(coq_row(s, mn_id, fid) for s in exsup))
    L.append("].")
    L.append("Definition mov_mn : Z := %d." % mn_id.get("mov", -1))
    L.append("Definition alt_table : list (Z * Z) := [%s]." % "; ".join("(%d, %d)" % (mn_id[a], mn_id[b]) for a, b in sorted(ALT_MNEMONIC.items())))
    L.append("Definition row_count : Z := %d." % len(sup))
    L.append("(* reflection: every row is well formed (32-bit template, fixed bits in range, slices tile their fields, every field is")
    L.append("   bound by exactly one operand syntax with the declared width) *)")
    L.append("Lemma rows_wf : forallb row_wf rows = true.")
    L.append("Proof. vm_compute. reflexivity. Qed.")
    L.append("Lemma rows_count : Z.of_nat (length rows) = row_count.")
    L.append("Proof. vm_compute. reflexivity. Qed.")
    L.append("(* every row's operand syntaxes are inverted by unbind1 and its hi register ids are SP/ZR: scope of C02_operands_recovered / C02_refusal_exact *)")
    L.append("Lemma rows_all_inv : forallb row_inv rows = true.")
    L.append("Proof. vm_compute. reflexivity. Qed.")
    L.append("(* every row satisfies the side conditions of canonical re-encoding: an omitted shift can be written LSL #0, lists are non-empty, the extended register is the last operand: scope of C02_canonical_reencodes *)")
    L.append("Lemma rows_canon_ok : forallb (fun r => canon_row_ok (r_ops r)) rows = true.")
    L.append("Proof. vm_compute. reflexivity. Qed.")
    nsimple = 0
    for e in sup:
        fs = [it for it in e["items"] if it[0] == "V"]
        if all(it[3] == 0 for it in fs) and len({it[1] for it in fs}) == len(fs):
            nsimple += 1
    BIJ = {"SGp", "SImmU", "SImmS", "SImmLt", "SImmConst", "SRel", "SMemOff", "SMemLit", "SVec", "SVecElem", "SSysReg", "SImmRsub", "SImmAff",
           "SMemPostImm", "SMemPostReg", "SSysOp", "SCond", "SShift", "SVShift", "SMemBase", "SGpPair", "SMovW",
           "SVecList", "SVecListElem", "SFpImm", "SAddImm", "SExtReg"}
    nbij = 0
    for e in sup:
        fs = [it for it in e["items"] if it[0] == "V"]
        if all(it[3] == 0 for it in fs) and len({it[1] for it in fs}) == len(fs) and all(sy[0] in BIJ for sy in e["syn"]):
            nbij += 1
    L.append("(* rows whose operand syntaxes are all bijective (syn_bij) and whose template is simple: scope of C02_image_characterised *)")
    L.append("Definition bij_rows_count : Z := %d." % nbij)
    L.append("Lemma bij_rows_counted : Z.of_nat (length (filter (fun r => forallb syn_bij (r_ops r) && tsimple (r_tmpl r)) rows)) = bij_rows_count.")
    L.append("Proof. vm_compute. reflexivity. Qed.")
    L.append("(* rows whose template writes every field as one whole slice: scope of C02_tmpl_complete_simple (the others split a field into slices) *)")
    L.append("Definition simple_rows_count : Z := %d." % nsimple)
    L.append("Lemma simple_rows_counted : Z.of_nat (length (filter (fun r => tsimple (r_tmpl r)) rows)) = simple_rows_count.")
    L.append("Proof. vm_compute. reflexivity. Qed.")
    L += coq_examples(sup, mn_id)
    return "\n".join(L) + "\n"


# non-vacuity: instruction-level test vectors (operands in the model's notation, expected words from llvm-mc 14, written down once)
EXAMPLES = [
    ("ex_add", "add", "[OGp true 1; OGp true 2; OGp true 3]", [0x8B030041]),
    ("ex_ldr_scaled", "ldr", "[OGp true 1; OMem 3 None 0 0 8 0]", [0xF9400461]),
    ("ex_ldr_falls_back_to_ldur", "ldr", "[OGp true 1; OMem 3 None 0 0 12 0]", [0xF840C061]),
    ("ex_mov_sequence", "mov", "[OGp true 1; OImm 0 305419896]", [0xD28ACF01, 0x72A24681]),
    ("ex_fmov_imm", "fmov", "[OVec 3 0 (-1) 1; OImm 256 4607182418800017408]", [0x1E6E1001]),
    ("ex_fcvtzs_fixed_point", "fcvtzs", "[OGp false 1; OVec 2 0 (-1) 2; OImm 0 4]", [0x1E18F041]),
    ("ex_ld2_lane", "ld2", "[OVec 4 1 1 1; OVec 4 1 1 2; OMem 3 None 0 0 0 0]", [0x0D600461]),
    ("ex_cmp", "cmp", "[OGp true 2; OGp true 3]", [0xEB03005F]),
    ("ex_refuses_bad_register", "add", "[OGp true 1; OGp true 40; OGp true 3]", None),
    ("ex_refuses_mixed_lanes", "ld2", "[OVec 4 1 1 1; OVec 4 1 2 2; OMem 3 None 0 0 0 0]", None),
    ("ex_refuses_fbits_33", "fcvtzs", "[OGp false 1; OVec 2 0 (-1) 2; OImm 0 33]", None),
]


def coq_examples(sup, mn_id):
    """Examples (vm_compute) that the specification is not vacuous: it produces the architectural words for a few instructions of different
    kinds (incl. the LDUR fall-back, the MOV sequence, an FP immediate, a lane list) and refuses invalid operands. Skipped for mnemonics
    that have no supported row in the current database."""
    L = ["(* ---- non-vacuity: the specification computes the architectural words (values cross-checked with llvm-mc 14) ---- *)",
         "Definition ex_words (o : option (Z * list Z)) : option (list Z) := match o with Some (_, ws) => Some ws | None => None end."]
    have = {e["row"]["name"] for e in sup}
    for name, mn, ops, words in EXAMPLES:
        if mn not in have or mn not in mn_id:
            continue
        want = "Some [%s]" % "; ".join(str(w) for w in words) if words is not None else "None"
        L.append("Example %s : ex_words (spec_a64 rows alt_table mov_mn %d %s) = %s." % (name, mn_id[mn], ops, want))
        L.append("Proof. vm_compute. reflexivity. Qed.")
    # canonical re-encoding on a real row: ADD Xd, Xn, Xm without a shift decodes to the explicit LSL #0 form, which encodes to the same word
    rid = {e["row"]["inst"]: e["row"]["idx"] for e in sup}.get("add Xd, Xn, Xm, {lsl|lsr|asr #n}")
    if rid is not None:
        L += ["Example ex_canonical_reencodes : match find (fun r => r_id r =? %d) rows with Some r =>" % rid,
              "    spec_row r [OGp true 1; OGp true 2; OGp true 3] = Some 2332229697 /\\",
              "    decode_row r 2332229697 = [OGp true 1; OGp true 2; OGp true 3; OImm 0 0] /\\",
              "    spec_row r (decode_row r 2332229697) = Some 2332229697 | None => False end.",
              "Proof. vm_compute. repeat split; reflexivity. Qed."]
    return L


def coq_disjoint_text(sup):
    """coq/gen/IsaA64Disjoint.v: pairwise disjointness of the rows. Rows whose fixed bits do not separate them are recorded (class 0 same
    mnemonic, 1 the database's aliasOf relation, 2 other: architectural aliases / a general form and its special cases); every other pair
    conflicts in a fixed bit (checked by reflection over all pairs)."""
    ov = overlap_pairs(sup)
    L = ["(* GENERATED by tools/c02_rows.py from /repo/db/isa_aarch64.json. Do not edit. *)",
         "From Coq Require Import ZArith List Bool.", "From Verif Require Import A64.A64Tmpl A64.A64Sem.", "From VerifGen Require Import IsaA64Db.",
         "Import ListNotations.", "Local Open Scope Z_scope.",
         "(* pairs of rows whose fixed bits do not separate them: (row id, row id, class) - 0 same mnemonic, 1 aliasOf relation of the database, 2 other *)",
         "Definition overlap_pairs : list (Z * Z * Z) := ["]
    L.append(";\n".join("  (%d, %d, %d)" % p[:3] for p in ov))
    L += ["].", "Definition overlap_count : Z := %d." % len(ov),
          "(* every two rows either have different fixed bits on a common fixed position, or are the same row, or are a recorded pair *)",
          "Lemma rows_pairwise : sigs_tails_ok overlap_pairs (map row_sig rows) = true.", "Proof. vm_compute. reflexivity. Qed.",
          "Lemma overlap_pairs_tight : overlap_tight overlap_pairs (map row_sig rows) = true.", "Proof. vm_compute. reflexivity. Qed.",
          "Lemma overlap_counted : Z.of_nat (length overlap_pairs) = overlap_count.", "Proof. vm_compute. reflexivity. Qed."]
    byinst = {e["row"]["inst"]: e["row"]["idx"] for e in sup}
    a, b_ = byinst.get("cmp Xn, Xm, {lsl|lsr|asr #n}"), byinst.get("subs Xd, Xn, Xm, {lsl|lsr|asr #n}")
    c = byinst.get("add Xd, Xn, Xm, {lsl|lsr|asr #n}")
    L.append("Definition row_by_id (i : Z) : option row := find (fun r => r_id r =? i) rows.")
    if a is not None and b_ is not None:
        L += ["(* non-vacuity of the 'recorded pair' alternative: CMP Xn, Xm and SUBS XZR, Xn, Xm are two rows with one word *)",
              "Example overlap_is_real : match row_by_id %d, row_by_id %d with Some r1, Some r2 =>" % (a, b_),
              "    spec_row r1 [OGp true 2; OGp true 3] = Some 3942842463 /\\ spec_row r2 [OGp true 63; OGp true 2; OGp true 3] = Some 3942842463 /\\",
              "    in_overlap overlap_pairs (r_id r1) (r_id r2) = true | _, _ => False end.",
              "Proof. vm_compute. repeat split; reflexivity. Qed."]
    if a is not None and c is not None:
        L += ["(* non-vacuity of the conflict alternative: ADD and CMP rows are separated by a fixed bit and are not a recorded pair *)",
              "Example conflict_is_real : match row_by_id %d, row_by_id %d with Some r1, Some r2 =>" % (c, a),
              "    sig_ok [] (row_sig r1) (row_sig r2) = true /\\ in_overlap overlap_pairs (r_id r1) (r_id r2) = false | _, _ => False end.",
              "Proof. vm_compute. split; reflexivity. Qed."]
    return "\n".join(L) + "\n", ov


def row_fixed(e):
    v = m = 0
    pos = 32
    for it in e["items"]:
        if it[0] == "F":
            pos -= it[1]; v |= it[2] << pos; m |= ((1 << it[1]) - 1) << pos
        else:
            pos -= it[2] - it[3] + 1
    return v, m


def overlap_pairs(sup):
    """-> [(id1, id2, class, name1, name2)] for the pairs (in list order) whose fixed bits do not conflict"""
    R = []
    for e in sup:
        v, m = row_fixed(e)
        r = e["row"]
        al = {r["name"]} | set((r.get("aliasOf") or "").replace("|", " ").split())
        R.append((r["idx"], r["name"], v, m, al))
    out = []
    for i in range(len(R)):
        a = R[i]
        for j in range(i + 1, len(R)):
            b_ = R[j]
            if (a[2] ^ b_[2]) & a[3] & b_[3] == 0:
                cls = 0 if a[1] == b_[1] else (1 if a[4] & b_[4] else 2)
                out.append((a[0], b_[0], cls, a[1], b_[1]))
    return out


def build(repo=None):
    rows = load_rows(repo)
    applied = apply_overrides(rows, load_overrides())
    rows = expand_simd(rows)
    excluded = load_excluded()
    sup, unsup = classify(rows, excluded)
    # the excluded rows are translated too (separate list rows_excluded, never used by spec_a64) so that every run can re-validate that
    # each of them still disagrees with the assembler and llvm-mc (a stale exclusion is reported)
    exrows = [dict(json.loads(json.dumps(r)), revalidate=True) for r, _ in unsup if r.get("excluded")]
    exsup, _ = classify(exrows, excluded)
    present = {(r["inst"], r["opstr"], None) for r in rows} | {(r["inst"], r["opstr"], r.get("t_index")) for r in rows}
    excluded_applied = [o for o in excluded if (o["inst"], o["op"], o.get("t_index")) in present]
    # rows are tried in list order: DB order, except that the extended-register forms of ADD/SUB/CMP/CMN come after the
    # shifted-register forms of the same mnemonic (an assembler uses the extended form only when the shifted one cannot take
    # the operands: SP as Rd/Rn or an explicit extend)
    sup.sort(key=lambda e: (e["row"]["name"], 1 if any(s[0] == "SExtReg" for s in e["syn"]) else 0, e["row"]["idx"]))
    mn_id, fid = numbering(sup + exsup)
    return {"rows": rows, "sup": sup, "unsup": unsup, "mn_id": mn_id, "fid": fid, "applied": applied, "excluded": excluded_applied, "exsup": exsup,
            "coq": coq_text(sup, mn_id, fid, exsup=exsup), "coq_disjoint": coq_disjoint_text(sup)[0], "overlap": overlap_pairs(sup)}


if __name__ == "__main__":
    import sys
    import collections
    b = build()
    print("rows %d supported %d unsupported %d" % (len(b["rows"]), len(b["sup"]), len(b["unsup"])))
    c = collections.Counter(re.sub(r" \S+$", "", reason) if reason.startswith(("operand syntax", "field", "opcode fields", "immediate")) else reason for _, reason in b["unsup"])
    for k, v in c.most_common(40):
        print("  %5d %s" % (v, k))
    if len(sys.argv) > 1 and sys.argv[1] == "--write":
        open(os.path.join(vlib.COQ, "gen", "IsaA64Db.v"), "w").write(b["coq"])
        open(os.path.join(vlib.COQ, "gen", "IsaA64Disjoint.v"), "w").write(b["coq_disjoint"])
    if len(sys.argv) > 1 and sys.argv[1] == "--gp":
        for r, reason in b["unsup"]:
            if "GP" in r["cat"]:
                print("%-60s %s" % (r["inst"], reason))

"""C06: native execution of emitted x86-64 shuffles on the host (harness command X, harness/c06_native.h).  The CPU's final register /
frame contents are compared with (1) the python simulator started from the same state (validates the simulator's instruction semantics)
and (2) the requirement of every move (confirms wrong values natively)."""
import c06_shuffle as SH

GP_OFF, YMM_OFF, FRAME_OFF, FRAME = 0, 128, 640, 1024
BLOB = 128 + 512 + 1024


def eligible(S, mvs):
    """only straight SP-based frames: no dynamic alignment, no frame pointer, every touched stack byte inside the 1024-byte window"""
    if S.get("arch") not in (0, 1) or S["status"] != "ok" or S.get("da") or S["sareg"] != S["sp"]:
        return False
    if S.get("arch") == 0 and not S.get("same_in_long_mode"):
        return False          # i386 code is run on the x86-64 host only when llvm-mc decodes the same bytes to the same instructions in 64-bit mode
    for m, ops in S["insts"]:
        for o in ops:
            if o[0] == "?": return False
            if o[0] == "m":
                if o[2] != S["sp"] or o[3] < 0 or o[3] + max(o[1] // 8, 1) > FRAME: return False
                if m in SH.ALIGNED and o[1] and o[3] % (o[1] // 8) != 0: return False      # would fault (#GP) on the host: reported by the simulator instead
            if o[0] == "r" and o[1] == 1 and (o[3] > 256 or o[2] > 15): return False      # no zmm / xmm16+ (plain AVX save area)
            if o[0] == "r" and o[1] in (2, 3): return False
    for mv in mvs:
        if mv["src"][0] == "M" and not (0 <= S["saoff_sp"] + mv["src"][2] and S["saoff_sp"] + mv["src"][2] + 64 <= FRAME): return False
        if mv["dst"][0] == "M" and not (0 <= mv["dst"][2] and mv["dst"][2] + 64 <= min(FRAME, S["saoff_sp"])): return False
    return True


def make_blob(rng):
    b = bytearray(rng.getrandbits(8) | 0x80 if k % 3 else rng.getrandbits(8) for k in range(BLOB))
    return bytes(b)


def simulate_from(S, mvs, blob):
    """run the python simulator from the state described by the blob; returns the final blob it predicts (same layout)"""
    import random
    M = SH.Machine(S, random.Random(0))
    for i in range(16):
        v = int.from_bytes(blob[GP_OFF + 8 * i: GP_OFF + 8 * i + 8], "little")
        M.regs[(0, i)] = v; M.init_regs[(0, i)] = v
        y = int.from_bytes(blob[YMM_OFF + 32 * i: YMM_OFF + 32 * i + 32], "little")
        M.regs[(1, i)] = y; M.init_regs[(1, i)] = y
    frame = blob[FRAME_OFF:FRAME_OFF + FRAME]
    sa = S["saoff_sp"]
    for k in range(FRAME):
        M.mem[1][k] = frame[k]
        M.mem[0][k - sa] = frame[k]
    for inst in S["insts"]:
        M.step(inst)
    out = bytearray(blob)
    for i in range(16):
        out[GP_OFF + 8 * i: GP_OFF + 8 * i + 8] = (M.regs[(0, i)] & (2 ** 64 - 1)).to_bytes(8, "little")
        out[YMM_OFF + 32 * i: YMM_OFF + 32 * i + 32] = (M.regs[(1, i)] & (2 ** 256 - 1)).to_bytes(32, "little")
    for k in M.stored:
        if 0 <= k < FRAME:
            out[FRAME_OFF + k] = M.mem[1][k]
    out[GP_OFF + 32: GP_OFF + 40] = bytes(8)          # rsp slot is reported as 0
    return bytes(out)


def read_loc(S, blob, loc, nbits):
    if loc[0] == "R":
        if loc[1] == 0: return int.from_bytes(blob[GP_OFF + 8 * loc[2]: GP_OFF + 8 * loc[2] + 8], "little") & ((1 << nbits) - 1)
        return int.from_bytes(blob[YMM_OFF + 32 * loc[2]: YMM_OFF + 32 * loc[2] + 32], "little") & ((1 << nbits) - 1)
    off = loc[2] + (S["saoff_sp"] if loc[1] == 0 else 0)
    return int.from_bytes(blob[FRAME_OFF + off: FRAME_OFF + off + nbits // 8], "little")


def wrong_moves(S, mvs, blob_in, blob_out):
    """moves whose destination does not hold the required value after the NATIVE run"""
    bad = []
    for mv in mvs:
        v0 = read_loc(S, blob_in, mv["src"], mv["sbits"])
        if mv["int"] and mv["sbits"] < mv["dbits"]:
            want = (SH.sext(v0, mv["sbits"]) if mv["signed"] else v0) & ((1 << mv["dbits"]) - 1); nb = mv["dbits"]
        else:
            nb = min(mv["sbits"], mv["dbits"]); want = v0 & ((1 << nb) - 1)
        if nb > 256: continue
        got = read_loc(S, blob_out, mv["dst"], nb)
        if got != want:
            bad.append((mv, got, want))
    return bad

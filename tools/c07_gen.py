"""C07 frame generator: cross product aimed at the case splits of finalize / prolog / epilog and of the proofs.

A frame command:  F arch plat cc nargs attrs d0 d1 d2 d3 lsize lalign csize calign sareg
(see harness/c07_harness.cpp).  Deterministic for a given random.Random."""

ARCH_X86, ARCH_X64, ARCH_A64 = 0, 1, 2
CC_IDS = [0, 1, 2, 3, 4, 5, 6, 7, 16, 17, 18, 30, 31, 32, 33]
ATTR_FP, ATTR_CALLS, ATTR_IBP, ATTR_AVX, ATTR_AVX512, ATTR_MMXC, ATTR_AVXC, ATTR_AVXAC = 1, 2, 4, 8, 16, 32, 64, 128

SIZES = [0, 1, 4, 8, 12, 15, 16, 17, 24, 31, 32, 33, 40, 48, 63, 64, 65, 100, 120, 128, 255, 256, 4088, 4095, 4096, 4097, 4104,
         8192, 65528, 65535, 65536, 70000, 1 << 20, (1 << 24) - 16, (1 << 24)]
ALIGNS = [0, 1, 2, 4, 8, 16, 32, 64]


def valid_cc(arch, cc):
    if arch == ARCH_X86:
        return cc in (0, 1, 2, 3, 4, 5, 6, 7, 16, 17, 18)
    if arch == ARCH_X64:
        return cc in (0, 1, 2, 3, 4, 5, 6, 7, 16, 17, 18, 32, 33)
    return cc in (0, 1, 2, 3, 4, 5, 6, 7, 16, 17, 18, 30, 31, 32, 33)


def nregs(arch, group):
    if arch == ARCH_A64:
        return 32 if group in (0, 1) else 0
    if arch == ARCH_X86:
        return 8
    return [16, 32, 8, 8][group]


def gen_mask(rng, arch, group, preserved_guess):
    """dirty mask classes: empty, one low, one high, FP only, all preserved, all, random, random subset of preserved"""
    n = nregs(arch, group)
    if n == 0:
        return 0
    full = (1 << n) - 1
    k = rng.randrange(10)
    if k == 0:
        return 0
    if k == 1:
        return 1 << rng.randrange(min(n, 4))
    if k == 2:
        return 1 << (n - 1 - rng.randrange(min(n, 4)))
    if k == 3 and group == 0:
        return 1 << (29 if arch == ARCH_A64 else 5)
    if k == 4:
        return preserved_guess & full
    if k == 5:
        return full
    if k in (6, 7):
        m = rng.getrandbits(n)
        return m
    # random subset of the preserved registers (dense in what gets saved)
    m = 0
    for i in range(n):
        if (preserved_guess >> i) & 1 and rng.random() < 0.5:
            m |= 1 << i
    return m | (rng.getrandbits(n) & rng.getrandbits(n) & rng.getrandbits(n))


def preserved_guess(arch, plat, cc, group):
    """only a hint for the generator (density of saved registers); NOT used by any oracle"""
    if arch == ARCH_A64:
        if cc <= 7:
            return [0x7FFC0000, 0xFF00, 0, 0][group]
        return [0x7FFFFFF0, 0xFFFFFFF0, 0, 0][group]
    if arch == ARCH_X86:
        return [0xFF if cc >= 16 else 0xE8, 0xFC if cc >= 16 else 0, 0, 0][group]
    if cc >= 16 and cc <= 18:
        return [0xFFEF, 0xFFFFFFF0, 0, 0][group]
    win = cc in (3, 33) or (plat == 1 and cc != 32)
    return [0xF0E8 if win else 0xF028, 0xFFC0 if win else 0, 0, 0][group]


def gen_frame(rng, arch=None, tier="quick"):
    arch = rng.randrange(3) if arch is None else arch
    plat = rng.choice([0, 0, 1, 1, 2])
    cc = rng.choice(CC_IDS)
    while not valid_cc(arch, cc) and rng.random() < 0.97:
        cc = rng.choice(CC_IDS)
    nargs = rng.choice([0, 0, 1, 2, 3, 4, 5, 6, 7, 8, 9, 10, 12, 16])
    attrs = 0
    if rng.random() < 0.45: attrs |= ATTR_FP
    if rng.random() < 0.4: attrs |= ATTR_CALLS
    if rng.random() < 0.15: attrs |= ATTR_IBP
    if arch != ARCH_A64:
        r = rng.random()
        if r < 0.25: attrs |= ATTR_AVX
        elif r < 0.40: attrs |= ATTR_AVX | ATTR_AVX512
        elif r < 0.47: attrs |= ATTR_AVX512
        if rng.random() < 0.1: attrs |= ATTR_MMXC
        if rng.random() < 0.1: attrs |= ATTR_AVXC
        if rng.random() < 0.15: attrs |= ATTR_AVXAC
    dirty = [gen_mask(rng, arch, g, preserved_guess(arch, plat, cc, g)) for g in range(4)]
    if arch == ARCH_X64 and not (attrs & ATTR_AVX512):
        dirty[1] &= 0xFFFF           # xmm16..31 do not exist without AVX-512
        dirty[2] = 0 if rng.random() < 0.8 else dirty[2]
    lsize = rng.choice(SIZES) if rng.random() < 0.7 else rng.randrange(0, 70000)
    csize = rng.choice(SIZES[:28]) if rng.random() < 0.6 else rng.randrange(0, 5000)
    if rng.random() < 0.012:
        # out of the proven range (call + local > 2^31 - 2^16): uint32 wrap-around / imm32 limits
        lsize = rng.choice([0x7FFF0001, 0x7FFFF000, 0x80000000, 0x80000010, 0xC0000000, 0xFFFFFFC0, 0xFFFFFFFF])
    if rng.random() < 0.35 and lsize < 0x7FFF0000: lsize = 0
    if rng.random() < 0.45: csize = 0
    lalign = rng.choice(ALIGNS)
    calign = rng.choice(ALIGNS)
    if rng.random() < 0.4: lalign = 0
    if rng.random() < 0.5: calign = 0
    sareg = 255
    if rng.random() < 0.2:
        n = nregs(arch, 0)
        sareg = rng.randrange(n)
        if sareg == (31 if arch == ARCH_A64 else 4):
            sareg = 255
    return "F %d %d %d %d %d %d %d %d %d %d %d %d %d %d" % (arch, plat, cc, nargs, attrs, dirty[0], dirty[1], dirty[2], dirty[3],
                                                           lsize, lalign, csize, calign, sareg)


def corner_frames():
    """hand-picked frames (alignment / size boundaries, every convention once with everything dirty)"""
    out = []
    for arch in (0, 1, 2):
        for plat in (0, 1, 2):
            for cc in CC_IDS:
                if not valid_cc(arch, cc):
                    out.append("F %d %d %d 0 0 0 0 0 0 0 0 0 0 255" % (arch, plat, cc))
                    continue
                full = [(1 << nregs(arch, g)) - 1 for g in range(4)]
                for attrs in (0, 1, 2, 3):
                    if arch == ARCH_X64:
                        a2 = attrs | ATTR_AVX | ATTR_AVX512
                    else:
                        a2 = attrs
                    out.append("F %d %d %d 6 %d %d %d %d %d 0 0 0 0 255" % (arch, plat, cc, a2, full[0], full[1], full[2], full[3]))
                    out.append("F %d %d %d 9 %d 0 0 0 0 0 0 0 0 255" % (arch, plat, cc, attrs))
                    out.append("F %d %d %d 9 %d %d %d 0 0 40 32 24 0 255" % (arch, plat, cc, a2, full[0], full[1]))
                    out.append("F %d %d %d 9 %d %d %d 0 0 40 0 24 64 255" % (arch, plat, cc, a2, full[0], full[1]))
    return out + boundary_frames()


def boundary_frames():
    """round 5: frames ON the case-split boundaries of the model / the proofs (both sides of every threshold):
    finalize_error's size limit, a64_adjust's immediates (4095 | 4096, 16777215 | 16777216), x86 restore-sp arms (mov sp,bp | lea |
    add | load of the DA slot | nothing), alignment arms (natural | lowered to natural | dynamic), ret | ret n, odd/even pair counts"""
    out = []
    LIM = 0x7FFF0000
    for arch in (0, 1, 2):
        cc = 0
        for (ls, cs) in ((LIM, 0), (LIM - 4096, 4096), (LIM + 1, 0), (LIM - 4095, 4096), (LIM - 16, 16), (LIM - 15, 16), (0, LIM), (1, LIM),
                         (0xFFFFFFFF, 0xFFFFFFFF), (0x80000000, 0x80000000)):
            if arch == 0 and ls + cs <= LIM:
                continue        # a 2 GiB frame does not fit below the scenario's 32-bit entry sp: only the refused side on x86-32
            for attrs in (0, 1, 3):
                out.append("F %d 0 %d 2 %d 8 0 0 0 %d 0 %d 0 255" % (arch, cc, attrs, ls, cs))
    # AArch64 sub/add sp immediates: stack adjustment on both sides of 4095/4096 and 16777215/16777216, with and without saves / FP
    for ls in (4064, 4079, 4080, 4081, 4095, 4096, 4097, 4112, 8191, 8192, 16777184, 16777199, 16777200, 16777201, 16777215, 16777216, 16777217, 16777232):
        for attrs in (0, 1, 2, 3):
            for d0, d1 in ((0, 0), (1 << 19, 0), (0x180000, 0x100), (0x380000, 0x300), (0x7FF80000, 0xFF00)):
                out.append("F 2 0 0 2 %d %d %d 0 0 %d 0 0 0 255" % (attrs, d0, d1, ls))
                out.append("F 2 0 0 2 %d %d %d 0 0 %d 16 32 16 9" % (attrs, d0, d1, max(ls - 32, 0)))
    # x86 / x64: every restore-sp arm and every alignment arm, callee-pops conventions, 0..3 pushed registers
    for arch in (0, 1):
        for cc in (0, 1, 2):
            for attrs in (0, 1, 2, 3):
                for d0 in (0, 8, 0x48, 0xC8):
                    for (ls, la) in ((0, 0), (8, 4), (8, 8), (16, 16), (40, 32), (40, 64)):
                        for cs in (0, 32):
                            out.append("F %d 0 %d 3 %d %d 0 0 0 %d %d %d 0 255" % (arch, cc, attrs, d0, ls, la, cs))
                            out.append("F %d 1 %d 3 %d %d %d 0 0 %d %d %d 0 6" % (arch, cc, attrs | 8, d0, 0xC0 if arch else 0, ls, la, cs))
    return out

"""C17: the C++ regions the Gallina models were TRANSCRIBED from by hand, as normalised text.

`extract(repo)` cuts every region out of the working tree (comments stripped, whitespace collapsed); the check compares it
with the committed snapshot tools/c17_transcribed.snapshot.json (made from the tree the transcription describes).  A
difference does not say the code is wrong -- the correspondence stream and the theorems decide that -- it says WHICH hand
transcription is stale, by function name and first differing statement, so that a broken correspondence is localised at once.
Regenerate the snapshot only after re-reading the changed function against its model:  python3 tools/c17_transcribed.py --write
"""
import json
import os
import re
import sys

SNAP = os.path.join(os.path.dirname(os.path.abspath(__file__)), "c17_transcribed.snapshot.json")

# (name, file, start regex, model file that transcribes it)
REGIONS = [
    ("encode_offset32", "asmjit/core/codewriter.cpp", r"bool CodeWriterUtils::encode_offset32\(", "Codec/OffsetModel.v, Codec/T32FixModel.v"),
    ("encode_offset64", "asmjit/core/codewriter.cpp", r"bool CodeWriterUtils::encode_offset64\(", "Codec/OffsetModel.v"),
    ("write_offset", "asmjit/core/codewriter.cpp", r"bool CodeWriterUtils::write_offset\(", "Codec/OffsetModel.v"),
    ("is_encodable_offset_32", "asmjit/core/emitterutils_p.h", r"bool is_encodable_offset_32\(", "Codec/RangeModel.v"),
    ("is_encodable_offset_64", "asmjit/core/emitterutils_p.h", r"bool is_encodable_offset_64\(", "Codec/RangeModel.v"),
    ("is_int_n", "asmjit/support/support.h", r"constexpr bool is_int_n\(", "Codec/RangeModel.v"),
    ("is_uint_n", "asmjit/support/support.h", r"constexpr bool is_uint_n\(", "Codec/RangeModel.v"),
    ("encode_aarch32_imm", "asmjit/arm/armutils.h", r"bool encode_aarch32_imm\(", "Codec/OffsetModel.v"),
    ("encode_logical_imm", "asmjit/arm/armutils.h", r"bool encode_logical_imm\(", "Codec/ImmModel.v"),
    ("is_add_sub_imm", "asmjit/arm/armutils.h", r"bool is_add_sub_imm\(", "Codec/ImmModel.v"),
    ("is_byte_mask_imm", "asmjit/arm/armutils.h", r"bool is_byte_mask_imm\(", "Codec/ImmModel.v"),
    ("encode_imm64_byte_mask_to_imm8", "asmjit/arm/armutils.h", r"uint32_t encode_imm64_byte_mask_to_imm8\(", "Codec/ImmModel.v"),
    ("is_fp_imm8_generic", "asmjit/arm/armutils.h", r"bool is_fp_imm8_generic\(", "Codec/ImmModel.v"),
    ("encode_fp_to_imm8_generic", "asmjit/arm/armutils.h", r"uint32_t encode_fp_to_imm8_generic\(", "Codec/ImmModel.v"),
    ("encode_mov_sequence_32", "asmjit/arm/a64assembler.cpp", r"uint32_t encode_mov_sequence_32\(", "Codec/ImmModel.v"),
    ("encode_mov_sequence_64", "asmjit/arm/a64assembler.cpp", r"uint32_t encode_mov_sequence_64\(", "Codec/ImmModel.v"),
    ("encode_lmh", "asmjit/arm/a64assembler.cpp", r"bool encode_lmh\(", "Codec/ImmModel.v"),
    ("a64 case BaseBfc", "asmjit/arm/a64assembler.cpp", r"case InstDB::kEncodingBaseBfc: ", "Codec/BitfieldModel.v"),
    ("a64 case BaseBfi", "asmjit/arm/a64assembler.cpp", r"case InstDB::kEncodingBaseBfi: ", "Codec/BitfieldModel.v"),
    ("a64 case BaseBfm", "asmjit/arm/a64assembler.cpp", r"case InstDB::kEncodingBaseBfm: ", "Codec/BitfieldModel.v"),
    ("a64 case BaseBfx", "asmjit/arm/a64assembler.cpp", r"case InstDB::kEncodingBaseBfx: ", "Codec/BitfieldModel.v"),
    ("x86 emit_imm_byte_or_dword", "asmjit/x86/x86assembler.cpp", r"void emit_imm_byte_or_dword\(", "Codec/X86ImmModel.v"),
    ("x86 emit_immediate", "asmjit/x86/x86assembler.cpp", r"void emit_immediate\(", "Codec/X86ImmModel.v"),
]
# x86 / a64 cases without their own braces: from the label to the next `case InstDB::`
CASE_REGIONS = [
    ("x86 case X86Arith", "asmjit/x86/x86assembler.cpp", "case InstDB::kEncodingX86Arith:", "Codec/X86ImmModel.v"),
    ("x86 case X86Test", "asmjit/x86/x86assembler.cpp", "case InstDB::kEncodingX86Test:", "Codec/X86ImmModel.v"),
    ("x86 case X86Mov", "asmjit/x86/x86assembler.cpp", "case InstDB::kEncodingX86Mov:", "Codec/X86ImmModel.v"),
    ("x86 case X86Imul", "asmjit/x86/x86assembler.cpp", "case InstDB::kEncodingX86Imul:", "Codec/X86ImmModel.v"),
    ("x86 case X86Push", "asmjit/x86/x86assembler.cpp", "case InstDB::kEncodingX86Push:", "Codec/X86ImmModel.v"),
    ("x86 case X86Rot", "asmjit/x86/x86assembler.cpp", "case InstDB::kEncodingX86Rot:", "Codec/X86ImmModel.v"),
    ("x86 case X86ShldShrd", "asmjit/x86/x86assembler.cpp", "case InstDB::kEncodingX86ShldShrd:", "Codec/X86ImmModel.v"),
    ("a64 case BaseShift", "asmjit/arm/a64assembler.cpp", "case InstDB::kEncodingBaseShift:", "Codec/BitfieldModel.v"),
]


def _strip(src):
    src = re.sub(r"/\*.*?\*/", " ", src, flags=re.S)
    return re.sub(r"//[^\n]*", "", src)


def _norm(s):
    return " ".join(s.split())


def _braced(src, start):
    i = src.index("{", start)
    depth = 0
    j = i
    while True:
        c = src[j]
        if c == "{":
            depth += 1
        elif c == "}":
            depth -= 1
            if depth == 0:
                return src[start:j + 1]
        j += 1


def extract(repo):
    out = {}
    cache = {}
    for (name, rel, rx, model) in REGIONS:
        if rel not in cache:
            cache[rel] = _strip(open(os.path.join(repo, rel)).read())
        src = cache[rel]
        m = re.search(rx, src)
        out[name] = {"file": rel, "model": model, "text": None if not m else _norm(_braced(src, m.start()))}
    for (name, rel, label, model) in CASE_REGIONS:
        if rel not in cache:
            cache[rel] = _strip(open(os.path.join(repo, rel)).read())
        src = cache[rel]
        i = src.find(label)
        if i < 0:
            out[name] = {"file": rel, "model": model, "text": None}
            continue
        j = src.find("case InstDB::", i + len(label))
        out[name] = {"file": rel, "model": model, "text": _norm(src[i:j])}
    return out


def compare(repo):
    """Returns a list of (name, model_file, description) for regions whose text differs from the snapshot."""
    now = extract(repo)
    snap = json.load(open(SNAP))
    diffs = []
    for name, cur in now.items():
        old = snap.get(name, {}).get("text")
        if cur["text"] == old:
            continue
        if cur["text"] is None:
            diffs.append((name, cur["model"], "region not found in %s any more" % cur["file"]))
            continue
        if old is None:
            diffs.append((name, cur["model"], "region has no snapshot"))
            continue
        a = [x.strip() for x in re.split(r"(?<=[;{}])", old)]
        b = [x.strip() for x in re.split(r"(?<=[;{}])", cur["text"])]
        k = 0
        while k < min(len(a), len(b)) and a[k] == b[k]:
            k += 1
        diffs.append((name, cur["model"], "first differing statement: transcribed from %r, now %r" % (
            a[k] if k < len(a) else "<end>", b[k] if k < len(b) else "<end>")))
    return diffs, len(now)


if __name__ == "__main__":
    repo = "/repo"
    args = [a for a in sys.argv[1:] if not a.startswith("--")]
    if args:
        repo = args[0]
    if "--write" in sys.argv:
        json.dump(extract(repo), open(SNAP, "w"), indent=1, sort_keys=True)
        print("snapshot written: %d regions" % len(extract(repo)))
    else:
        d, n = compare(repo)
        print("%d regions, %d differ" % (n, len(d)))
        for x in d:
            print(x)

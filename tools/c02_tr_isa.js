// C02 translator, stage 1: /repo/db (the repository's own loader db/index.js + db/aarch64.js) -> JSON rows on stdout.
// usage: node c02_tr_isa.js <repo>
"use strict";
const fs = require("fs");
const path = require("path");
const repo = process.argv[2] || "/repo";
const db = require(path.join(repo, "db"));
const raw = JSON.parse(fs.readFileSync(path.join(repo, "db", "isa_aarch64.json"), "utf8"));
const isa = new db.aarch64.ISA(raw);
const out = [];
let idx = 0;
for (const i of isa.instructions) {
  const fields = {};
  for (const k of Object.keys(i.fields)) fields[k] = i.fields[k].values.map(v => ({ pos: v.index, from: v.from, size: v.size }));
  out.push({
    idx: idx++, name: i.name, aliasOf: i.aliasOf || "", ops: i.operands.map(o => o.data), opstr: i.opcodeString,
    value: i.opcodeValue >>> 0, fields: fields, imm: (typeof i.imm === "object" && i.imm) ? String(i.imm) : "",
    ext: Object.keys(i.ext || {}), cat: Object.keys(i.category || {})
  });
}
// raw "imm" attribute strings and the original "inst" text: matched by (name, opcode string, operand text)
const rawMap = new Map();
for (const g of raw.instructions) for (const r of g.data) {
  const m = r.inst.match(/^[\w\|]+/)[0];
  const rest = r.inst.substring(m.length);
  const sp = rest.indexOf(" ");
  const suffix = sp === -1 ? rest.trim() : rest.substring(0, sp).trim();
  const opers = sp === -1 ? "" : rest.substring(sp + 1).trim();
  for (const nm of m.split("|")) {
    const key = nm + suffix + "\u0001" + r.op + "\u0001" + opers.replace(/\s+/g, "");
    if (rawMap.has(key)) rawMap.get(key).dup = true;
    rawMap.set(key, { imm: r.imm || "", inst: r.inst, group_ext: g.ext || "", t: r.t || "", tatb: r["ta.tb"] || "" });
  }
}
let missing = 0;
for (const o of out) {
  const i = isa.instructions[o.idx];
  const key = o.name + "\u0001" + o.opstr + "\u0001" + (i.operandsString !== undefined ? i.operandsString : "").replace(/\s+/g, "");
  let r = rawMap.get(key);
  if (!r) { // fall back: match on name + opcode string only (must be unique)
    const c = [...rawMap.entries()].filter(([k, v]) => k.startsWith(o.name + "\u0001" + o.opstr + "\u0001"));
    if (c.length >= 1) { r = c[0][1]; if (c.length > 1) r = c.find(([k, v]) => k.endsWith("\u0001" + o.ops.join(",").replace(/\s+/g, "")))?.[1] || null; }
  }
  if (!r) { missing++; o.immraw = ""; o.inst = ""; o.t = ""; } else { o.immraw = r.imm; o.inst = r.inst; o.t = r.t || r.tatb || ""; }
}
if (missing) { console.error("rows without raw match: " + missing); process.exit(3); }
process.stdout.write(JSON.stringify(out));

// C13: expands the x86 ISA database of the repository with the repository's own db/index.js and prints one JSON line per form.
// usage: node c13_dbforms.js <repo>
const fs = require("fs"); const path = require("path");
const repo = process.argv[2] || "/repo";
const db = require(path.join(repo, "db"));
const isa = new db.x86.ISA(JSON.parse(fs.readFileSync(path.join(repo, "db", "isa_x86.json"))));
for (const i of isa.instructions) {
  const ops = i.operands.map(o => ({ data: o.data, reg: o.reg, regType: o.regType, mem: o.mem, memSize: o.memSize, imm: o.imm, immSign: o.immSign,
    immValue: o.immValue, rel: o.rel, implicit: !!o.implicit, optional: !!o.optional, memSeg: o.memSegment || "", memOff: !!o.memOff, memFar: !!o.memFar,
    vsibReg: o.vsibReg || "", bcstSize: o.bcstSize || 0, memRegOnly: !!o.memRegOnly, regIndexRel: o.regIndexRel || 0 }));
  console.log(JSON.stringify({ name: i.name, arch: i.arch, encoding: i.encoding, opcode: i.opcodeString, operands: ops, k: !!i.k, kmask: !!i.kmask, zmask: !!i.zmask,
    er: !!i.er, sae: !!i.sae, broadcast: !!i.broadcast, bcstSize: i.bcstSize || 0, prefixes: i.prefixes || {}, aliasOf: i.aliasOf || "", deprecated: !!i.deprecated,
    ext: Object.keys(i.ext || {}) }));
}

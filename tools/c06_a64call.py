"""C06 (e): AArch64 call sites without an AArch64 CPU.  The harness (command K) builds a caller with a64::Compiler that passes immediates and
virtual registers to a callee and returns the assembled bytes; llvm-mc disassembles them and this byte-level interpreter runs the straight-line
code up to the BLR, where x0-x7 / d0-d7 and the outgoing stack area at SP are compared with what AAPCS64 (or Apple's variant) prescribes for the
signature.  The interpreter is written from the Arm ARM for the handful of instructions a call sequence consists of; anything else makes the case
'unmodelled' (counted, never silently accepted)."""
import re
import subprocess

M64 = (1 << 64) - 1
SP0 = 0x40000000


class Unmodelled(Exception):
    pass


def split_ops(txt):
    out, depth, cur = [], 0, ""
    for ch in txt:
        if ch == "[": depth += 1
        if ch == "]": depth -= 1
        if ch == "," and depth == 0:
            out.append(cur.strip()); cur = ""
        else:
            cur += ch
    if cur.strip(): out.append(cur.strip())
    return out


def disassemble(byte_strings):
    if not byte_strings: return []
    sep = " 0x00 0x00 0x00 0x00"
    blob = [" ".join("0x" + bs[i:i + 2] for i in range(0, len(bs), 2)) + sep for bs in byte_strings]
    p = subprocess.run(["llvm-mc", "--disassemble", "-triple=aarch64", "-mattr=+neon,+fp-armv8"], input="\n".join(blob) + "\n",
                       stdout=subprocess.PIPE, stderr=subprocess.PIPE, text=True, timeout=600)
    out = [[]]
    for line in p.stdout.split("\n"):
        line = line.split("//")[0].strip()
        if not line or line.startswith("."): continue
        parts = line.split(None, 1)
        if parts[0] == "udf":
            out.append([]); continue
        out[-1].append((parts[0], split_ops(parts[1]) if len(parts) > 1 else []))
    out.pop()
    if len(out) != len(byte_strings) or p.returncode != 0:
        raise RuntimeError("llvm-mc: %d in, %d out: %s" % (len(byte_strings), len(out), p.stderr[-300:]))
    return out


def imm(t):
    t = t.strip()
    if not t.startswith("#"): raise Unmodelled("immediate " + t)
    return int(t[1:], 0)


class Cpu:
    def __init__(self):
        self.x = {i: (0xBAD0000000000000 | (i << 8)) for i in range(31)}
        self.v = {i: 0x7E57000000000000 | i for i in range(32)}
        self.sp = SP0
        self.mem = {}
        self.written = set()
        self.stores = []          # (address, bytes) of every store executed

    # ---- registers
    def rd(self, name):
        name = name.strip()
        if name == "sp": return self.sp
        if name in ("xzr", "wzr"): return 0
        k, n = name[0], int(name[1:])
        if k == "x": return self.x[n]
        if k == "w": return self.x[n] & 0xFFFFFFFF
        if k == "d": return self.v[n] & M64
        if k == "s": return self.v[n] & 0xFFFFFFFF
        if k == "q": return self.v[n]
        raise Unmodelled("register " + name)

    def wr(self, name, val):
        name = name.strip()
        if name == "sp": self.sp = val & M64; return
        if name in ("xzr", "wzr"): return
        k, n = name[0], int(name[1:])
        if k == "x": self.x[n] = val & M64
        elif k == "w": self.x[n] = val & 0xFFFFFFFF            # a W write zeroes bits 63:32
        elif k == "d": self.v[n] = val & M64                   # scalar FP writes zero the rest of the vector register
        elif k == "s": self.v[n] = val & 0xFFFFFFFF
        elif k == "q": self.v[n] = val & ((1 << 128) - 1)
        else: raise Unmodelled("register " + name)

    @staticmethod
    def width(name):
        return {"x": 64, "w": 32, "d": 64, "s": 32, "q": 128, "b": 8, "h": 16}[name.strip()[0]] if name.strip() != "sp" else 64

    # ---- memory
    def load(self, addr, nbytes):
        return sum(self.mem.get(addr + k, 0xCD) << (8 * k) for k in range(nbytes))

    def store(self, addr, nbytes, val):
        self.stores.append((addr, nbytes))
        for k in range(nbytes):
            self.mem[addr + k] = (val >> (8 * k)) & 0xFF
            self.written.add(addr + k)

    def addr(self, ops, first):
        """address operand(s) starting at ops[first]: [base] | [base, #off] | [base, #off]! | [base], #off   -> (address, writeback or None)"""
        t = ops[first]
        m = re.fullmatch(r"\[(\w+)(?:,\s*#(-?\w+))?\](!?)", t)
        if not m: raise Unmodelled("address " + t)
        base = self.rd(m.group(1)); off = int(m.group(2), 0) if m.group(2) else 0
        if m.group(3) == "!":
            return (base + off) & M64, (m.group(1), (base + off) & M64)
        if len(ops) > first + 1:
            post = imm(ops[first + 1])
            return base, (m.group(1), (base + post) & M64)
        return (base + off) & M64, None

    def step(self, m, ops):
        """-> 'call' at BLR/BL, 'ret' at RET, None otherwise"""
        if m in ("blr", "bl"): return "call"
        if m == "ret": return "ret"
        if m == "mov":
            d, s = ops
            if s.startswith("#"): self.wr(d, imm(s) & ((1 << self.width(d)) - 1))
            else: self.wr(d, self.rd(s))
            return None
        if m in ("movz", "movn", "movk"):
            d = ops[0]; v = imm(ops[1]); sh = 0
            if len(ops) > 2:
                mm = re.fullmatch(r"lsl #(\d+)", ops[2]);
                if not mm: raise Unmodelled(ops[2])
                sh = int(mm.group(1))
            w = self.width(d); mask = (1 << w) - 1
            if m == "movz": self.wr(d, (v << sh) & mask)
            elif m == "movn": self.wr(d, ~(v << sh) & mask)
            else: self.wr(d, (self.rd(d) & ~(0xFFFF << sh) | (v << sh)) & mask)
            return None
        if m in ("add", "sub") and len(ops) == 3 and ops[2].startswith("#"):
            v = self.rd(ops[1]); k = imm(ops[2])
            self.wr(ops[0], (v + k if m == "add" else v - k) & ((1 << self.width(ops[0])) - 1))
            return None
        if m in ("stp", "ldp"):
            a, wb = self.addr(ops, 2)
            n = self.width(ops[0]) // 8
            for k, r in enumerate(ops[:2]):
                if m == "stp": self.store(a + k * n, n, self.rd(r))
                else: self.wr(r, self.load(a + k * n, n))
            if wb: self.wr(*wb)
            return None
        if m in ("str", "stur", "strb", "strh"):
            a, wb = self.addr(ops, 1)
            n = {"strb": 1, "strh": 2}.get(m, self.width(ops[0]) // 8)
            self.store(a, n, self.rd(ops[0]) & ((1 << (8 * n)) - 1))
            if wb: self.wr(*wb)
            return None
        if m in ("ldr", "ldur", "ldrb", "ldrh"):
            a, wb = self.addr(ops, 1)
            n = {"ldrb": 1, "ldrh": 2}.get(m, self.width(ops[0]) // 8)
            self.wr(ops[0], self.load(a, n))
            if wb: self.wr(*wb)
            return None
        if m == "fmov" and len(ops) == 2 and not ops[1].startswith("#"):
            if self.width(ops[0]) != self.width(ops[1]): raise Unmodelled("fmov widths")
            self.wr(ops[0], self.rd(ops[1])); return None
        if m in ("sxtb", "sxth", "sxtw", "uxtb", "uxth"):
            n = {"b": 8, "h": 16, "w": 32}[m[-1]]
            v = self.rd(ops[1]) & ((1 << n) - 1)
            if m[0] == "s" and v >> (n - 1): v -= 1 << n
            self.wr(ops[0], v & ((1 << self.width(ops[0])) - 1)); return None
        raise Unmodelled(m)


def run_to_call(insts):
    cpu = Cpu()
    for m, ops in insts:
        r = cpu.step(m, ops)
        if r == "call": return cpu
        if r == "ret": break
    raise Unmodelled("no call reached")


# ---------------------------------------------------------------- what the ABI prescribes at the call
MIX = [(1, 0), (1, 1), (2, 0), (2, 1), (4, 0), (4, 1), (8, 0), (8, 1)] * 2


def params(kind):
    """[(bytes, signed, is_float)]"""
    if kind == 0: return [(8, 1, 0)] * 12
    if kind == 1: return [(4, 1, 0)] * 12
    if kind == 2: return [(s, g, 0) for s, g in MIX]
    return [(8, 0, 1)] * 12


def layout(kind, apple, min_slot=None):
    """-> [("x", n) | ("d", n) | ("stack", offset)] per parameter.  AAPCS64: 8-byte stack slots; Apple: natural size and alignment
    (min_slot = 4 reproduces AsmJit's recorded deviation C06/abi/apple64/min-slot-4)"""
    out = []; ngrn = nsrn = 0; nsaa = 0
    for size, _sg, fl in params(kind):
        if fl and nsrn < 8:
            out.append(("d", nsrn)); nsrn += 1; continue
        if not fl and ngrn < 8:
            out.append(("x", ngrn)); ngrn += 1; continue
        slot = 8 if not apple else max(size, min_slot or 1)
        nsaa = (nsaa + slot - 1) // slot * slot
        out.append(("stack", nsaa)); nsaa += slot
    return out


def apple_imm_extension(cpu, kind, vals, modes, lay):
    """Apple arm64: "the caller of a function is responsible for signing or zero-extending any argument with fewer than 32 bits".  Examined for
    IMMEDIATE arguments (the caller knows the parameter type and the value): the W view of the argument register must be the extension of the
    value's low bits by the parameter's signedness.  -> list of (index, register, got, want)"""
    bad = []
    for i, ((size, sg, fl), where, v, mode) in enumerate(zip(params(kind), lay, vals, modes)):
        if where[0] != "x" or size >= 4 or mode != 0: continue
        w = v & ((1 << (8 * size)) - 1)
        if sg and w >> (8 * size - 1): w -= 1 << (8 * size)
        if (cpu.x[where[1]] & 0xFFFFFFFF) != (w & 0xFFFFFFFF): bad.append((i, "w%d" % where[1], cpu.x[where[1]] & 0xFFFFFFFF, w & 0xFFFFFFFF))
    return bad


def check(cpu, kind, apple, vals, lay):
    """-> list of (index, where, got, want) for parameters that do not hold the passed value's low `size` bytes.  (Apple's rule that the CALLER
    extends sub-word register arguments to 32 bits is examined for immediates only, see apple_imm_extension: a 32-bit virtual register carries
    the test's own garbage above the parameter width and AsmJit has no notion of converting it.)"""
    bad = []
    for i, ((size, sg, fl), where, v) in enumerate(zip(params(kind), lay, vals)):
        want = v & ((1 << (8 * size)) - 1)
        if where[0] == "x":
            got = cpu.x[where[1]]
            if (got & ((1 << (8 * size)) - 1)) != want: bad.append((i, "x%d" % where[1], got, want))
        elif where[0] == "d":
            got = cpu.v[where[1]] & M64
            if got != want: bad.append((i, "d%d" % where[1], got, want))
        else:
            got = cpu.load(cpu.sp + where[1], size)
            if got != want or not all((cpu.sp + where[1] + k) in cpu.written for k in range(size)):
                bad.append((i, "[sp+%d]" % where[1], got, want))
    return bad


def area_size(kind, apple, lay):
    """bytes of the outgoing argument area the layout uses"""
    end = 0
    for (size, _sg, _fl), where in zip(params(kind), lay):
        if where[0] == "stack": end = max(end, where[1] + (size if apple else 8))
    return end


def overflowing_stores(cpu, area):
    """stores that start inside the outgoing argument area [sp, sp + area) and end beyond it (they overwrite the caller's own frame)"""
    return [(a - cpu.sp, n) for a, n in cpu.stores if cpu.sp <= a < cpu.sp + area and a + n > cpu.sp + area]

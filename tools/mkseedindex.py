#!/usr/bin/env python3
"""Coordinator tool: collect confirmed seeded changes from /work/seedout into /verif/seeded/<id>/ and seeded/INDEX.json.
Reads the pipeline logs (tools/seed_pipeline.sh output) for the confirmation and the check results; later log entries win."""
import json, os, re, glob, shutil
V = os.path.dirname(os.path.dirname(os.path.abspath(__file__)))
SO = "/work/seedout"
conf, runs = {}, {}
logs = sorted(glob.glob(SO + "/pipe*.log") + glob.glob(SO + "/verify_*.log") + glob.glob(SO + "/rerun*.log") + glob.glob(SO + "/final_*.log"), key=os.path.getmtime)
for lg in logs:
    for line in open(lg, errors="replace"):
        m = re.match(r"SEED (\S+) SUITE=(\w+) DEMO_WITH=(\d+) DEMO_WITHOUT=(\d+)", line)
        if m: conf[m.group(1)] = {"suite": m.group(2), "demo_with": int(m.group(3)), "demo_without": int(m.group(4))}
        m = re.match(r"SEEDRUN (\S+) check=(\S+) rc=(\d+)", line)
        if m: runs.setdefault(m.group(1), {})[m.group(2)] = ("VIOLATION reported (exit 1)" if m.group(3) == "1" else "missed (exit 0)" if m.group(3) == "0" else "harness error rc=" + m.group(3))
index = []
for d in sorted(glob.glob(SO + "/C??-?")):
    sid = os.path.basename(d)
    c = conf.get(sid)
    if not c or c["suite"] != "pass" or c["demo_with"] == 0 or c["demo_without"] != 0:
        print("not confirmed:", sid, c); continue
    dst = os.path.join(V, "seeded", sid); os.makedirs(dst, exist_ok=True)
    for f in ("patch.diff", "demo.cpp", "build_demo.sh", "meta.json", "ctest_tail.txt"):
        if os.path.exists(os.path.join(d, f)): shutil.copy(os.path.join(d, f), dst)
    meta = json.load(open(os.path.join(dst, "meta.json")))
    extra = json.load(open(os.path.join(dst, "history.json"))) if os.path.exists(os.path.join(dst, "history.json")) else {}
    meta["coordinator_confirmation"] = {
        "ran": ["tools/verify_seed.sh %s  (scratch worktree of /repo HEAD + patch: cmake/ninja build, ctest of the 10 pinned tests, demo built against the changed tree and against /repo)" % d,
                "tools/run_seed.sh %s <check> quick  (scratch worktree + VERIF_REPO; /repo itself untouched)" % d],
        "existing_suite": c["suite"], "demo_exit_with_change": c["demo_with"], "demo_exit_without_change": c["demo_without"],
        "checks": runs.get(sid, {}), "history": extra.get("history", [])}
    json.dump(meta, open(os.path.join(dst, "meta.json"), "w"), indent=1)
    index.append({"id": sid, "property": meta.get("property", sid[:3]), "needs": meta.get("needs_to_manifest", ""), "suite": c["suite"],
                  "demo_with": c["demo_with"], "demo_without": c["demo_without"], "checks": runs.get(sid, {}), "history": extra.get("history", [])})
json.dump(index, open(os.path.join(V, "seeded", "INDEX.json"), "w"), indent=1)
print("seeds:", len(index), "missed now:", [(s["id"], k) for s in index for k, v in s["checks"].items() if v.startswith("missed") and k == s["property"]])

"""C17 translator: re-extract the field layouts of CodeWriterUtils::encode_offset32 from the SOURCE TEXT of
asmjit/core/codewriter.cpp (no compilation, no execution) into coq/gen/C17Layouts.v.

Every `case OffsetType::k…:` of the switch whose body is a bitwise OR of masked/shifted pieces of `value`, single bits,
the Thumb-2 J bits and the sign bit `u` is turned into a list of LayoutModel.lterm, sorted by destination bit
(`|` is commutative).  coq/gen/C17Layouts.v states `gen_layouts = LayoutModel.expected_layouts` by reflexivity; the
theorems of Codec/LayoutProofs.v (the table denotes the packers of the model; everything it produces lies inside its mask)
are about expected_layouts.  The three cases that are not of that shape (contiguous, A32 ADR, A32 U23) are compared as
normalised text with the text the hand transcription was made from.
"""
import os
import re
import sys
sys.path.insert(0, os.path.dirname(os.path.abspath(__file__)))

WANTED = {"kThumb32_ADR": "T32_ADR", "kThumb32_BLX": "T32_BLX", "kThumb32_B": "T32_B", "kThumb32_BCond": "T32_BCond",
          "kAArch32_U23_0To3At0_4To7At8": "A32_U23_0To3At0_4To7At8", "kAArch32_1To24At0_0At24": "A32_1To24At0_0At24",
          "kAArch64_ADR": "A64_ADR", "kAArch64_ADRP": "A64_ADRP"}
TEXT_CASES = {
    "kSignedOffset,kUnsignedOffset": "*dst = (value & Support::lsb_mask<uint32_t>(bit_count)) << bit_shift;",
    "kAArch32_ADR": "uint32_t encoded_imm; if (!arm::Utils::encode_aarch32_imm(value, Out(encoded_imm))) { return false; } "
                    "*dst = (Support::bit_mask<uint32_t>(22) << u) | (encoded_imm << bit_shift);",
    "kAArch32_U23_SignedOffset": "*dst = (value << bit_shift) | (u << 23);",
}


class TranslatorError(Exception):
    pass


def _num(s):
    s = s.strip().rstrip("u")
    m = re.fullmatch(r"\((\d+) - (\d+)\)", s)
    if m:
        return int(m.group(1)) - int(m.group(2))
    return int(s, 0)


def _parse_var(expr):
    e = expr.strip()
    m = re.fullmatch(r"\(value & (0x[0-9A-Fa-f]+|\d+)u?\)(?: (<<|>>) (\(\d+ - \d+\)|\d+))?", e)
    if m:
        net = 0
        if m.group(2):
            net = _num(m.group(3)) * (1 if m.group(2) == "<<" else -1)
        return ("mask", int(m.group(1), 0), net)
    m = re.fullmatch(r"value & (0x[0-9A-Fa-f]+|\d+)u?", e)
    if m:
        return ("mask", int(m.group(1), 0), 0)
    m = re.fullmatch(r"\(value >> (\d+)\) & Support::lsb_mask<uint32_t>\((\d+)\)", e)
    if m:
        a, w = int(m.group(1)), int(m.group(2))
        return ("mask", ((1 << w) - 1) << a, -a)
    m = re.fullmatch(r"\(\(~value >> (\d+)\) \^ \(value >> (\d+)\)\) & 1u", e)
    if m:
        return ("xnor", int(m.group(1)), int(m.group(2)))
    m = re.fullmatch(r"\(value >> (\d+)\) & 1u", e)
    if m:
        return ("bit", int(m.group(1)))
    if e == "u ^ 1u":
        return ("sign", True)
    raise TranslatorError("unrecognised expression %r" % expr)


def _lowbit(x):
    return (x & -x).bit_length() - 1 if x else 0


def _term(var, shl):
    """var: parsed variable, shl: the `<< N` applied in the *dst expression.  Returns (sort_key, coq_text, python_tuple)."""
    k = var[0]
    if k == "mask":
        m, net = var[1], var[2] + shl
        if var[2] < 0 and m % (1 << -var[2]):
            raise TranslatorError("right shift drops set mask bits")
        pos = _lowbit(m) + net
        return (pos, "LMask %d %s" % (m, net if net >= 0 else "(%d)" % net), ("mask", m, net))
    if k == "bit":
        return (shl, "LBit %d %d" % (var[1], shl), ("bit", var[1], shl))
    if k == "xnor":
        return (shl, "LXnor %d %d %d" % (var[1], var[2], shl), ("xnor", var[1], var[2], shl))
    if k == "sign":
        return (shl, "LSign %s %d" % ("true" if var[1] else "false", shl), ("sign", var[1], shl))
    raise TranslatorError(k)


def extract(repo):
    src = open(os.path.join(repo, "asmjit", "core", "codewriter.cpp")).read()
    i = src.index("bool CodeWriterUtils::encode_offset32(")
    j = src.index("switch (format.type())", i)
    k = src.index("default:", j)
    j = src.index("{", j) + 1
    body = re.sub(r"//[^\n]*", "", src[j:k])
    # split into groups: labels + optional pre-statements + one { block }
    layouts = {}; texts = {}
    pos = 0
    pending = []     # [name, shl1]
    for m in re.finditer(r"case OffsetType::(\w+):|value <<= 1;|\{", body):
        if m.start() < pos:
            continue
        tok = m.group(0)
        if tok.startswith("case"):
            pending.append([m.group(1), False])
        elif tok == "value <<= 1;":
            for p in pending:
                p[1] = True
        else:
            # matching brace of the case block
            depth = 0; e = m.start()
            while True:
                if body[e] == "{":
                    depth += 1
                elif body[e] == "}":
                    depth -= 1
                    if depth == 0:
                        break
                e += 1
            block = body[m.start() + 1:e]
            pos = e + 1
            norm = " ".join(block.replace("return true;", "").split())
            names = [p[0] for p in pending]
            if any(n in WANTED for n in names):
                san = {"vs": None, "bc": None, "bs": None}
                sm = re.search(r"if \(([^{]*)\) \{ return false; \}", norm)
                if sm:
                    for part in sm.group(1).split("||"):
                        part = part.strip()
                        mm = re.fullmatch(r"format\.value_size\(\) != (\d+)", part)
                        if mm:
                            san["vs"] = int(mm.group(1)); continue
                        mm = re.fullmatch(r"bit_count != (\d+)", part)
                        if mm:
                            san["bc"] = int(mm.group(1)); continue
                        mm = re.fullmatch(r"bit_shift != (\d+)", part)
                        if mm:
                            san["bs"] = int(mm.group(1)); continue
                        raise TranslatorError("unrecognised sanity test %r in case %s" % (part, names))
                    norm2 = norm.replace(sm.group(0), "").strip()
                else:
                    norm2 = norm
                vars_ = {"u": ("signraw",)}
                dst = None
                for st in [s.strip() for s in norm2.split(";") if s.strip()]:
                    mm = re.fullmatch(r"uint32_t (\w+) = (.*)", st)
                    if mm:
                        vars_[mm.group(1)] = _parse_var(mm.group(2)); continue
                    mm = re.fullmatch(r"\*dst = (.*)", st)
                    if mm:
                        dst = mm.group(1); continue
                    raise TranslatorError("unrecognised statement %r in case %s" % (st, names))
                if dst is None:
                    raise TranslatorError("no *dst assignment in case %s" % names)
                terms = []
                for piece in [p.strip() for p in dst.split("|")]:
                    mm = re.fullmatch(r"\((\w+) << (\d+)\)", piece)
                    nm, shl = (mm.group(1), int(mm.group(2))) if mm else (piece, 0)
                    if nm not in vars_:
                        raise TranslatorError("unknown name %r in *dst of case %s" % (nm, names))
                    v = vars_[nm]
                    if v == ("signraw",):
                        v = ("sign", False)
                    terms.append(_term(v, shl))
                terms.sort(key=lambda t: (t[0], t[1]))
                for (n, shl1) in pending:
                    if n in WANTED:
                        layouts[n] = {"shl1": shl1, "san": san, "terms": terms}
            else:
                texts[",".join(names)] = norm
            pending = []
    missing = [n for n in WANTED if n not in layouts]
    if missing:
        raise TranslatorError("cases not found: %s" % missing)
    text_changes = []
    for key, want in TEXT_CASES.items():
        if texts.get(key) != want:
            text_changes.append((key, texts.get(key), want))
    return layouts, text_changes


ENUM_NAMES = {"kSignedOffset": "SignedOffset", "kUnsignedOffset": "UnsignedOffset", "kAArch64_ADR": "A64_ADR", "kAArch64_ADRP": "A64_ADRP",
              "kThumb32_ADR": "T32_ADR", "kThumb32_BLX": "T32_BLX", "kThumb32_B": "T32_B", "kThumb32_BCond": "T32_BCond",
              "kAArch32_ADR": "A32_ADR", "kAArch32_U23_SignedOffset": "A32_U23",
              "kAArch32_U23_0To3At0_4To7At8": "A32_U23_0To3At0_4To7At8", "kAArch32_1To24At0_0At24": "A32_1To24At0_0At24"}


def extract_fixup(repo):
    """asmjit/core/fixup.h: enumerators of OffsetType in declaration order, and the types has_sign_bit() lists."""
    src = re.sub(r"//[^\n]*", "", open(os.path.join(repo, "asmjit", "core", "fixup.h")).read())
    m = re.search(r"enum class OffsetType\s*:\s*uint8_t\s*\{(.*?)\};", src, re.S)
    if not m:
        raise TranslatorError("enum class OffsetType not found in fixup.h")
    order = []
    for item in m.group(1).split(","):
        item = item.strip()
        if not item:
            continue
        mm = re.fullmatch(r"(k\w+)(?:\s*=\s*(\w+))?", item)
        if not mm:
            raise TranslatorError("unrecognised enumerator %r" % item)
        if mm.group(1) == "kMaxValue":
            if mm.group(2) != order[-1]:
                raise TranslatorError("kMaxValue is %s, last enumerator is %s" % (mm.group(2), order[-1]))
            continue
        if mm.group(2) is not None:
            raise TranslatorError("enumerator %s has an explicit value" % mm.group(1))
        order.append(mm.group(1))
    m = re.search(r"bool has_sign_bit\(\) const noexcept \{\s*return (.*?);\s*\}", src, re.S)
    if not m:
        raise TranslatorError("has_sign_bit() not found in fixup.h")
    signs = []
    for part in m.group(1).split("||"):
        mm = re.fullmatch(r"_type == OffsetType::(k\w+)", part.strip())
        if not mm:
            raise TranslatorError("unrecognised has_sign_bit() term %r" % part.strip())
        signs.append(mm.group(1))
    for n in order + signs:
        if n not in ENUM_NAMES:
            raise TranslatorError("unknown OffsetType enumerator %s (the model has no constructor for it)" % n)
    return order, signs


def extract_armutils(repo):
    """asmjit/arm/armutils.h: template arguments of the fp imm8 predicates / encoder, constants of is_add_sub_imm and is_byte_mask_imm."""
    src = re.sub(r"//[^\n]*", "", open(os.path.join(repo, "asmjit", "arm", "armutils.h")).read())
    fp = []
    for (n, rx) in ((16, r"bool is_fp16_imm8\(uint32_t val\) noexcept \{ return is_fp_imm8_generic<uint32_t, (\d+), (\d+), (\d+)>\(val\); \}"),
                    (32, r"bool is_fp32_imm8\(uint32_t val\) noexcept \{ return is_fp_imm8_generic<uint32_t, (\d+), (\d+), (\d+)>\(val\); \}"),
                    (64, r"bool is_fp64_imm8\(uint64_t val\) noexcept \{ return is_fp_imm8_generic<uint64_t, (\d+), (\d+), (\d+)>\(val\); \}"),
                    (64, r"uint32_t encode_fp64_to_imm8\(uint64_t val\) noexcept \{ return encode_fp_to_imm8_generic<uint64_t, (\d+), (\d+), (\d+)>\(val\); \}")):
        m = re.search(rx, src)
        if not m:
            raise TranslatorError("armutils.h: fp%d imm8 definition not of the expected shape" % n)
        fp.append((n, int(m.group(1)), int(m.group(2)), int(m.group(3))))
    m = re.search(r"bool is_add_sub_imm\(uint64_t imm\) noexcept \{\s*return imm <= (0x[0-9A-Fa-f]+)u \|\| \(imm & ~uint64_t\((0x[0-9A-Fa-f]+)u << (\d+)\)\) == 0;\s*\}", src)
    if not m or int(m.group(1), 16) != int(m.group(2), 16):
        raise TranslatorError("armutils.h: is_add_sub_imm not of the expected shape")
    m2 = re.search(r"constexpr T kMask = T\((0x[0-9A-Fa-f]+) & Support::bit_ones<T>\);", src)
    if not m2:
        raise TranslatorError("armutils.h: is_byte_mask_imm mask not found")
    return fp, [int(m.group(1), 16), int(m.group(3)), int(m2.group(1), 16)]


def extract_used_formats(repo):
    """Every OffsetFormat the backends build: all call sites of reset_to_simple_value / reset_to_imm_value in asmjit/ (source text).
    Literal arguments are taken as they are; the three non-literal ones are expanded over the domain the surrounding code
    guarantees (checked to be present as text): rel_size in {1,4}, data_size in {1,2,4,8}, op_data.offset_type in {ADR, ADRP}
    (ADRP with the `_imm_discard_lsb = 12` that follows the call)."""
    out = set()
    order = list(ENUM_NAMES)
    for rel in ("asmjit/x86/x86assembler.cpp", "asmjit/arm/a64assembler.cpp", "asmjit/core/assembler.cpp"):
        src = re.sub(r"//[^\n]*", "", open(os.path.join(repo, rel)).read())
        for m in re.finditer(r"reset_to_(simple|imm)_value\(([^;]*?)\);", src):
            args = [a.strip() for a in m.group(2).split(",")]
            if m.group(1) == "simple":
                if len(args) != 2:
                    raise TranslatorError("reset_to_simple_value with %d arguments in %s" % (len(args), rel))
                tys, sizes, rest = args[0], args[1], None
            else:
                if len(args) != 5:
                    raise TranslatorError("reset_to_imm_value with %d arguments in %s" % (len(args), rel))
                tys, sizes, rest = args[0], args[1], args[2:]
            if tys.startswith("OffsetType::"):
                types = [(tys[len("OffsetType::"):], None)]
            elif tys == "op_data.offset_type":
                tail = " ".join(src[m.end():m.end() + 200].split())
                if not tail.startswith("if (inst_id == Inst::kIdAdrp) offset_format._imm_discard_lsb = 12;"):
                    raise TranslatorError("ADR/ADRP call site in %s is not followed by the ADRP discard assignment" % rel)
                types = [("kAArch64_ADR", None), ("kAArch64_ADRP", 12)]
            else:
                raise TranslatorError("unrecognised type argument %r in %s" % (tys, rel))
            if re.fullmatch(r"\d+", sizes):
                szs = [int(sizes)]
            elif sizes == "rel_size":
                if "ASMJIT_ASSERT(rel_size == 1 || rel_size == 4);" not in src:
                    raise TranslatorError("rel_size is no longer asserted to be 1 or 4 in %s" % rel)
                szs = [1, 4]
            elif sizes == "data_size":
                if "Support::is_power_of_2_up_to(data_size, 8u)" not in src:
                    raise TranslatorError("data_size is no longer checked to be a power of two up to 8 in %s" % rel)
                szs = [1, 2, 4, 8]
            else:
                raise TranslatorError("unrecognised size argument %r in %s" % (sizes, rel))
            for (t, dl_override) in types:
                if t not in ENUM_NAMES:
                    raise TranslatorError("unknown OffsetType %s in %s" % (t, rel))
                for vs in szs:
                    if rest is None:
                        out.add((order.index(t), vs, 8 * vs, 0, 0))
                    else:
                        if not all(re.fullmatch(r"\d+", a) for a in rest):
                            raise TranslatorError("non-literal reset_to_imm_value arguments %r in %s" % (rest, rel))
                        sh, bits, dl = int(rest[0]), int(rest[1]), int(rest[2])
                        out.add((order.index(t), vs, bits, sh, dl if dl_override is None else dl_override))
    return [(ENUM_NAMES[order[t]], vs, bits, sh, dl) for (t, vs, bits, sh, dl) in sorted(out)]


def _bf_rule(text, names):
    """One alias block (normalised text) -> (guards, immr, imms, imms_lt_size) as Coq text."""
    ops = re.findall(r"uint64_t (\w+) = o\d\.as<Imm>\(\)\.value_as<uint64_t>\(\);", text)
    if not ops or len(ops) > 2:
        raise TranslatorError("%s: %d immediate operands" % (names, len(ops)))
    env = {ops[0]: "BA"}
    if len(ops) == 2:
        env[ops[1]] = "BB"
    guards_txt = re.findall(r"if \(([^{};]*?)\) goto InvalidImmediate;", text)
    if not guards_txt:
        raise TranslatorError("%s: no immediate guard" % names)
    # computed variables
    for m in re.finditer(r"uint32_t (\w+) = ([^;]+);", text):
        v, e = m.group(1), m.group(2).strip()
        if v == "op_size":
            continue
        mm = re.fullmatch(r"Support::neg\(uint32_t\((\w+)\)\) & \(op_size - 1\)", e)
        if mm and mm.group(1) in env:
            env[v] = "BNegAnd %s" % env[mm.group(1)]; continue
        mm = re.fullmatch(r"uint32_t\((\w+)\) - 1", e)
        if mm and mm.group(1) in env:
            env[v] = "BPred %s" % env[mm.group(1)]; continue
        mm = re.fullmatch(r"uint32_t\((\w+)\)", e)
        if mm and mm.group(1) in env:
            env[v] = env[mm.group(1)]; continue
        mm = re.fullmatch(r"(\w+) \+ uint32_t\((\w+)\) - 1u", e)
        if mm and mm.group(1) in env and mm.group(2) in env:
            env[v] = "BAddPred %s %s" % (env[mm.group(1)], env[mm.group(2)]); continue
        mm = re.fullmatch(r"op_size - 1 - uint32_t\((\w+)\)", e)
        if mm and mm.group(1) in env:
            env[v] = "BSizePredMinus %s" % env[mm.group(1)]; continue
        raise TranslatorError("%s: unrecognised field expression %r" % (names, e))

    def par(x):
        return x if " " not in x else "(%s)" % x
    guards = []; post = False
    r16 = re.findall(r"opcode\.add_imm\((\w+), 16\);", text)
    r10 = re.findall(r"opcode\.add_imm\((\w+), 10\);", text)
    r16 = [v for v in r16 if v in env]; r10 = [v for v in r10 if v in env]
    if len(r16) != 1 or len(r10) != 1:
        raise TranslatorError("%s: immr/imms placement not found" % names)
    for k, gt in enumerate(guards_txt):
        if k == 0:
            for atom in [a.strip() for a in gt.split("||")]:
                mm = re.fullmatch(r"(\w+) >= op_size", atom)
                if mm and mm.group(1) in env:
                    guards.append("GGeSize %s" % par(env[mm.group(1)])); continue
                mm = re.fullmatch(r"(\w+) == 0", atom)
                if mm and mm.group(1) in env:
                    guards.append("GEqZero %s" % par(env[mm.group(1)])); continue
                mm = re.fullmatch(r"(\w+) > op_size - (\w+)", atom)
                if mm and mm.group(1) in env and mm.group(2) in env:
                    guards.append("GGtSizeMinus %s %s" % (par(env[mm.group(1)]), par(env[mm.group(2)]))); continue
                mm = re.fullmatch(r"\((\w+) \| (\w+)\) >= op_size", atom)
                if mm and mm.group(1) in env and mm.group(2) in env:
                    guards.append("GOrGeSize %s %s" % (par(env[mm.group(1)]), par(env[mm.group(2)]))); continue
                raise TranslatorError("%s: unrecognised guard %r" % (names, atom))
        else:
            mm = re.fullmatch(r"(\w+) >= op_size", gt.strip())
            if not (mm and mm.group(1) == r10[0]):
                raise TranslatorError("%s: unrecognised second guard %r" % (names, gt))
            post = True
    return "{| br_guards := [%s]; br_immr := %s; br_imms := %s; br_imms_lt_size := %s |}" % (
        "; ".join(guards), env[r16[0]], env[r10[0]], "true" if post else "false")


def extract_bf_rules(repo):
    """a64assembler.cpp: BaseBfc, BaseBfi, BaseBfm, BaseBfx and the LSL #imm branch of BaseShift as rules (Coq text)."""
    import c17_transcribed
    reg = c17_transcribed.extract(repo)
    out = []
    for name in ("a64 case BaseBfc", "a64 case BaseBfi", "a64 case BaseBfm", "a64 case BaseBfx"):
        t = reg[name]["text"]
        if t is None:
            raise TranslatorError("%s not found" % name)
        out.append(_bf_rule(t, name))
    t = reg["a64 case BaseShift"]["text"]
    if t is None:
        raise TranslatorError("a64 case BaseShift not found")
    i = t.find("uint64_t imm_r = o2.as<Imm>()")
    m = re.search(r"if \(op_data\.ror == 0\) \{(.*?)goto EmitOp; \}", t[i:])
    if i < 0 or not m:
        raise TranslatorError("BaseShift: LSL #imm branch not found")
    head = t[i:t.index("opcode.reset(op_data.immediate_op())", i)]
    out.append(_bf_rule(head + " " + m.group(1), "a64 case BaseShift (LSL #imm)"))
    return out


def render(layouts, fixup=None, arm=None, used=None, bf=None):
    def opt(x):
        return "None" if x is None else "Some %d" % x
    rows = []
    for n in WANTED:
        l = layouts[n]
        rows.append("    (%s, {| l_shl1 := %s; l_vsize := %s; l_bits := %s; l_shift := %s;\n        l_terms := [%s] |})" % (
            WANTED[n], "true" if l["shl1"] else "false", opt(l["san"]["vs"]), opt(l["san"]["bc"]), opt(l["san"]["bs"]),
            "; ".join(t[1] for t in l["terms"])))
    return ("(* GENERATED by tools/c17_layouts.py from the source text of asmjit/core/codewriter.cpp (encode_offset32).\n"
            "   Do not edit: ./check C17 regenerates this text on every run and re-checks the lemma when it changes. *)\n"
            "From Coq Require Import ZArith List Bool.\n"
            "From Verif Require Import Codec.OffsetModel Codec.LayoutModel.\n"
            "Import ListNotations.\nLocal Open Scope Z_scope.\n\n"
            "Definition gen_layouts : list (otype * layout) :=\n  [\n" + ";\n".join(rows) + "\n  ].\n\n"
            "(* the layouts in the source are the ones the theorems of Codec/LayoutProofs.v are about *)\n"
            "Lemma gen_layouts_ok : gen_layouts = expected_layouts.\nProof. reflexivity. Qed.\n"
            + ("" if fixup is None else
               "\n(* asmjit/core/fixup.h: OffsetType enumerators in declaration order; the types has_sign_bit() lists *)\n"
               "Definition gen_otype_order : list otype := [" + "; ".join(ENUM_NAMES[n] for n in fixup[0]) + "].\n"
               "Definition gen_sign_types : list otype := [" + "; ".join(ENUM_NAMES[n] for n in fixup[1]) + "].\n"
               "Lemma gen_fixup_ok : gen_otype_order = expected_otype_order /\\ gen_sign_types = expected_sign_types.\n"
               "Proof. split; reflexivity. Qed.\n")
            + ("" if arm is None else
               "\n(* asmjit/arm/armutils.h: fp imm8 template arguments, is_add_sub_imm and is_byte_mask_imm constants *)\n"
               "Definition gen_fp_params : list (Z * (Z * Z * Z)) := [" + "; ".join("(%d, (%d, %d, %d))" % t for t in arm[0]) + "].\n"
               "Definition gen_arm_consts : list Z := [" + "; ".join(str(c) for c in arm[1]) + "].\n"
               "Lemma gen_armutils_ok : gen_fp_params = expected_fp_params /\\ gen_arm_consts = expected_arm_consts.\n"
               "Proof. split; reflexivity. Qed.\n")
            + ("" if used is None else
               "\n(* every OffsetFormat the backends build (call sites of reset_to_simple_value / reset_to_imm_value in asmjit/) *)\n"
               "Definition gen_used_formats : list fmt :=\n  [ " + ";\n    ".join(
                   "{| ty := %s; vsize := %d; bits := %d; shift := %d; discard := %d |}" % u for u in used) + " ].\n"
               "Lemma gen_used_formats_ok : gen_used_formats = expected_used_formats.\nProof. reflexivity. Qed.\n")
            + ("" if bf is None else
               "\n(* asmjit/arm/a64assembler.cpp: operand guards and field expressions of BaseBfc, BaseBfi, BaseBfm, BaseBfx, LSL #imm *)\n"
               "Definition gen_bf_rules : list bf_rule :=\n  [ " + ";\n    ".join(bf) + " ].\n"
               "Lemma gen_bf_rules_ok : gen_bf_rules = expected_bf_rules.\nProof. reflexivity. Qed.\n"))


def masks(layouts):
    """The field mask each layout implies (python side, for the oracle cross-check)."""
    out = {}
    for n, l in layouts.items():
        m = 0
        for t in l["terms"]:
            p = t[2]
            if p[0] == "mask":
                m |= (p[1] << p[2]) if p[2] >= 0 else (p[1] >> -p[2])
            else:
                m |= 1 << p[-1]
        out[WANTED[n]] = m
    return out


if __name__ == "__main__":
    import sys
    L, changes = extract(sys.argv[1] if len(sys.argv) > 1 else "/repo")
    R = sys.argv[1] if len(sys.argv) > 1 else "/repo"
    sys.stdout.write(render(L, extract_fixup(R), extract_armutils(R), extract_used_formats(R), extract_bf_rules(R)))
    for c in changes:
        sys.stderr.write("TEXT CHANGED: %r\n" % (c,))
    sys.stderr.write("masks: %s\n" % {k: hex(v) for k, v in masks(L).items()})

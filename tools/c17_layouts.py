"""C17 translator: re-extract the field layouts of CodeWriterUtils::encode_offset32 from the SOURCE TEXT of
asmjit/core/codewriter.cpp (no compilation, no execution) into coq/gen/C17Layouts.v.

Every `case OffsetType::k…:` of the switch whose body is a bitwise OR of masked/shifted pieces of `value`, single bits,
the Thumb-2 J bits and the sign bit `u` is turned into a list of LayoutModel.lterm, sorted by destination bit
(`|` is commutative).  coq/gen/C17Layouts.v states `gen_layouts = LayoutModel.expected_layouts` by reflexivity; the
theorems of Codec/LayoutProofs.v (the table denotes the packers of the model; everything it produces lies inside its mask)
are about expected_layouts.  The three cases that are not of that shape (contiguous, A32 ADR, A32 U23) are compared as
normalised text with the text the hand transcription was made from.
"""
import os
import re

WANTED = {"kThumb32_ADR": "T32_ADR", "kThumb32_BLX": "T32_BLX", "kThumb32_B": "T32_B", "kThumb32_BCond": "T32_BCond",
          "kAArch32_U23_0To3At0_4To7At8": "A32_U23_0To3At0_4To7At8", "kAArch32_1To24At0_0At24": "A32_1To24At0_0At24",
          "kAArch64_ADR": "A64_ADR", "kAArch64_ADRP": "A64_ADRP"}
TEXT_CASES = {
    "kSignedOffset,kUnsignedOffset": "*dst = (value & Support::lsb_mask<uint32_t>(bit_count)) << bit_shift;",
    "kAArch32_ADR": "uint32_t encoded_imm; if (!arm::Utils::encode_aarch32_imm(value, Out(encoded_imm))) { return false; } "
                    "*dst = (Support::bit_mask<uint32_t>(22) << u) | (encoded_imm << bit_shift);",
    "kAArch32_U23_SignedOffset": "*dst = (value << bit_shift) | (u << 23);",
}


class TranslatorError(Exception):
    pass


def _num(s):
    s = s.strip().rstrip("u")
    m = re.fullmatch(r"\((\d+) - (\d+)\)", s)
    if m:
        return int(m.group(1)) - int(m.group(2))
    return int(s, 0)


def _parse_var(expr):
    e = expr.strip()
    m = re.fullmatch(r"\(value & (0x[0-9A-Fa-f]+|\d+)u?\)(?: (<<|>>) (\(\d+ - \d+\)|\d+))?", e)
    if m:
        net = 0
        if m.group(2):
            net = _num(m.group(3)) * (1 if m.group(2) == "<<" else -1)
        return ("mask", int(m.group(1), 0), net)
    m = re.fullmatch(r"value & (0x[0-9A-Fa-f]+|\d+)u?", e)
    if m:
        return ("mask", int(m.group(1), 0), 0)
    m = re.fullmatch(r"\(value >> (\d+)\) & Support::lsb_mask<uint32_t>\((\d+)\)", e)
    if m:
        a, w = int(m.group(1)), int(m.group(2))
        return ("mask", ((1 << w) - 1) << a, -a)
    m = re.fullmatch(r"\(\(~value >> (\d+)\) \^ \(value >> (\d+)\)\) & 1u", e)
    if m:
        return ("xnor", int(m.group(1)), int(m.group(2)))
    m = re.fullmatch(r"\(value >> (\d+)\) & 1u", e)
    if m:
        return ("bit", int(m.group(1)))
    if e == "u ^ 1u":
        return ("sign", True)
    raise TranslatorError("unrecognised expression %r" % expr)


def _lowbit(x):
    return (x & -x).bit_length() - 1 if x else 0


def _term(var, shl):
    """var: parsed variable, shl: the `<< N` applied in the *dst expression.  Returns (sort_key, coq_text, python_tuple)."""
    k = var[0]
    if k == "mask":
        m, net = var[1], var[2] + shl
        if var[2] < 0 and m % (1 << -var[2]):
            raise TranslatorError("right shift drops set mask bits")
        pos = _lowbit(m) + net
        return (pos, "LMask %d %s" % (m, net if net >= 0 else "(%d)" % net), ("mask", m, net))
    if k == "bit":
        return (shl, "LBit %d %d" % (var[1], shl), ("bit", var[1], shl))
    if k == "xnor":
        return (shl, "LXnor %d %d %d" % (var[1], var[2], shl), ("xnor", var[1], var[2], shl))
    if k == "sign":
        return (shl, "LSign %s %d" % ("true" if var[1] else "false", shl), ("sign", var[1], shl))
    raise TranslatorError(k)


def extract(repo):
    src = open(os.path.join(repo, "asmjit", "core", "codewriter.cpp")).read()
    i = src.index("bool CodeWriterUtils::encode_offset32(")
    j = src.index("switch (format.type())", i)
    k = src.index("default:", j)
    j = src.index("{", j) + 1
    body = re.sub(r"//[^\n]*", "", src[j:k])
    # split into groups: labels + optional pre-statements + one { block }
    layouts = {}; texts = {}
    pos = 0
    pending = []     # [name, shl1]
    for m in re.finditer(r"case OffsetType::(\w+):|value <<= 1;|\{", body):
        if m.start() < pos:
            continue
        tok = m.group(0)
        if tok.startswith("case"):
            pending.append([m.group(1), False])
        elif tok == "value <<= 1;":
            for p in pending:
                p[1] = True
        else:
            # matching brace of the case block
            depth = 0; e = m.start()
            while True:
                if body[e] == "{":
                    depth += 1
                elif body[e] == "}":
                    depth -= 1
                    if depth == 0:
                        break
                e += 1
            block = body[m.start() + 1:e]
            pos = e + 1
            norm = " ".join(block.replace("return true;", "").split())
            names = [p[0] for p in pending]
            if any(n in WANTED for n in names):
                san = {"vs": None, "bc": None, "bs": None}
                sm = re.search(r"if \(([^{]*)\) \{ return false; \}", norm)
                if sm:
                    for part in sm.group(1).split("||"):
                        part = part.strip()
                        mm = re.fullmatch(r"format\.value_size\(\) != (\d+)", part)
                        if mm:
                            san["vs"] = int(mm.group(1)); continue
                        mm = re.fullmatch(r"bit_count != (\d+)", part)
                        if mm:
                            san["bc"] = int(mm.group(1)); continue
                        mm = re.fullmatch(r"bit_shift != (\d+)", part)
                        if mm:
                            san["bs"] = int(mm.group(1)); continue
                        raise TranslatorError("unrecognised sanity test %r in case %s" % (part, names))
                    norm2 = norm.replace(sm.group(0), "").strip()
                else:
                    norm2 = norm
                vars_ = {"u": ("signraw",)}
                dst = None
                for st in [s.strip() for s in norm2.split(";") if s.strip()]:
                    mm = re.fullmatch(r"uint32_t (\w+) = (.*)", st)
                    if mm:
                        vars_[mm.group(1)] = _parse_var(mm.group(2)); continue
                    mm = re.fullmatch(r"\*dst = (.*)", st)
                    if mm:
                        dst = mm.group(1); continue
                    raise TranslatorError("unrecognised statement %r in case %s" % (st, names))
                if dst is None:
                    raise TranslatorError("no *dst assignment in case %s" % names)
                terms = []
                for piece in [p.strip() for p in dst.split("|")]:
                    mm = re.fullmatch(r"\((\w+) << (\d+)\)", piece)
                    nm, shl = (mm.group(1), int(mm.group(2))) if mm else (piece, 0)
                    if nm not in vars_:
                        raise TranslatorError("unknown name %r in *dst of case %s" % (nm, names))
                    v = vars_[nm]
                    if v == ("signraw",):
                        v = ("sign", False)
                    terms.append(_term(v, shl))
                terms.sort(key=lambda t: (t[0], t[1]))
                for (n, shl1) in pending:
                    if n in WANTED:
                        layouts[n] = {"shl1": shl1, "san": san, "terms": terms}
            else:
                texts[",".join(names)] = norm
            pending = []
    missing = [n for n in WANTED if n not in layouts]
    if missing:
        raise TranslatorError("cases not found: %s" % missing)
    text_changes = []
    for key, want in TEXT_CASES.items():
        if texts.get(key) != want:
            text_changes.append((key, texts.get(key), want))
    return layouts, text_changes


def render(layouts):
    def opt(x):
        return "None" if x is None else "Some %d" % x
    rows = []
    for n in WANTED:
        l = layouts[n]
        rows.append("    (%s, {| l_shl1 := %s; l_vsize := %s; l_bits := %s; l_shift := %s;\n        l_terms := [%s] |})" % (
            WANTED[n], "true" if l["shl1"] else "false", opt(l["san"]["vs"]), opt(l["san"]["bc"]), opt(l["san"]["bs"]),
            "; ".join(t[1] for t in l["terms"])))
    return ("(* GENERATED by tools/c17_layouts.py from the source text of asmjit/core/codewriter.cpp (encode_offset32).\n"
            "   Do not edit: ./check C17 regenerates this text on every run and re-checks the lemma when it changes. *)\n"
            "From Coq Require Import ZArith List Bool.\n"
            "From Verif Require Import Codec.OffsetModel Codec.LayoutModel.\n"
            "Import ListNotations.\nLocal Open Scope Z_scope.\n\n"
            "Definition gen_layouts : list (otype * layout) :=\n  [\n" + ";\n".join(rows) + "\n  ].\n\n"
            "(* the layouts in the source are the ones the theorems of Codec/LayoutProofs.v are about *)\n"
            "Lemma gen_layouts_ok : gen_layouts = expected_layouts.\nProof. reflexivity. Qed.\n")


def masks(layouts):
    """The field mask each layout implies (python side, for the oracle cross-check)."""
    out = {}
    for n, l in layouts.items():
        m = 0
        for t in l["terms"]:
            p = t[2]
            if p[0] == "mask":
                m |= (p[1] << p[2]) if p[2] >= 0 else (p[1] >> -p[2])
            else:
                m |= 1 << p[-1]
        out[WANTED[n]] = m
    return out


if __name__ == "__main__":
    import sys
    L, changes = extract(sys.argv[1] if len(sys.argv) > 1 else "/repo")
    sys.stdout.write(render(L))
    for c in changes:
        sys.stderr.write("TEXT CHANGED: %r\n" % (c,))
    sys.stderr.write("masks: %s\n" % {k: hex(v) for k, v in masks(L).items()})

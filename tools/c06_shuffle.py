"""C06 part B helpers: generator of argument assignments, translation of the dumped Builder instructions into the validator's
`minst` language (the whitelist of move-like instructions with their tiny semantics), and an independent concrete simulator of
the raw instruction text (register file + byte memory) used as the oracle that exhibits failing inputs."""
import itertools
import c06_abi as A

SIGNED = {34, 36, 38, 40}
GPW = {2: 8, 3: 8, 4: 16, 5: 32, 6: 64}
VECW = {9: 32, 10: 64, 11: 128, 12: 256, 13: 512}


def rt_group(rt):
    if 2 <= rt <= 6: return 0
    if 7 <= rt <= 15: return 1
    if rt == 16: return 2
    if rt == 28: return 3
    return None


def rt_width(rt):
    if rt in GPW: return GPW[rt]
    if rt in VECW: return VECW[rt]
    if rt in (16, 28): return 64
    return None


def is_intty(t): return 34 <= t <= 41


# ------------------------------------------------------------------ generator
def scmd(env, cc, args, dsts, pfp=0, avx=0, avx512=0, lalign=0, lsize=256, sareg=-1):
    # a 32/64-byte stack destination needs a frame that guarantees that alignment (the user's obligation: set_local_stack_alignment)
    for a, d in zip(args, dsts):
        if d[0] == 2:
            sz = A.sizeof(d[3] or a)
            if sz >= 16: lalign = max(lalign, sz)
    parts = ["S", env[0], env[1], env[2], cc, 255, len(args)] + list(args) + [pfp, avx, avx512, lalign, lsize, sareg]
    for d in dsts:
        parts += list(d)
    return " ".join(str(x) for x in parts)


NONE = (0, 0, 0, 0, 0)


def dreg(rt, rid, ty): return (1, rt, rid, ty, 0)
def dstack(off, ty): return (2, 0, 0, ty, off)


X64_GP_FREE = [0, 1, 2, 3, 6, 7, 8, 9, 10, 11, 12, 13, 14, 15]   # no rsp / rbp
FLOAT_AS_VEC = {42: 59, 43: 70}      # kFloat32x1 / kFloat64x1: how the Compiler types scalar floats that live in vector registers


def vec_dst_type(rng, t):
    """destination TypeId for a float/vector argument: mostly the vector-typed view (scalar float destination types are refused by
    emit_arg_move: recorded finding), sometimes void (deduced from the register), rarely the scalar type itself"""
    r = rng.random()
    if t in FLOAT_AS_VEC:
        return FLOAT_AS_VEC[t] if r < 0.8 else 0 if r < 0.93 else t
    return t if r < 0.9 else 0
INT_TYPES = [34, 35, 36, 37, 38, 39, 40, 41]


def gp_rt_for(ty):
    return 6 if ty in (40, 41) else 5


def gen_assignments(rng, tier):
    out = []
    sysv = (1, 0, 0)
    win = (1, 1, 1)
    srcs = [7, 6, 2, 1, 8, 9]
    # 1. every permutation of the first k integer argument registers (cycles of every length), 64-bit values
    kmax = 4 if tier == "quick" else 6
    for k in range(1, kmax + 1):
        for perm in itertools.permutations(range(k)):
            out.append(scmd(sysv, 0, [40] * k, [dreg(6, srcs[perm[i]], 40) for i in range(k)]))
    # 2. permutations with mixed widths / signedness (extension needed on some moves)
    for k in range(1, 4):
        for perm in itertools.permutations(range(k)):
            for _ in range(6 if tier == "quick" else 40):
                st = [rng.choice(INT_TYPES) for _ in range(k)]
                dt = [rng.choice(INT_TYPES) for _ in range(k)]
                out.append(scmd(sysv, 0, st, [dreg(gp_rt_for(dt[i]), srcs[perm[i]], dt[i]) for i in range(k)]))
    # 3. self moves needing extension: every (src type, dst type) pair on the same register, and to another register, and from the stack
    for s in INT_TYPES:
        for d in INT_TYPES:
            out.append(scmd(sysv, 0, [s], [dreg(gp_rt_for(d), 7, d)]))
            out.append(scmd(sysv, 0, [s], [dreg(gp_rt_for(d), 3, d)]))
            out.append(scmd(sysv, 0, [40] * 6 + [s], [NONE] * 6 + [dreg(gp_rt_for(d), 0, d)]))
            out.append(scmd(sysv, 0, [s], [dstack(16, d)]))
            out.append(scmd(sysv, 0, [40] * 6 + [s], [NONE] * 6 + [dstack(32, d)]))
    # 4. vector / float registers: permutations and moves, SSE / AVX / AVX-512
    for avx, avx512 in ((0, 0), (1, 0), (1, 1)):
        for k in range(1, 4):
            for perm in itertools.permutations(range(k)):
                ty = [rng.choice([42, 43, 75, 79, 80]) for _ in range(k)]
                out.append(scmd(sysv, 0, ty, [dreg(11, perm[i], vec_dst_type(rng, ty[i])) for i in range(k)], avx=avx, avx512=avx512))
        for t, rt in ((42, 11), (43, 11), (79, 11), (75, 11), (89, 12), (85, 12), (99, 13), (95, 13)):
            if rt == 12 and not avx: continue
            if rt == 13 and not avx512: continue
            for dt in {t, FLOAT_AS_VEC.get(t, t), 0}:
                out.append(scmd(sysv, 0, [t], [dreg(rt, 5, dt)], avx=avx, avx512=avx512))
                out.append(scmd(sysv, 0, [t], [dstack(64, dt)], avx=avx, avx512=avx512))
                out.append(scmd(sysv, 0, [t] * 9, [NONE] * 8 + [dreg(rt, 3, dt)], avx=avx, avx512=avx512))
                out.append(scmd(sysv, 0, [t] * 9, [NONE] * 8 + [dstack(64, dt)], avx=avx, avx512=avx512))
    # 5. random assignments: registers, stack sources and stack destinations, Win64 and SysV, scratch exhaustion
    n = 3000 if tier == "quick" else 120000
    for _ in range(n):
        env, cc = (sysv, 0) if rng.random() < 0.8 else (win, 0)
        na = rng.choice([1, 2, 3, 4, 5, 6, 7, 8, 9, 10, 12])
        args = []
        for _i in range(na):
            r = rng.random()
            args.append(rng.choice(INT_TYPES) if r < 0.7 else rng.choice([42, 43]) if r < 0.85 else rng.choice([75, 79, 80]))
        gp_pool = list(X64_GP_FREE)
        # bias the destination pool to the source registers so that cycles and chains appear
        if rng.random() < 0.7:
            gp_pool = [r for r in gp_pool if r in (srcs if env == sysv else [1, 2, 8, 9])] + rng.sample(gp_pool, rng.randrange(0, 4))
            gp_pool = list(dict.fromkeys(gp_pool))
        rng.shuffle(gp_pool)
        vec_pool = list(range(8)) if rng.random() < 0.7 else list(range(16))
        rng.shuffle(vec_pool)
        dsts = []
        soff = 0
        full = rng.random() < 0.1          # scratch exhaustion: assign as many GP destinations as possible
        for t in args:
            r = rng.random()
            if r < 0.12 and not full:
                dsts.append(NONE)
            elif r < 0.27 and not full:
                if is_intty(t):
                    dt = rng.choice(INT_TYPES) if rng.random() < 0.5 else t
                else:
                    dt = vec_dst_type(rng, t) or t
                sz = max(A.sizeof(dt), 8)
                soff = (soff + sz - 1) // sz * sz
                dsts.append(dstack(soff, dt))
                soff += sz
            elif is_intty(t):
                if not gp_pool:
                    dsts.append(NONE); continue
                dt = rng.choice(INT_TYPES) if rng.random() < 0.5 else t
                dsts.append(dreg(gp_rt_for(dt), gp_pool.pop(), dt))
            else:
                if not vec_pool:
                    dsts.append(NONE); continue
                dsts.append(dreg(11, vec_pool.pop(), vec_dst_type(rng, t)))
        pfp = 1 if rng.random() < 0.15 else 0
        if pfp:
            dsts = [d if not (d[0] == 1 and d[1] in (5, 6) and d[2] == 5) else NONE for d in dsts]
        out.append(scmd(env, cc, args, dsts, pfp=pfp, avx=1 if rng.random() < 0.3 else 0, lsize=512))
    out += gen_other_archs(rng, tier)
    out += gen_gp_fragment(rng, tier)
    out += gen_full_boundaries(rng, tier)
    # 6. all 14 free GP registers are destinations (no scratch register left) with stack sources and stack destinations
    for _ in range(40 if tier == "quick" else 600):
        na = rng.randrange(7, 15)
        args = [rng.choice([38, 40, 41]) for _ in range(na)]
        pool = list(X64_GP_FREE); rng.shuffle(pool)
        dsts = []
        for i, t in enumerate(args):
            if pool and rng.random() < 0.9: dsts.append(dreg(gp_rt_for(t), pool.pop(), t))
            else: dsts.append(dstack(8 * i, t))
        out.append(scmd(sysv, 0, args, dsts, lsize=512))
    return out


def gen_gp_fragment(rng, tier):
    """pure register-to-register GP assignments (the fragment the solver MODEL covers): random partial permutations with chains, cycles of every
    length, self moves, random integer type pairs; x86-64 (xchg) and AArch64 (scratch register)"""
    out = []
    n = 1500 if tier == "quick" else 60000
    for _ in range(n):
        if rng.random() < 0.6:
            env, srcs, pool = (1, 0, 0), [7, 6, 2, 1, 8, 9], X64_GP_FREE
        else:
            env, srcs, pool = (2, 0, 0) if rng.random() < 0.5 else (2, 2, 2), list(range(8)), list(range(0, 18)) + list(range(19, 29))
        k = rng.randrange(1, len(srcs) + 1)
        wide = rng.random() < 0.4
        args = [rng.choice([40, 41]) if wide else rng.choice([34, 35, 36, 37, 38, 39, 40, 41]) for _i in range(k)]
        mode = rng.random()
        if mode < 0.55:          # destinations among the source registers: permutations / cycles / chains
            cand = srcs[:k] if rng.random() < 0.6 else srcs[:min(len(srcs), k + 1)]
        elif mode < 0.8:
            cand = srcs[:k] + rng.sample([r for r in pool if r not in srcs[:k]], 2)
        else:
            cand = list(pool)
        cand = list(cand); rng.shuffle(cand)
        dsts = []
        for t in args:
            if not cand or rng.random() < 0.1:
                dsts.append(NONE); continue
            dt = t if rng.random() < 0.6 else rng.choice([34, 35, 36, 37, 38, 39, 40, 41])
            dsts.append(dreg(gp_rt_for(dt), cand.pop(), dt))
        out.append(scmd(env, 0, args, dsts))
    return out


A64_GP_FREE = list(range(0, 18)) + list(range(19, 29))
INT32_TYPES = [34, 35, 36, 37, 38, 39]


def gen_full_boundaries(rng, tier):
    """assignments at the case-split boundaries of the proofs about SolverFullModel.v: a GP cycle and a vector cycle in ONE assignment (the pass loop and
    its work flags are shared by the groups), with and without a stack destination / stack source next to them, SSE and AVX (XMM / YMM / ZMM), x86-64,
    AArch64 and 32-bit x86; every integer type pair through every kind of move on every target"""
    out = []
    sysv = (1, 0, 0)
    gsrc = [7, 6, 2, 1]
    for kg in (2, 3):
        for kv in (2, 3):
            for pg in itertools.permutations(range(kg)):
                for pv in itertools.permutations(range(kv)):
                    for avx, vt, vrt in ((0, 43, 11), (0, 75, 11), (1, 75, 11), (1, 85, 12), (1, 42, 11)):
                        it = [rng.choice(INT_TYPES) for _ in range(kg)]; dt = [rng.choice(INT_TYPES) for _ in range(kg)]
                        args = it + [vt] * kv
                        dsts = [dreg(gp_rt_for(dt[i]), gsrc[pg[i]], dt[i]) for i in range(kg)] + [dreg(vrt, pv[i], FLOAT_AS_VEC.get(vt, vt)) for i in range(kv)]
                        out.append(scmd(sysv, 0, args, dsts, avx=avx))
                        # the same with a register -> stack and a stack -> register neighbour
                        args2 = args + [40] * (6 - kg) + [38, 39]
                        dsts2 = dsts + [NONE] * (6 - kg - 1) + [dstack(32, 40), dreg(6, 10, 40), dstack(48, 36)]
                        out.append(scmd(sysv, 0, args2, dsts2, avx=avx, lsize=512))
                    for env in ((2, 0, 0), (2, 2, 2)):
                        it = [rng.choice(INT_TYPES) for _ in range(kg)]; dt = [rng.choice(INT_TYPES) for _ in range(kg)]
                        vt, vrt = rng.choice([(42, 9), (43, 10), (75, 11)])
                        out.append(scmd(env, 0, it + [vt] * kv, [dreg(gp_rt_for(dt[i]), pg[i], dt[i]) for i in range(kg)] + [dreg(vrt, pv[i], vt) for i in range(kv)]))
    # AVX-512: ZMM cycles
    for k in (2, 3):
        for perm in itertools.permutations(range(k)):
            out.append(scmd(sysv, 0, [95] * k, [dreg(13, perm[i], 95) for i in range(k)], avx=1, avx512=1))
            out.append(scmd(sysv, 0, [99] * k + [85], [dreg(13, perm[i], 99) for i in range(k)] + [dstack(64, 85)], avx=1, avx512=1))
    # every integer type pair, every kind of move: x86-64 with AVX enabled (the GP part must not change), 32-bit fastcall / cdecl
    for s_ in INT_TYPES:
        for d_ in INT_TYPES:
            out.append(scmd(sysv, 0, [s_, 43], [dstack(16, d_), dreg(11, 3, 70)], avx=1))
            out.append(scmd(sysv, 0, [40] * 6 + [s_, s_], [NONE] * 6 + [dreg(gp_rt_for(d_), 0, d_), dstack(40, d_)], avx=1))
    for s_ in INT32_TYPES:
        for d_ in INT32_TYPES:
            out.append(scmd((0, 1, 1), 2, [s_, s_, s_, s_], [dreg(5, 2, d_), dreg(5, 1, d_), dstack(16, d_), dreg(5, 6, d_)]))        # fastcall: ECX, EDX, 2 x stack
            out.append(scmd((0, 0, 0), 0, [s_, s_, 75, 75], [dstack(8, d_), dreg(5, 7, d_), dreg(11, 1, 75), dreg(11, 0, 75)]))       # cdecl: stack sources, XMM0/1 swap
    return out


def gen_other_archs(rng, tier):
    """AArch64 (AAPCS64 and Apple) and 32-bit x86 (cdecl: stack sources; fastcall: ECX/EDX)"""
    out = []
    for env in ((2, 0, 0), (2, 2, 2)):
        for k in range(1, 4):
            for perm in itertools.permutations(range(k)):
                out.append(scmd(env, 0, [40] * k, [dreg(6, perm[i], 40) for i in range(k)]))
        for s in INT_TYPES:
            for d in INT_TYPES:
                out.append(scmd(env, 0, [s], [dreg(gp_rt_for(d), 0, d)]))
                out.append(scmd(env, 0, [s], [dreg(gp_rt_for(d), 9, d)]))
                out.append(scmd(env, 0, [40] * 8 + [s], [NONE] * 8 + [dreg(gp_rt_for(d), 3, d)]))
                out.append(scmd(env, 0, [s], [dstack(16, d)]))
                out.append(scmd(env, 0, [40] * 8 + [s], [NONE] * 8 + [dstack(32, d)]))
        for t, rt in ((42, 9), (43, 10), (69, 10), (75, 11), (79, 11)):
            out.append(scmd(env, 0, [t], [dreg(rt, 5, t)]))
            out.append(scmd(env, 0, [t, t], [dreg(rt, 1, t), dreg(rt, 0, t)]))
            out.append(scmd(env, 0, [t], [dstack(32, t)]))
            out.append(scmd(env, 0, [t] * 9, [NONE] * 8 + [dreg(rt, 3, t)]))
            out.append(scmd(env, 0, [t] * 9, [NONE] * 8 + [dstack(32, t)]))
        for _ in range(600 if tier == "quick" else 30000):
            na = rng.choice([1, 2, 3, 4, 6, 8, 9, 10, 12])
            args = [rng.choice(INT_TYPES) if rng.random() < 0.7 else rng.choice([42, 43, 75, 69]) for _i in range(na)]
            gp = list(A64_GP_FREE)
            if rng.random() < 0.6: gp = list(range(0, 8)) + rng.sample(gp, 3)
            gp = list(dict.fromkeys(gp)); rng.shuffle(gp)
            vp = list(range(8)) + rng.sample(range(8, 32), 3); rng.shuffle(vp)
            dsts = []; soff = 0
            for t in args:
                r = rng.random()
                if r < 0.12: dsts.append(NONE)
                elif r < 0.27:
                    dt = (rng.choice(INT_TYPES) if rng.random() < 0.5 else t) if is_intty(t) else t
                    sz = max(A.sizeof(dt), 8); soff = (soff + sz - 1) // sz * sz
                    dsts.append(dstack(soff, dt)); soff += sz
                elif is_intty(t):
                    dt = rng.choice(INT_TYPES) if rng.random() < 0.5 else t
                    dsts.append(dreg(gp_rt_for(dt), gp.pop(), dt) if gp else NONE)
                else:
                    dsts.append(dreg({42: 9, 43: 10, 69: 10, 75: 11}[t], vp.pop(), t) if vp else NONE)
            out.append(scmd(env, 0, args, dsts, lsize=512))
    x86_gp = [0, 1, 2, 3, 6, 7]
    for env, cc in (((0, 0, 0), 0), ((0, 1, 1), 2), ((0, 1, 1), 1)):
        for s in INT32_TYPES:
            for d in INT32_TYPES:
                out.append(scmd(env, cc, [s], [dreg(5, 1, d)]))
                out.append(scmd(env, cc, [s], [dreg(5, 3, d)]))
                out.append(scmd(env, cc, [s], [dstack(16, d)]))
        for perm in itertools.permutations(range(2)):
            out.append(scmd(env, cc, [38, 39], [dreg(5, [1, 2][perm[0]], 38), dreg(5, [1, 2][perm[1]], 39)]))
        for _ in range(300 if tier == "quick" else 15000):
            na = rng.choice([1, 2, 3, 4, 5, 6])
            args = [rng.choice(INT32_TYPES) if rng.random() < 0.8 else rng.choice([42, 43, 75]) for _i in range(na)]
            gp = list(x86_gp); rng.shuffle(gp)
            vp = list(range(8)); rng.shuffle(vp)
            dsts = []; soff = 0
            for t in args:
                r = rng.random()
                if r < 0.12: dsts.append(NONE)
                elif r < 0.25:
                    dt = (rng.choice(INT32_TYPES) if rng.random() < 0.5 else t) if is_intty(t) else (vec_dst_type(rng, t) or t)
                    sz = max(A.sizeof(dt), 4); soff = (soff + sz - 1) // sz * sz
                    dsts.append(dstack(soff, dt)); soff += sz
                elif is_intty(t):
                    dt = rng.choice(INT32_TYPES) if rng.random() < 0.5 else t
                    dsts.append(dreg(5, gp.pop(), dt) if gp else NONE)
                else:
                    dsts.append(dreg(11, vp.pop(), vec_dst_type(rng, t)) if vp else NONE)
            out.append(scmd(env, cc, args, dsts, lsize=256))
    return out


# ------------------------------------------------------------------ parsing of the S answers
def parse_S(line):
    """-> dict(status, err, nodes=[mnemonic...], bytes, detail, sp, sareg, saoff_sp, saoff_sa, dirty, pres)"""
    head, _, tail = line.partition(" insts=")
    toks = head.split()
    res = {"status": toks[1] if len(toks) > 1 else "?", "raw": line, "insts": [], "nodes": [], "bytes": ""}
    if res["status"].startswith("err=") and not res["status"].startswith("err=emit"):
        res["err"] = res["status"][4:]
        try:
            res["detail"] = A.parse_detail(head)
        except Exception:
            pass
        return res
    d = {}
    for t in toks[2:]:
        if "=" in t:
            k, v = t.split("=", 1)
            d[k] = v
    res["err"] = res["status"][4:] if res["status"].startswith("err=") else None
    for k in ("sp", "sareg", "saoff_sp", "saoff_sa", "da", "salign"):
        res[k] = int(d.get(k, 0))
    res["dirty"] = [int(x) for x in d["dirty"].split(",")]
    res["pres"] = [int(x) for x in d["pres"].split(",")]
    res["detail"] = A.parse_detail(head)
    res["asm"] = d.get("asm", "?")
    res["bytes"] = d.get("bytes", "")
    for part in tail.split(";"):
        part = part.strip()
        if not part or part.startswith("node"): continue
        res["nodes"].append(part)
    return res


# ------------------------------------------------------------------ independent disassembly (llvm-mc, Intel syntax) of the Assembler's bytes
GP64N = ["rax", "rcx", "rdx", "rbx", "rsp", "rbp", "rsi", "rdi"] + ["r%d" % i for i in range(8, 16)]
GP32N = ["eax", "ecx", "edx", "ebx", "esp", "ebp", "esi", "edi"] + ["r%dd" % i for i in range(8, 16)]
GP16N = ["ax", "cx", "dx", "bx", "sp", "bp", "si", "di"] + ["r%dw" % i for i in range(8, 16)]
GP8N = ["al", "cl", "dl", "bl", "spl", "bpl", "sil", "dil"] + ["r%db" % i for i in range(8, 16)]
REGS = {}
for _i in range(16):
    REGS[GP64N[_i]] = (0, _i, 64); REGS[GP32N[_i]] = (0, _i, 32); REGS[GP16N[_i]] = (0, _i, 16); REGS[GP8N[_i]] = (0, _i, 8)
for _i in range(32):
    REGS["xmm%d" % _i] = (1, _i, 128); REGS["ymm%d" % _i] = (1, _i, 256); REGS["zmm%d" % _i] = (1, _i, 512)
for _i in range(8):
    REGS["k%d" % _i] = (2, _i, 64); REGS["mm%d" % _i] = (3, _i, 64)
PTR = {"byte": 8, "word": 16, "dword": 32, "qword": 64, "xmmword": 128, "ymmword": 256, "zmmword": 512, "tbyte": 80}


def parse_intel_op(txt):
    import re
    txt = txt.strip()
    if txt in REGS:
        g, i, w = REGS[txt]
        return ("r", g, i, w)
    m = re.fullmatch(r"(?:(\w+) ptr )?\[(\w+)(?: ([+-]) (\d+|0x[0-9a-fA-F]+))?\]", txt)
    if m and m.group(2) in REGS:
        bits = PTR.get(m.group(1), 0) if m.group(1) else 0
        disp = int(m.group(4), 0) if m.group(4) else 0
        if m.group(3) == "-": disp = -disp
        return ("m", bits, REGS[m.group(2)][1], disp)
    return ("?", txt)


A64REGS = {"sp": (0, 31, 64), "wsp": (0, 31, 32), "xzr": (0, 32, 64), "wzr": (0, 32, 32)}
for _i in range(31):
    A64REGS["x%d" % _i] = (0, _i, 64); A64REGS["w%d" % _i] = (0, _i, 32)
for _i in range(32):
    A64REGS["b%d" % _i] = (1, _i, 8); A64REGS["h%d" % _i] = (1, _i, 16); A64REGS["s%d" % _i] = (1, _i, 32)
    A64REGS["d%d" % _i] = (1, _i, 64); A64REGS["q%d" % _i] = (1, _i, 128)
    A64REGS["v%d.8b" % _i] = (1, _i, 64); A64REGS["v%d.16b" % _i] = (1, _i, 128)


def parse_a64_op(txt):
    import re
    txt = txt.strip()
    if txt in A64REGS:
        g, i, w = A64REGS[txt]
        return ("r", g, i, w)
    m = re.fullmatch(r"\[(\w+)(?:, #(-?\d+|-?0x[0-9a-fA-F]+))?\]", txt)
    if m and m.group(1) in A64REGS:
        return ("m", 0, A64REGS[m.group(1)][1], int(m.group(2), 0) if m.group(2) else 0)
    return ("?", txt)


def split_ops(txt):
    out, depth, cur = [], 0, ""
    for ch in txt:
        if ch == "[": depth += 1
        if ch == "]": depth -= 1
        if ch == "," and depth == 0:
            out.append(cur); cur = ""
        else:
            cur += ch
    if cur.strip(): out.append(cur)
    return out


def disassemble(byte_strings, arch):
    """one llvm-mc run for all cases (ud2 / udf #0 separates them).  -> list of lists of (mnemonic, [ops])"""
    import subprocess
    if not byte_strings:
        return []
    sep = " 0x00 0x00 0x00 0x00" if arch == 2 else " 0x0f 0x0b"
    blob = [" ".join("0x" + bs[i:i + 2] for i in range(0, len(bs), 2)) + sep for bs in byte_strings]
    if arch == 2:
        cmd = ["llvm-mc", "--disassemble", "-triple=aarch64", "-mattr=+neon,+fp-armv8"]
    else:
        cmd = ["llvm-mc", "--disassemble", "-triple=" + ("x86_64" if arch == 1 else "i386"), "-mattr=+avx512f,+avx512bw,+avx512dq,+avx512vl,+mmx,+sse4.2,+avx2",
               "--output-asm-variant=1"]
    p = subprocess.run(cmd, input="\n".join(blob) + "\n", stdout=subprocess.PIPE, stderr=subprocess.PIPE, text=True, timeout=600)
    out = [[]]
    for line in p.stdout.split("\n"):
        line = line.split("//")[0].split("#" if arch != 2 else "\x00")[0].strip() if arch != 2 else line.split("//")[0].strip()
        if not line or line.startswith("."): continue
        parts = line.split(None, 1)
        m = parts[0]
        if m == "ud2" or (arch == 2 and m == "udf"):
            out.append([]); continue
        ops = [(parse_a64_op if arch == 2 else parse_intel_op)(x) for x in split_ops(parts[1])] if len(parts) > 1 else []
        out[-1].append((m, ops))
    out.pop()
    if len(out) != len(byte_strings) or p.returncode != 0:
        raise RuntimeError("llvm-mc: %d cases in, %d out, rc %s: %s" % (len(byte_strings), len(out), p.returncode, p.stderr[-400:]))
    return out


# ------------------------------------------------------------------ whitelist: disassembled instruction -> minst (validator language)
# The whitelist itself (mnemonic tables, operand-shape conditions, widths, attribution of memory operands to the incoming / destination
# area, tracking of the SA register) is coq/theories/CallConv/DecodeModel.v, proved against a reference ISA semantics in DecodeProofs.v and
# extracted into the model driver (command D).  Python only hands over what llvm-mc printed.
class Unmodelled(Exception):
    pass


ALIGNED = {"movaps", "movapd", "movdqa", "vmovaps", "vmovapd", "vmovdqa", "vmovdqa32", "vmovdqa64"}
# the next three belong to the SIMULATOR below (its own, independent reading of the instructions)
VEC_FULL = {"movaps", "movups", "movapd", "movupd", "movdqa", "movdqu", "vmovaps", "vmovups", "vmovapd", "vmovupd", "vmovdqa", "vmovdqu",
            "vmovdqa32", "vmovdqu32", "vmovdqa64", "vmovdqu64"}


def opw(op):
    return op[3] if op[0] == "r" else op[1]


def loc_of_op(op, S, is_dst):
    if op[0] == "r":
        return ("R", op[1], op[2])
    if op[0] == "m":
        _, bits, base, off = op
        if is_dst:
            if base != S["sp"]: raise Unmodelled("store not SP based")
            return ("M", 1, off)
        if base == S["sp"] and not S["da"]:
            return ("M", 0, off - S["saoff_sp"])
        if base == S["sareg"]:
            return ("M", 0, off - S["saoff_sa"])
        raise Unmodelled("load base %d" % base)
    raise Unmodelled("operand %r" % (op,))


def op_txt(op):
    if op[0] == "r": return "r %d %d %d" % (op[1], op[2], op[3])
    if op[0] == "m": return "m %d %d %d" % (op[1], op[2], op[3])
    return "?"


def decode_cmd(S):
    """the D command for one emitted sequence: frame facts + the printed instructions"""
    parts = ["D", 1 if S.get("sp") == 31 else 0, S["sp"], S["sareg"], S["saoff_sp"], S["saoff_sa"], 1 if S.get("da") else 0, len(S["insts"])]
    for m, ops in S["insts"]:
        parts += [m, len(ops)] + [op_txt(o) for o in ops]
    return " ".join(str(x) for x in parts)


def parse_loc(f):
    return (f[0], int(f[1]), int(f[2]))


def parse_minsts(txt):
    out = []
    for part in txt.split(" ; "):
        f = part.split()
        if not f: continue
        if f[0] == "X":
            out.append(("X", parse_loc(f[1:4]), parse_loc(f[4:7]), f[7], int(f[8]), int(f[9]), int(f[10])))
        else:
            out.append(("G", parse_loc(f[1:4]), parse_loc(f[4:7]), int(f[7]), int(f[8])))
    return out


def decode_all(model, Ss, run_lines):
    """run the verified decoder over every emitted sequence (one batch); S['minsts'] = list of minst | S['unmodelled'] = reason"""
    idx = [i for i, S in enumerate(Ss) if S.get("status") == "ok" and "insts" in S and "sp" in S]
    ans = run_lines(model, [decode_cmd(Ss[i]) for i in idx])
    for i, a in zip(idx, ans):
        S = Ss[i]
        if a.startswith("D ok"):
            S["minsts"] = parse_minsts(a[4:].strip())
        else:
            S["unmodelled"] = a[6:].strip() or "refused by the whitelist"


def translate(S):
    """whole sequence -> list of minst (the verified decoder's answer, see decode_all)"""
    if "minsts" in S: return S["minsts"]
    raise Unmodelled(S.get("unmodelled", "not decoded"))


def loc_txt(l):
    return "%s %d %d" % l


def minst_txt(mi):
    if mi[0] == "X":
        return "X %s %s %s %d %d %d" % (loc_txt(mi[1]), loc_txt(mi[2]), mi[3], mi[4], mi[5], mi[6])
    return "G %s %s %d %d" % (loc_txt(mi[1]), loc_txt(mi[2]), mi[3], mi[4])


# ------------------------------------------------------------------ moves required by an assignment
def moves_of(cmd_dsts, detail, regtypeid):
    """cmd_dsts: list of (k, rt, id, ty, off) as given; detail: parsed FuncDetail (sources).  -> list of dict"""
    mvs = []
    for i, d in enumerate(cmd_dsts):
        if d[0] == 0: continue
        pack = detail["args"][i] if i < len(detail["args"]) else []
        if not pack: continue
        sv = pack[0]      # (ty, kind, rt, id, off, ind)
        sty = sv[0]
        if sv[1] == 1:
            g = rt_group(sv[2]); src = ("R", g, sv[3])
        elif sv[1] == 2:
            src = ("M", 0, sv[4])
        else:
            continue
        dty = d[3]
        if d[0] == 1:
            if dty == 0: dty = regtypeid[d[1]]
            dst = ("R", rt_group(d[1]), d[2])
        else:
            if dty == 0: dty = sty
            dst = ("M", 1, d[4])
        mvs.append({"arg": i, "src": src, "dst": dst, "sty": sty, "dty": dty, "sbits": 8 * A.sizeof(sty), "dbits": 8 * A.sizeof(dty),
                    # extension kind: sign-extend when both types are signed, zero-extend when the source is unsigned.  A SIGNED source
                    # with a wider UNSIGNED destination is ambiguous (a C conversion sign-extends, the x86 cast table of emit_arg_move
                    # zero-extends, the a64 loads sign-extend): only the source's own bits are required there ("int": False)
                    "signed": (sty in SIGNED) and (dty in SIGNED),
                    "int": is_intty(sty) and is_intty(dty) and not ((sty in SIGNED) and (dty not in SIGNED) and A.sizeof(sty) < A.sizeof(dty)),
                    "ind": sv[5]})
    return mvs


def shape(mv):
    """shape of one required move: the key under which a failing move is reported"""
    sk = "reg" if mv["src"][0] == "R" else "stack"
    dk = "reg" if mv["dst"][0] == "R" else "stack"
    if mv["int"]:
        if mv["sbits"] < mv["dbits"]: rel = "int-widen-signed" if mv["signed"] else "int-widen-unsigned"
        elif mv["sbits"] == mv["dbits"]: rel = "int-same-size"
        else: rel = "int-narrow"
    elif is_intty(mv["sty"]) and is_intty(mv["dty"]): rel = "int-signed-to-wider-unsigned"
    elif mv["sty"] in (42, 43): rel = "scalar-float"
    else: rel = "vec%d" % mv["sbits"]
    return "%s-to-%s/%s" % (sk, dk, rel)


def scratch_clobbers(mv, ms, mvs):
    """root cause "the scratch register of a stack-to-stack move is a live argument register": an instruction loads ANOTHER argument's incoming
    stack slot (an argument bound for a stack destination) into this move's source before it was read, or into its destination after it
    was written"""
    for idx, mi in enumerate(ms):
        if not (mi[0] == "X" and mi[1][0] == "R" and mi[2][0] == "M" and mi[2][1] == 0): continue
        if not any(o is not mv and o["src"] == mi[2] and o["dst"][0] == "M" for o in mvs): continue
        if mi[1] == mv["src"]:
            read_before = any((m2[0] == "X" and m2[2] == mv["src"]) or (m2[0] == "G" and mv["src"] in (m2[1], m2[2])) for m2 in ms[:idx])
            if not read_before: return True
        if mi[1] == mv["dst"] and mv["dst"] != mv["src"]:
            if any(m2[0] == "X" and m2[1] == mv["dst"] for m2 in ms[:idx]): return True
    return False


def move_txt(mv):
    return "%s %s %d %d %d %d" % (loc_txt(mv["src"]), loc_txt(mv["dst"]), mv["sbits"], 1 if mv["signed"] else 0, mv["dbits"], 1 if mv["int"] else 0)


def allowed_locs(S):
    """registers the shuffle may change: dirty in the frame (saved by the prolog when callee-saved) or not preserved by the convention"""
    out = []
    arch = S.get("arch", 1)
    for g in range(4):
        m = (S["dirty"][g] | (~S["pres"][g])) & 0xFFFFFFFF
        nregs = {0: (8, 8, 8, 8), 1: (16, 32, 8, 8), 2: (32, 32, 0, 0)}[arch][g]
        for i in range(nregs):
            if (m >> i) & 1:
                out.append(("R", g, i))
    return out


# ------------------------------------------------------------------ independent concrete simulator of the disassembled instructions
class SimError(Exception):
    pass


def sext(v, n):
    v &= (1 << n) - 1
    return v - (1 << n) if v >> (n - 1) else v


REGW = {0: 64, 1: 512, 2: 64, 3: 64}
SA_PTR = 0x5AA55AA5C3C30000


class Machine:
    def __init__(self, S, rng):
        self.S = S
        self.regs = {}
        self.mem = {0: {}, 1: {}}
        self.rng = rng
        self.init_regs = {}
        self.stored = set()
        self.faults = []
        if S["sareg"] != S["sp"]:
            self.regs[(0, S["sareg"])] = SA_PTR          # the SA register holds the address of the incoming stack arguments
            self.init_regs[(0, S["sareg"])] = SA_PTR

    def reg(self, g, i):
        if (g, i) not in self.regs:
            v = self.rng.getrandbits(REGW[g]) | (1 << (REGW[g] - 1))
            self.regs[(g, i)] = v
            self.init_regs[(g, i)] = v
        return self.regs[(g, i)]

    def byte(self, area, off):
        m = self.mem[area]
        if off not in m:
            # incoming bytes: random with the top bit set (so that a missing sign extension shows); destination area: a fixed pattern that is
            # neither 0x00 nor 0xFF, so a byte the shuffle should have written (zero / sign fill) can never be right by accident
            m[off] = (self.rng.getrandbits(8) | 0x80) if area == 0 else (0xA5 ^ (off & 0x0F))
        return m[off]

    def load(self, area, off, nbytes):
        return sum(self.byte(area, off + k) << (8 * k) for k in range(nbytes))

    def store(self, area, off, nbytes, v):
        for k in range(nbytes):
            self.mem[area][off + k] = (v >> (8 * k)) & 0xFF
            self.stored.add(off + k)

    def check_aligned(self, m, op):
        """movaps / movapd / movdqa (and VEX / EVEX forms) fault on an address that is not a multiple of the operand size"""
        if op[0] == "m" and m in ALIGNED and op[2] == self.S["sp"] and not self.S.get("da"):
            n = op[1] // 8
            sal = self.S.get("salign", 16) or 16
            if n and not (sal % n == 0 and op[3] % n == 0):      # SP is only known to be a multiple of the frame's stack alignment
                self.faults.append("%s at [sp%+d] needs %d-byte alignment (stack alignment %d)" % (m, op[3], n, sal))

    def mem_area(self, op, is_dst):
        # a base register whose VALUE is the SA pointer addresses the incoming argument area, whatever register that is by now
        if op[0] == "m" and op[2] != self.S["sp"] and (self.regs.get((0, op[2]), 0) & 0xFFFFFFFF) == (SA_PTR & 0xFFFFFFFF) and not is_dst:
            return 0, op[3] - self.S["saoff_sa"]
        try:
            l = loc_of_op(op, self.S, is_dst)
        except Unmodelled as e:
            raise SimError(str(e))
        if op[0] == "m" and op[2] == self.S["sareg"] and op[2] != self.S["sp"]:
            raise SimError("load through a register that no longer holds the SA pointer")
        return l[1], l[2]

    def read(self, op, nbits):
        if op[0] == "r":
            return self.reg(op[1], op[2]) & ((1 << nbits) - 1)
        a, o = self.mem_area(op, False)
        return self.load(a, o, nbits // 8)

    def write_reg(self, op, v, wbits, zero_to):
        g, i = op[1], op[2]
        old = self.reg(g, i)
        keep = (old >> zero_to) << zero_to if zero_to < REGW[g] else 0
        self.regs[(g, i)] = (keep | (v & ((1 << wbits) - 1))) & ((1 << REGW[g]) - 1)

    def step_a64(self, m, d, s):
        """independent AArch64 semantics (ARM ARM): W writes zero bits 32..63; S/D/Q and vector writes zero the rest of the register"""
        if m in ("str", "stur", "strb", "strh"):
            n = {"strb": 8, "strh": 16}.get(m, d[3])
            a, o = self.mem_area(s, True)
            self.store(a, o, n // 8, self.read(d, n)); return
        if m in ("ldr", "ldur", "ldrb", "ldrh", "ldrsb", "ldrsh", "ldrsw"):
            n = {"ldrb": 8, "ldrh": 16, "ldrsb": 8, "ldrsh": 16, "ldrsw": 32}.get(m, d[3])
            a, o = self.mem_area(s, False)
            v = self.load(a, o, n // 8)
            if m in ("ldrsb", "ldrsh", "ldrsw"): v = sext(v, n) & ((1 << d[3]) - 1)
            self.write_reg(d, v, d[3], 64 if d[1] == 0 else 512); return
        if d[0] != "r" or s[0] != "r": raise SimError("a64 operands of " + m)
        if m == "mov" and d[1] == 0 and s[1] == 0 and d[2] < 31 and s[2] < 31 and d[3] == s[3]:
            self.write_reg(d, self.read(s, d[3]), d[3], 64); return
        if m in ("mov", "fmov") and d[1] == 1 and s[1] == 1 and d[3] == s[3]:
            self.write_reg(d, self.read(s, d[3]), d[3], 512); return
        if m in ("sxtb", "sxth", "sxtw", "uxtb", "uxth") and d[1] == 0 and s[1] == 0:
            n = {"b": 8, "h": 16, "w": 32}[m[-1]]
            v = self.read(s, n)
            if m[0] == "s": v = sext(v, n) & ((1 << d[3]) - 1)
            self.write_reg(d, v, d[3], 64); return
        raise SimError("a64 instruction " + m)

    def step(self, inst):
        m, ops = inst
        if len(ops) != 2 or ops[0][0] == "?" or ops[1][0] == "?": raise SimError("operands of " + m)
        d, s = ops
        if self.S.get("sp") == 31:
            return self.step_a64(m, d, s)
        dw, sw = opw(d), opw(s)
        vex = m.startswith("v")
        self.check_aligned(m, d)       # stores into the frame; loads of incoming vector arguments rely on the caller's ABI alignment
        if m == "xchg":
            if d[0] != "r" or s[0] != "r": raise SimError("xchg mem")
            a = self.read(d, dw); b = self.read(s, dw)
            zt = 64 if dw >= 32 else dw
            self.write_reg(d, b, dw, zt); self.write_reg(s, a, dw, zt)
            return
        if m == "mov":
            if d[0] == "m":
                a, o = self.mem_area(d, True); self.store(a, o, sw // 8, self.read(s, sw)); return
            self.write_reg(d, self.read(s, dw), dw, 64 if dw >= 32 else dw); return
        if m in ("movzx", "movsx", "movsxd"):
            if sw == 0: raise SimError(m + " without size")
            v = self.read(s, sw)
            if m != "movzx": v = sext(v, sw) & ((1 << dw) - 1)
            self.write_reg(d, v, dw, 64 if dw >= 32 else dw); return
        if m in VEC_FULL:
            if d[0] == "m":
                a, o = self.mem_area(d, True); self.store(a, o, sw // 8, self.read(s, sw)); return
            self.write_reg(d, self.read(s, dw), dw, 512 if vex else dw); return
        n = None
        if m in ("movd", "vmovd", "movss", "vmovss", "kmovd"): n = 32
        elif m in ("movq", "vmovq", "movsd", "vmovsd", "kmovq", "movq2dq", "movdq2q"): n = 64
        elif m == "kmovb": n = 8
        elif m == "kmovw": n = 16
        if n is not None:
            v = self.read(s, n)
            if d[0] == "m":
                a, o = self.mem_area(d, True); self.store(a, o, n // 8, v); return
            if d[1] == 1:
                if m in ("movss", "movsd", "vmovss", "vmovsd") and s[0] == "r": raise SimError(m + " reg,reg")
                self.write_reg(d, v, n, 512 if vex else 128)
            else:
                self.write_reg(d, v, n, 64)
            return
        raise SimError("instruction " + m)


def simulate(S, mvs, rng):
    """-> (wrong destinations [(move, got, want)], clobbered registers outside the allowed set);  raises SimError"""
    M = Machine(S, rng)
    init = {}
    for mv in mvs:
        if mv["src"][0] == "R":
            M.reg(mv["src"][1], mv["src"][2])
            M.regs[(mv["src"][1], mv["src"][2])] |= 1 << (mv["sbits"] - 1)          # the source's own sign bit is set, garbage above it
            M.init_regs[(mv["src"][1], mv["src"][2])] = M.regs[(mv["src"][1], mv["src"][2])]
            init[mv["arg"]] = M.regs[(mv["src"][1], mv["src"][2])]
        else: init[mv["arg"]] = M.load(0, mv["src"][2], max(mv["sbits"] // 8, 1))
    for inst in S["insts"]:
        M.step(inst)
    wrong = []
    for mv in mvs:
        v0 = init[mv["arg"]] & ((1 << mv["sbits"]) - 1)
        if mv["int"] and mv["sbits"] < mv["dbits"]:
            want = (sext(v0, mv["sbits"]) if mv["signed"] else v0) & ((1 << mv["dbits"]) - 1)
            nb = mv["dbits"]
        else:
            nb = min(mv["sbits"], mv["dbits"])
            want = v0 & ((1 << nb) - 1)
        if mv["dst"][0] == "R": got = M.reg(mv["dst"][1], mv["dst"][2]) & ((1 << nb) - 1)
        else: got = M.load(1, mv["dst"][2], nb // 8)
        if got != want:
            wrong.append((mv, got, want))
    # every register the shuffle changes - destinations included - must be dirty in the frame (so that the prolog saves it if it is
    # callee-saved) or not preserved by the convention
    allowed = set(allowed_locs(S))
    clobbered = [("R", g, i) for (g, i), v in M.regs.items() if v != M.init_regs[(g, i)] and ("R", g, i) not in allowed]
    # bytes of the SP-based area written outside every destination slot [offset, offset + sizeof(destination type))
    slots = set()
    for mv in mvs:
        if mv["dst"][0] == "M":
            slots.update(range(mv["dst"][2], mv["dst"][2] + mv["dbits"] // 8))
    beyond = sorted(M.stored - slots)
    return wrong, clobbered, beyond, M.faults

"""Independent ABI oracle for C06 (python, written from the psABI / Microsoft / AAPCS64 / Apple documents; shares no code with the
Coq development and does not look at AsmJit).  `expect(abi, va, ret, args, dev)` returns the locations a conforming compiler
uses.  `dev` is a set of NAMED DEVIATIONS: each switches one rule to the behaviour recorded as a known finding of the pinned
AsmJit tree; `explain()` searches for the smallest set of named deviations that reproduces an implementation answer, so that a
known finding is recognised by its shape and anything else stays a violation."""
import itertools

GP32, GP64, VEC32, VEC64, XMM, YMM, ZMM, MM, ST = 5, 6, 9, 10, 11, 12, 13, 28, 29


def is_int(t): return 34 <= t <= 41
def is_mask(t): return 45 <= t <= 48
def is_mmx(t): return 49 <= t <= 50
def is_f32(t): return t == 42
def is_f64(t): return t == 43
def is_f80(t): return t == 44
def is_v32(t): return 51 <= t <= 60
def is_v64(t): return 61 <= t <= 70
def is_v128(t): return 71 <= t <= 80
def is_v256(t): return 81 <= t <= 90
def is_v512(t): return 91 <= t <= 100


def sizeof(t):
    if t in (34, 35, 45): return 1
    if t in (36, 37, 46): return 2
    if t in (38, 39, 42, 47, 49): return 4
    if t in (40, 41, 43, 48, 50): return 8
    if t == 44: return 10
    if is_v32(t): return 4
    if is_v64(t): return 8
    if is_v128(t): return 16
    if is_v256(t): return 32
    if is_v512(t): return 64
    return 0


def rup(x, a): return (x + a - 1) // a * a


def abi_of(arch, plat, abi, cc):
    win = plat == 1 or abi == 1
    darwin = abi == 2
    if arch == 0:
        if cc == 4: return "thiscall32" if win else "cdecl32"
        if cc in (5, 6, 7): return "regparm%d_32" % (cc - 4)
        return {0: "cdecl32", 1: "stdcall32", 2: "fastcall32"}.get(cc)
    if arch == 1:
        if cc == 32: return "sysv64"
        if cc == 33: return "win64"
        if cc == 3: return "vectorcall64"
        if cc in (0, 1, 2, 4): return "win64" if win else "sysv64"
        return None
    if arch == 2:
        if cc in (0, 1, 2, 4): return "apple64" if darwin else "aapcs64"
    return None


def universe(abi, t):
    if abi == "sysv64":
        return is_int(t) or t in (42, 43, 44) or is_mask(t) or is_mmx(t) or 51 <= t <= 100
    if abi in ("win64", "vectorcall64"):
        return is_int(t) or t in (42, 43) or is_mask(t) or is_mmx(t) or 71 <= t <= 100
    if abi in I386:
        return is_int(t) or t in (42, 43, 44) or 71 <= t <= 100
    return is_int(t) or t in (42, 43) or is_v64(t) or is_v128(t)


def ret_universe(abi, t):
    if t == 0: return True
    if abi in ("win64", "vectorcall64"): return universe(abi, t) or t == 44
    if abi in I386: return universe(abi, t) or is_mmx(t)
    return universe(abi, t)


I386 = ("cdecl32", "stdcall32", "fastcall32", "thiscall32", "regparm1_32", "regparm2_32", "regparm3_32")
DEVIATIONS = {
    "thiscall32": ["raw-slot", "no-align", "split-int64-regs", "va-ignored"],
    "regparm1_32": ["raw-slot", "no-align", "split-int64-last-reg", "va-ignored"],
    "regparm2_32": ["raw-slot", "no-align", "split-int64-last-reg", "va-ignored"],
    "regparm3_32": ["raw-slot", "no-align", "split-int64-last-reg", "va-ignored"],
    "sysv64": ["raw-slot", "no-align", "no-loc-mask-mmx", "f80-xmm", "mask-ret-xmm"],
    "win64": ["indirect-bump", "oob16", "no-loc-mask"],
    "vectorcall64": ["sequential-after-48", "indirect-bump", "oob16", "no-loc-mask"],
    "cdecl32": ["raw-slot", "no-align"],
    "stdcall32": ["raw-slot", "no-align"],
    "fastcall32": ["raw-slot", "no-align", "split-int64-regs", "va-ignored"],
    "aapcs64": ["no-align"],
    "apple64": ["no-align", "min-slot-4", "va-ignored"],
}


def x86_vec_rt(t): return YMM if is_v256(t) else ZMM if is_v512(t) else XMM


def expect(abi, va, ret, args, dev=frozenset()):
    """-> (args: list of lists of loc, rets: list of loc, stack size).  loc = (kind, regtype, regid, offset, indirect)"""
    # va: False / 255 = not variadic; True = variadic (index unknown: from the first argument); an integer = index of the first variadic argument
    va_idx = None if (va is False or va == 255 or va is None) else (0 if va is True else int(va))
    va = va_idx is not None
    R = lambda rt, i, ind=0: (1, rt, i, 0, ind)
    S = lambda off, ind=0: (2, 0, 0, off, ind)
    NONE = (0, 0, 0, 0, 0)
    out = []
    if abi in ("win64", "vectorcall64"):
        # Microsoft x64 / __vectorcall: argument i owns the i-th register of its kind; what is not in a register lives in its home slot 8*i
        gp = [1, 2, 8, 9]
        vcall = abi == "vectorcall64"
        nvec = 6 if vcall else 4
        seq = ("sequential-after-48" in dev) if vcall else ("indirect-bump" in dev)      # the unpatched sequential stack offsets
        off = 48 if (vcall and seq) else 32
        for i, t in enumerate(args):
            if is_mask(t) and "no-loc-mask" in dev:
                out.append([NONE]); continue
            if is_int(t) or is_mask(t) or is_mmx(t):
                if i < 4: out.append([R(GP32 if sizeof(t) <= 4 and not is_mmx(t) else GP64, gp[i])])
                else: out.append([S(off if seq else 8 * i)]); off += 8
            elif t in (42, 43):
                if i < nvec: out.append([R(XMM, i)])
                else: out.append([S(off if seq else 8 * i)]); off += 8
            elif vcall and i < nvec:
                out.append([R(x86_vec_rt(t), i)])
            else:
                if i < 4:
                    out.append([R(GP64, gp[i], 1)])
                    if "indirect-bump" in dev: off += 8
                elif "oob16" in dev and 16 <= i < 16 + nvec:
                    out.append([R(GP64, i - 16, 1)])
                    if "indirect-bump" in dev: off += 8
                else:
                    out.append([S(off if seq else 8 * i, 1)]); off += 8
        stack = off if seq else 8 * max(len(args), 4)
    else:
        word = 4 if abi.endswith("32") else 8
        a64 = abi in ("aapcs64", "apple64")
        if abi == "sysv64": int_regs, vec_regs = [7, 6, 2, 1, 8, 9], list(range(8))
        elif a64: int_regs, vec_regs = list(range(8)), list(range(8))
        elif abi.startswith("regparm"): int_regs, vec_regs = [0, 2, 1][:int(abi[7])], [0, 1, 2]
        else: int_regs, vec_regs = ([1, 2] if abi == "fastcall32" else [1] if abi == "thiscall32" else []), [0, 1, 2]
        eff_va = va and not ("va-ignored" in dev)
        ni = nv = 0
        nsaa = 0
        for argi, t in enumerate(args):
            comps = [(t, False)]
            if word == 4 and t in (40, 41):
                comps = [(39, "lo"), (t - 2, "hi")]
            pack = []
            for (c, half) in comps:
                # ---- classification
                if (is_mask(c) or is_mmx(c)) and "no-loc-mask-mmx" in dev:
                    pack.append(NONE); continue
                if abi == "sysv64":
                    cls = "int" if (is_int(c) or is_mask(c)) else ("mem" if is_f80(c) and "f80-xmm" not in dev else "sse")
                elif a64:
                    cls = "int" if is_int(c) else "sse"
                    # Apple: the VARIADIC arguments (index >= va index) go to the stack in 8-byte slots, named ones are passed normally
                    arg_is_va = eff_va and argi >= va_idx
                    if abi == "apple64" and arg_is_va: cls = "mem"
                else:
                    if is_int(c):
                        cls = "int"
                        if eff_va or not int_regs: cls = "mem"
                        if half and not abi.startswith("regparm") and "split-int64-regs" not in dev: cls = "mem"
                    elif 71 <= c <= 100: cls = "mem" if va else "sse"
                    else: cls = "mem"
                # ---- register?
                if cls == "int" and abi.startswith("regparm") and half == "lo" and ni + 2 > len(int_regs) and "split-int64-last-reg" not in dev:
                    # GNU regparm: a 64-bit integer takes a register pair or goes to the stack as a whole; no register is used afterwards
                    ni = len(int_regs) + 1
                if cls == "int" and abi.startswith("regparm") and half == "hi" and ni > len(int_regs):
                    pass
                if cls == "int" and ni < len(int_regs):
                    pack.append(R(GP32 if sizeof(c) <= 4 else GP64, int_regs[ni])); ni += 1; continue
                if cls == "sse" and nv < len(vec_regs):
                    if a64: rt = VEC32 if is_f32(c) else VEC64 if (is_f64(c) or is_v64(c)) else XMM
                    else: rt = x86_vec_rt(c)
                    pack.append(R(rt, vec_regs[nv])); nv += 1; continue
                # ---- stack
                sz = sizeof(c)
                if abi == "apple64":
                    if eff_va and argi >= va_idx:
                        slot, al = rup(sz, 8), (16 if sz >= 16 else 8)
                    else:
                        slot, al = sz, sz                       # natural size and alignment
                        if "min-slot-4" in dev: slot = al = max(sz, 4)
                    if "no-align" in dev: al = min(al, 8)
                elif abi == "aapcs64":
                    slot, al = rup(sz, 8), (16 if sz >= 16 else 8)
                    if "no-align" in dev: al = 8
                else:
                    slot = rup(sz, word)
                    if is_f80(c): slot = 16 if word == 8 else 12
                    al = word
                    if is_f80(c) and word == 8: al = 16
                    if 71 <= c <= 100: al = sz
                    if "raw-slot" in dev and not is_int(c): slot = sz
                    if "no-align" in dev: al = 1
                o = rup(nsaa, al)
                pack.append(S(o)); nsaa = o + slot
            out.append(pack)
        stack = rup(nsaa, 8) if a64 else (nsaa if ("raw-slot" in dev) else rup(nsaa, word))
    # ---- return value
    rets = []
    t = ret
    if t != 0:
        if abi in ("sysv64", "win64", "vectorcall64"):
            if is_int(t): rets = [R(GP32 if sizeof(t) <= 4 else GP64, 0)]
            elif is_mask(t): rets = [R(XMM, 0)] if "mask-ret-xmm" in dev or ("no-loc-mask" in dev) else [R(GP32 if sizeof(t) <= 4 else GP64, 0)]
            elif is_f80(t): rets = [R(ST, 0)]
            elif is_mmx(t): rets = [R(GP64, 0)] if abi != "sysv64" else [R(XMM, 0)]
            else: rets = [R(x86_vec_rt(t), 0)]
        elif abi in I386:
            if t in (40, 41): rets = [R(GP32, 0), R(GP32, 2)]
            elif is_int(t): rets = [R(GP32, 0)]
            elif t in (42, 43, 44): rets = [R(ST, 0)]
            elif is_mmx(t): rets = [R(MM, 0)]
            else: rets = [R(x86_vec_rt(t), 0)]
        else:
            if is_int(t): rets = [R(GP32 if sizeof(t) <= 4 else GP64, 0)]
            else: rets = [R(VEC32 if is_f32(t) else VEC64 if (is_f64(t) or is_v64(t)) else XMM, 0)]
    return out, rets, stack


CONSTS = {
    # red zone, shadow/spill, natural alignment, callee pops, preserved gp mask, preserved vec mask, int regs, vec regs
    "sysv64": (128, 0, 16, 0, sum(1 << i for i in (3, 4, 5, 12, 13, 14, 15)), 0, [7, 6, 2, 1, 8, 9], list(range(8))),
    "win64": (0, 32, 16, 0, sum(1 << i for i in (3, 4, 5, 6, 7, 12, 13, 14, 15)), sum(1 << i for i in range(6, 16)), [1, 2, 8, 9], [0, 1, 2, 3]),
    "vectorcall64": (0, 32, 16, 0, sum(1 << i for i in (3, 4, 5, 6, 7, 12, 13, 14, 15)), sum(1 << i for i in range(6, 16)), [1, 2, 8, 9], [0, 1, 2, 3, 4, 5]),
    "cdecl32": (0, 0, 4, 0, sum(1 << i for i in (3, 4, 5, 6, 7)), 0, [], [0, 1, 2]),
    "stdcall32": (0, 0, 4, 1, sum(1 << i for i in (3, 4, 5, 6, 7)), 0, [], [0, 1, 2]),
    "fastcall32": (0, 0, 4, 1, sum(1 << i for i in (3, 4, 5, 6, 7)), 0, [1, 2], [0, 1, 2]),
    "thiscall32": (0, 0, 4, 1, sum(1 << i for i in (3, 4, 5, 6, 7)), 0, [1], [0, 1, 2]),
    "regparm1_32": (0, 0, 4, 0, sum(1 << i for i in (3, 4, 5, 6, 7)), 0, [0], [0, 1, 2]),
    "regparm2_32": (0, 0, 4, 0, sum(1 << i for i in (3, 4, 5, 6, 7)), 0, [0, 2], [0, 1, 2]),
    "regparm3_32": (0, 0, 4, 0, sum(1 << i for i in (3, 4, 5, 6, 7)), 0, [0, 2, 1], [0, 1, 2]),
    "aapcs64": (0, 0, 16, 0, sum(1 << i for i in range(18, 31)), sum(1 << i for i in range(8, 16)), list(range(8)), list(range(8))),
    "apple64": (0, 0, 16, 0, sum(1 << i for i in range(18, 31)), sum(1 << i for i in range(8, 16)), list(range(8)), list(range(8))),
}


def parse_detail(line):
    """parse a harness/model 'F ok ...' (or the tail of an 'S' line) into a dict"""
    d = {}
    for tok in line.split():
        if "=" in tok:
            k, v = tok.split("=", 1)
            d[k] = v

    def packs(s):
        if s == "": return []
        return [[tuple(int(x) for x in v.split(",")) for v in p.split(";")] if p else [] for p in s.split("|")]
    res = {"raw": d}
    if "args" in d:
        res["args"] = packs(d["args"])
    if "ret" in d:
        res["ret"] = packs(d["ret"])[0] if d["ret"] else []
    for k in ("stack", "cc", "st", "red", "spill", "nalign", "flags"):
        if k in d: res[k] = int(d[k])
    for k in ("pres", "passed", "used", "o0", "o1", "srs", "sra", "dirty"):
        if k in d: res[k] = [int(x) for x in d[k].split(",")]
    return res


def locs_of(packs):
    return [[(v[1], v[2], v[3], v[4], v[5]) for v in p] for p in packs]


def explain(abi, va, ret, args, impl):
    """impl: parsed detail.  Returns (ok, deviations, what).  ok=True: matches the ABI.  Otherwise deviations = smallest set of named
    deviations reproducing the implementation's answer, or None if no set does."""
    got = (locs_of(impl["args"]), [(v[1], v[2], v[3], v[4], v[5]) for v in impl["ret"]], impl["stack"])
    want = expect(abi, va, ret, args)
    if got == want:
        return True, [], ""
    names = DEVIATIONS[abi]
    for k in range(1, len(names) + 1):
        for sub in itertools.combinations(names, k):
            if expect(abi, va, ret, args, frozenset(sub)) == got:
                return False, list(sub), describe(got, want)
    return False, None, describe(got, want)


def describe(got, want):
    ga, gr, gs = got; wa, wr, ws = want
    for i, (x, y) in enumerate(zip(ga, wa)):
        if x != y:
            return "argument %d: implementation %s, ABI %s" % (i, x, y)
    if gr != wr: return "return value: implementation %s, ABI %s" % (gr, wr)
    if gs != ws: return "stack argument area: implementation %d bytes, ABI %d" % (gs, ws)
    return "argument count differs"


def check_consts(abi, impl):
    c = CONSTS[abi]
    got = (impl["red"], impl["spill"], impl["nalign"], impl["flags"] & 1, impl["pres"][0], impl["pres"][1],
           [x for x in impl["o0"] if x != 255], [x for x in impl["o1"] if x != 255])
    return got == c, "constants: implementation %s, ABI %s" % (got, c)

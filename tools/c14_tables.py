"""C14 translator: /repo working tree -> text of coq/gen/C14Tables.v.

C++ part (harness/c14_dump.cpp, compiled with -DDUMP_X86 / -DDUMP_A64, #includes the assembler .cpp files): table
contents and lengths (sizeof), operand-signature field maxima, validator accept masks, instruction-table indices.
Python part: the AArch64 map "encoding id -> EncodingData table" (the `case InstDB::kEncodingX:` that precedes each
`EncodingData::t[encoding_index]` in a64assembler.cpp), the array lengths declared in a64instdb_p.h, the segment check of
the x86 validator.
"""
import os
import re
import vlib


def parse_dump(text):
    tables, consts, rows = {}, {}, {}
    for line in text.splitlines():
        p = line.split()
        if not p:
            continue
        if p[0] == "table":
            vals = [int(x) for x in p[3:]]
            assert len(vals) == int(p[2]), line[:80]
            tables[p[1]] = vals
        elif p[0] == "const":
            consts[p[1]] = int(p[2])
        elif p[0] == "rows":
            rows[p[1]] = [tuple(int(y) for y in x.split(":")) for x in p[3:]]
            assert len(rows[p[1]]) == int(p[2])
    return tables, consts, rows


def a64_encoding_tables(repo):
    """-> (enum names in order, {encoding name: (table name, declared length)}, unsupported encodings)"""
    hdr = open(os.path.join(repo, "asmjit/arm/a64instdb_p.h")).read()
    src = open(os.path.join(repo, "asmjit/arm/a64assembler.cpp")).read()
    m = re.search(r"enum EncodingId\s*:\s*uint32_t\s*\{(.*?)\}", hdr, re.S)
    names = re.findall(r"kEncoding(\w+)", m.group(1))
    names = [n for n in names if n != "Count"]
    decl = {n: int(k) for n, k in re.findall(r"extern const \w+ (\w+)\[(\d+)\];", hdr)}
    enc2tab = {}
    lines = src.splitlines()
    cur_cases = []
    last_was_case = False
    for ln in lines:
        mc = re.match(r"\s*case InstDB::kEncoding(\w+):", ln)
        if mc:
            if not last_was_case:
                cur_cases = []
            cur_cases.append(mc.group(1))
            last_was_case = True
            continue
        if ln.strip() and not ln.strip().startswith("//"):
            last_was_case = False
        for t in re.findall(r"EncodingData::(\w+)\[encoding_index\]", ln):
            for c in cur_cases:
                enc2tab.setdefault(c, set()).add(t)
    # encodings whose case block never mentions encoding_index have no EncodingData look-up at all
    uses_index = set()
    cur_cases, last_was_case = [], False
    for ln in lines:
        mc = re.match(r"\s*case InstDB::kEncoding(\w+):", ln)
        if mc:
            if not last_was_case:
                cur_cases = []
            cur_cases.append(mc.group(1)); last_was_case = True
            continue
        if ln.strip() and not ln.strip().startswith("//"):
            last_was_case = False
        if re.search(r"\bencoding_index\b(?! = \d+;)", ln):
            uses_index.update(cur_cases)
    # `encoding_index = <n>; goto <Label>;` : a constant index into the table of the case that carries <Label>
    label_case = {lab: enc for enc, lab in re.findall(r"case InstDB::kEncoding(\w+): (\w+): \{", src)}
    const_jumps = []
    for i, ln in enumerate(lines):
        mi = re.search(r"\bencoding_index = (\d+);", ln)
        if mi:
            mg = re.search(r"goto (\w+);", " ".join(lines[i:i + 3]))
            const_jumps.append((int(mi.group(1)), mg.group(1) if mg else None))
    out, unsupported = {}, []
    a64_encoding_tables.no_table = sorted(n for n in names if n not in uses_index and n != "None" and n not in enc2tab)
    a64_encoding_tables.const_jumps = [(n, lab, label_case.get(lab)) for n, lab in const_jumps]
    for n in names:
        ts = enc2tab.get(n)
        if n == "None":
            continue
        if not ts and n not in uses_index:
            continue                      # no EncodingData look-up in this case block
        if not ts or len(ts) != 1 or list(ts)[0] not in decl:
            unsupported.append(n)
            continue
        t = list(ts)[0]
        out[n] = (t, decl[t])
    return names, out, unsupported


def zl(vals):
    return "[" + "; ".join(str(v) for v in vals) + "]"


def generate(ck):
    """Builds and runs the dumpers against VERIF_REPO's working tree; returns (text of C14Tables.v, info dict)."""
    lib = ck.build_lib("plain")
    dx = ck.build_harness("c14_dump_x86", ["c14_dump.cpp"], extra=["-DDUMP_X86", "-O0"], lib=lib)
    da = ck.build_harness("c14_dump_a64", ["c14_dump.cpp"], extra=["-DDUMP_A64", "-O0"], lib=lib)
    rc, outx, err = vlib.sh([dx], timeout=120)
    if rc != 0:
        raise RuntimeError("c14_dump x86 failed: " + err[-2000:])
    rc, outa, err = vlib.sh([da], timeout=120)
    if rc != 0:
        raise RuntimeError("c14_dump a64 failed: " + err[-2000:])
    tx, cx, rx = parse_dump(outx)
    ta, ca, ra = parse_dump(outa)
    # the x86 validator's segment check, textually (the dumper hard-codes 6)
    api = open(os.path.join(vlib.REPO, "asmjit/x86/x86instapi.cpp")).read()
    mseg = re.search(r"if \(m\.segment_id\(\) > (\d+)\)\s*\{\s*return make_error\(Error::kInvalidSegment\)", api)
    vseg = int(mseg.group(1)) if mseg else cx["mem_segment_max"]
    names, enc2tab, unsupported = a64_encoding_tables(vlib.REPO)
    # data that lives in function-local tables / constants of the sources (not reachable from the dumper): read textually
    text_stale = []
    oph = open(os.path.join(vlib.REPO, "asmjit/x86/x86opcode_p.h")).read()
    mar = re.search(r"add_arith_by_size\(T size\) noexcept \{\s*static const uint32_t mask\[16\] = \{(.*?)\};", oph, re.S)
    arith = None
    if mar:
        vals = []
        for ent in re.sub(r"//[^\n]*", "", mar.group(1)).split(","):
            ent = ent.strip()
            if not ent:
                continue
            v = 0
            for tok in ent.split("|"):
                tok = tok.strip()
                v |= {"kPP_66": cx["opcode_pp_66"], "kW": cx["opcode_w"]}.get(tok, None) if not tok.isdigit() else int(tok)
            vals.append(v)
        arith = vals + [0] * (16 - len(vals))
    if not arith or len(arith) != 16:
        text_stale.append("asmjit/x86/x86opcode_p.h: Opcode::add_arith_by_size mask[16] not recognised")
        arith = [0, 0, 1 | cx["opcode_pp_66"], 0, 1, 0, 0, 0, 1 | cx["opcode_w"]] + [0] * 7
    tx["arith_by_size_mask"] = arith
    xasm = open(os.path.join(vlib.REPO, "asmjit/x86/x86assembler.cpp")).read()
    pm = xasm.find("EmitVexEvexM:")
    mev = re.search(r"constexpr uint32_t kEvexBits = 0x([0-9A-Fa-f]+)u;", xasm[pm:]) if pm >= 0 else None
    if mev:
        cx["evex_bits_m"] = int(mev.group(1), 16)
    else:
        text_stale.append("asmjit/x86/x86assembler.cpp: kEvexBits of EmitVexEvexM not recognised")
        cx["evex_bits_m"] = 0x80DF8110

    pr = xasm.find("EmitVexEvexR:")
    mer = re.search(r"constexpr uint32_t kEvexBits = 0x([0-9A-Fa-f]+)u;", xasm[pr:pm]) if 0 <= pr < pm else None
    if mer:
        cx["evex_bits_r"] = int(mer.group(1), 16)
    else:
        text_stale.append("asmjit/x86/x86assembler.cpp: kEvexBits of EmitVexEvexR not recognised")
        cx["evex_bits_r"] = 0x00D78150
    mv3 = re.search(r"if \(x & 0x([0-9A-Fa-f]+)u\) \{\s*uint32_t xor_mask = vex_prefix_table\[x & 0xF\]", xasm[pr:pm]) if 0 <= pr < pm else None
    if mv3:
        cx["vex3_bits_r"] = int(mv3.group(1), 16)
    else:
        text_stale.append("asmjit/x86/x86assembler.cpp: VEX3 selection mask of EmitVexEvexR not recognised")
        cx["vex3_bits_r"] = 0x8000803E

    L = []
    A = L.append
    A("(* GENERATED by tools/c14_tables.py from the working tree of the repository under verification — do not edit.")
    A("   Look-up tables of x86assembler.cpp / a64assembler.cpp / x86instapi.cpp / instruction tables, the value sets of their")
    A("   index expressions, and the reflection lemmas (finite, checked by vm_compute) that no look-up is out of bounds. *)")
    A("From Coq Require Import ZArith List Bool String.")
    A("From Verif Require Import EmitState.EmitStateModel EmitState.LookupModel.")
    A("Import ListNotations.")
    A("Local Open Scope string_scope.")
    A("Local Open Scope Z_scope.")
    A("")
    for k in sorted(cx):
        A("Definition x86c_%s : Z := %d." % (k, cx[k]))
    for k in sorted(ca):
        A("Definition a64c_%s : Z := %d." % (k, ca[k]))
    A("Definition x86c_validator_segment_max : Z := %d." % vseg)
    A("")
    for k in sorted(tx):
        A("Definition x86_%s : list Z := %s." % (k, zl(tx[k])))
    for k in sorted(ta):
        A("Definition a64_%s : list Z := %s." % (k, zl(ta[k])))
    A("")
    A("(* instruction-table rows *)")
    A("Definition x86_inst_main_idx : list Z := %s." % zl([r[0] for r in rx["x86_inst"]]))
    A("Definition x86_inst_alt_idx : list Z := %s." % zl([r[1] for r in rx["x86_inst"]]))
    A("Definition x86_inst_common_idx : list Z := %s." % zl([r[2] for r in rx["x86_inst"]]))
    A("Definition x86_inst_encoding : list Z := %s." % zl([r[3] for r in rx["x86_inst"]]))
    legacy = [r for r in rx["x86_inst"] if r[3] < cx["encoding_fpu_first"] or cx["encoding_ext_first"] <= r[3] < cx["encoding_vex_first"]]
    A("(* opcodes (main and alternative) of the rows whose encoding is emitted by the legacy EmitX86* tails *)")
    A("Definition x86_legacy_opcodes : list Z := %s." % zl([tx["main_opcode_table"][r[0]] for r in legacy] + [tx["alt_opcode_table"][r[1]] for r in legacy]))
    A("Definition x86_common_sig_last : list Z := %s." % zl([r[0] + r[1] - 1 if r[1] else 0 for r in rx["x86_common"]]))
    A("Definition x86_isig_opsig_max : list Z := %s." % zl([r[1] for r in rx["x86_isig"]]))
    # a64: per encoding the list of encoding_data_index values
    by_enc = {}
    for enc, idx in ra["a64_inst"]:
        by_enc.setdefault(enc, []).append(idx)
    A("")
    asm64 = open(os.path.join(vlib.REPO, "asmjit/arm/a64assembler.cpp")).read()
    mfun = re.search(r"static inline SizeOp element_type_to_size_op\(.*?\n\}\n", asm64, re.S)
    body = mfun.group(0) if mfun else ""
    guarded = bool(re.search(r"if \(ASMJIT_UNLIKELY\(diff\(reg_type, RegType::kVec8\) > diff\(RegType::kVec128, RegType::kVec8\)\)\) \{\s*return SizeOp\{SizeOp::kInvalid\};",
                             body)) and "size_t index = (diff(reg_type, RegType::kVec8) << 3) | uint32_t(element_type);" in body
    unguarded_text = "size_t index = (Support::min<uint32_t>(diff(reg_type, RegType::kVec8), diff(RegType::kVec128, RegType::kVec8) + 1) << 3) | uint32_t(element_type);" in body
    size_op_recognised = guarded or unguarded_text      # neither text: the hand transcription of the index expression is stale
    if not size_op_recognised:
        guarded = True
    A("(* element_type_to_size_op: is the register-type range check in front of the table read present in the source? *)")
    A("Definition a64c_size_op_guarded : bool := %s." % ("true" if guarded else "false"))
    A("Definition size_op_read (rt et : Z) : option Z :=")
    A("  if a64c_size_op_guarded then size_op_index_guarded a64c_reg_type_vec8 a64c_reg_type_vec128 rt et")
    A("  else Some (size_op_index a64c_reg_type_vec8 a64c_reg_type_vec128 rt et).")
    A("Definition size_op_all_indices : list Z :=")
    A("  flat_map (fun rt => flat_map (fun et => match size_op_read rt et with Some i => [i] | None => [] end) (upto a64c_element_type_max)) (upto a64c_reg_type_max).")
    A("")
    sites = []
    nsites = []

    named = {}

    def site(name, ln, table, idx, ident=None):
        if ident:
            named[ident] = len(named)
            A('Definition %s : site := mkSite "%s" %s %s %s.' % (ident, name, ln, table, idx))
            nsites.append("  " + ident)
        else:
            sites.append('  mkSite "%s" %s %s %s' % (name, ln, table, idx))

    def lenof(t, tabs):
        return str(len(tabs[t]))
    # x86 sites
    site("x86assembler.cpp EmitX86M/EmitVexEvexM/...: mem_info_table[mem.base_and_index_types()]", lenof("mem_info_table", tx),
         "x86_mem_info_table", "(upto x86c_mem_base_and_index_types_max)", "site_mem_info")
    site("x86assembler.cpp kEncodingX86Op_xAddr: mem_info_table[reg.reg_type()]", lenof("mem_info_table", tx),
         "x86_mem_info_table", "(upto x86c_reg_type_max)")
    site("x86assembler.cpp emit_segment_override: segment_prefix_table[mem.segment_id()]", lenof("segment_prefix_table", tx),
         "x86_segment_prefix_table", "(upto x86c_mem_segment_max)", "site_segment")
    site("x86assembler.cpp opcode_l_by_vmem: ll_by_reg_type_table[mem.index_type()] (strict validation, 32-bit mode)",
         lenof("ll_by_reg_type_table", tx), "x86_ll_by_reg_type_table", "(0 :: bits_of x86c_allowed_mem_index_regs_x86)", "site_ll_x86")
    site("x86assembler.cpp opcode_l_by_vmem: ll_by_reg_type_table[mem.index_type()] (strict validation, 64-bit mode)",
         lenof("ll_by_reg_type_table", tx), "x86_ll_by_reg_type_table", "(0 :: bits_of x86c_allowed_mem_index_regs_x64)", "site_ll_x64")
    site("x86assembler.cpp opcode_l_by_size: ll_by_size_div_16_table[size / 16]", lenof("ll_by_size_div_16_table", tx),
         "x86_ll_by_size_div_16_table", "(map (fun s => s / 16) (upto x86c_size_max))")
    site("x86assembler.cpp kEncodingX86Push: opcode_push_sreg_table[id] after `id >= SReg::kIdCount -> InvalidSegment`",
         lenof("opcode_push_sreg_table", tx), "x86_opcode_push_sreg_table", "(upto (x86c_sreg_id_count - 1))", "site_push_sreg")
    site("x86assembler.cpp kEncodingX86Pop: opcode_pop_sreg_table[id] after `id >= SReg::kIdCount -> InvalidSegment`",
         lenof("opcode_pop_sreg_table", tx), "x86_opcode_pop_sreg_table", "(upto (x86c_sreg_id_count - 1))", "site_pop_sreg")
    site("x86assembler.cpp emit_pp: opcode_pp_table[(opcode >> kPP_Shift) & (kPP_FPUMask >> kPP_Shift)]", lenof("opcode_pp_table", tx),
         "x86_opcode_pp_table", "(upto x86c_pp_index_max)")
    site("x86assembler.cpp emit_mm_and_opcode (EmitX86Op/OpReg/OpImplicitMem/R/RFromM/M): opcode_mm_table[(opcode & kMM_Mask) >> kMM_Shift] for the "
         "main and alternative opcodes of every row with a non-VEX, non-x87 encoding", lenof("opcode_mm_table", tx), "x86_opcode_mm_table",
         "(map (fun o => Z.land (Z.shiftr o x86c_mm_shift) x86c_mm_index_max) x86_legacy_opcodes)", "site_opcode_mm")
    site("x86assembler.cpp: vex_prefix_table[x & 0xF]", lenof("vex_prefix_table", tx), "x86_vex_prefix_table", "(upto 15)")
    site("x86assembler.cpp: cdisp8_shl_table[TTWLL] (5-bit field)", lenof("cdisp8_shl_table", tx), "x86_cdisp8_shl_table", "(upto 31)")
    site("x86assembler.cpp: mod16_base_table[rb_reg & 7]", lenof("mod16_base_table", tx), "x86_mod16_base_table", "(upto 7)")
    site("x86assembler.cpp: mod16_base_index_table[((rb_reg & 7) << 3) + (rx_reg & 7)]", lenof("mod16_base_index_table", tx),
         "x86_mod16_base_index_table", "(flat_map (fun b => map (mod16_index b) (upto 31)) (upto 31))")
    site("x86assembler.cpp: InstDB::main_opcode_table[inst_info->_main_opcode_index] for every instruction row",
         lenof("main_opcode_table", tx), "x86_main_opcode_table", "x86_inst_main_idx", "site_main_opcode")
    site("x86assembler.cpp alt_opcode_of: InstDB::alt_opcode_table[info->_alt_opcode_index] for every instruction row",
         lenof("alt_opcode_table", tx), "x86_alt_opcode_table", "x86_inst_alt_idx", "site_alt_opcode")
    site("x86instdb.h common_info(): _inst_common_info_table[_common_info_index] for every instruction row",
         "x86c_common_info_table_len", "(zeros x86c_common_info_table_len)", "x86_inst_common_idx")
    site("x86instdb.h inst_signatures(): _inst_signature_table[index .. index+count-1] for every common-info row",
         "x86c_inst_signature_table_len", "(zeros x86c_inst_signature_table_len)", "x86_common_sig_last")
    site("x86instapi.cpp validate: _op_signature_table[_op_signature_indexes[k]] for every signature row",
         "x86c_op_signature_table_len", "(zeros x86c_op_signature_table_len)", "x86_isig_opsig_max")
    site("x86assembler.cpp _emit: _inst_info_table[inst_id] after `inst_id >= _kIdCount -> 0`",
         "x86c_inst_info_table_len", "(zeros x86c_inst_info_table_len)", "(upto (x86c_inst_id_count - 1))")
    site("x86instapi.cpp validate: allowed_reg_mask[reg_type] (32-bit mode)", lenof("allowed_reg_mask_x86", tx),
         "x86_allowed_reg_mask_x86", "(upto x86c_reg_type_max)")
    site("x86instapi.cpp validate: allowed_reg_mask[reg_type] (64-bit mode)", lenof("allowed_reg_mask_x64", tx),
         "x86_allowed_reg_mask_x64", "(upto x86c_reg_type_max)")
    # a64 sites
    site("a64assembler.cpp check_gp_id/check_vec_id...: common_hi_reg_id_of_type_table[reg.reg_type()]",
         lenof("common_hi_reg_id_of_type_table", ta), "a64_common_hi_reg_id_of_type_table", "(upto a64c_reg_type_max)", "site_common_hi")
    site("a64assembler.cpp: shift_op_to_ld_st_opt_map[mem.shift_op()] (predicate field)", lenof("shift_op_to_ld_st_opt_map", ta),
         "a64_shift_op_to_ld_st_opt_map", "(upto a64c_predicate_max)")
    site("a64assembler.cpp element_type_to_size_op: size_op_table[size_op_map[vec_op_type].table_id]", "a64c_size_op_table_count",
         "(zeros a64c_size_op_table_count)", "a64_size_op_map_table_id")
    site("a64assembler.cpp element_type_to_size_op: table.array[index] for EVERY register type and element type an operand can carry",
         "a64c_size_op_array_len", "(zeros a64c_size_op_array_len)", "size_op_all_indices", "site_size_op")
    site("a64assembler.cpp _emit: _inst_info_table[inst_id] after `inst_id >= _kIdCount -> 0`", "a64c_inst_id_count",
         "(zeros a64c_inst_id_count)", "(upto (a64c_inst_id_count - 1))")
    n_enc_sites = 0
    for enc in sorted(by_enc):
        nm = names[enc] if enc < len(names) else "?%d" % enc
        if nm in enc2tab:
            t, ln = enc2tab[nm]
            site("a64assembler.cpp case kEncoding%s: EncodingData::%s[inst_info->_encoding_data_index] for every instruction row" % (nm, t),
                 str(ln), "(zeros %d)" % ln, zl(by_enc[enc]))
            n_enc_sites += 1
    n_const = 0
    for (idx, lab, enc) in getattr(a64_encoding_tables, "const_jumps", []):
        if enc in enc2tab:
            t, ln = enc2tab[enc]
            site("a64assembler.cpp `encoding_index = %d; goto %s;`: EncodingData::%s[%d]" % (idx, lab, t, idx), str(ln), "(zeros %d)" % ln, "[%d]" % idx)
            n_const += 1
        else:
            unsupported.append("const-jump:%s" % lab)
    A("Definition named_sites : list site := [")
    A(";\n".join(nsites))
    A("].")
    A("Definition other_sites : list site := [")
    A(";\n".join(sites))
    A("].")
    A("Definition sites : list site := named_sites ++ other_sites.")
    A("")
    A("Lemma sites_in_range : forallb site_ok sites = true.")
    A("Proof. vm_compute. reflexivity. Qed.")
    A("")
    for ident, k in sorted(named.items(), key=lambda kv: kv[1]):
        A("Lemma %s_in : In %s sites." % (ident, ident))
        A("Proof. apply in_or_app. left. unfold named_sites. %sleft. reflexivity. Qed." % ("do %d right. " % k if k else ""))
    A("")
    A("(* without validation the index type field (5 bits) can exceed ll_by_reg_type_table: witness *)")
    A("Definition ll_unvalidated_witness : Z := %d." % len(tx["ll_by_reg_type_table"]))
    A("Lemma ll_unvalidated_oob : (ll_unvalidated_witness <=? x86c_mem_index_type_max) && negb (hit x86_ll_by_reg_type_table ll_unvalidated_witness) = true.")
    A("Proof. vm_compute. reflexivity. Qed.")
    A("")
    A("(* the x86 validator refuses segment ids above this bound, which is inside segment_prefix_table *)")
    A("Lemma validator_segment_in_table : x86c_validator_segment_max <? %d = true." % len(tx["segment_prefix_table"]))
    A("Proof. vm_compute. reflexivity. Qed.")
    # the index expressions of the sites are transcribed by hand: make sure the transcribed text is still in the source
    expect = [
        ("asmjit/x86/x86assembler.cpp", "rm_info = mem_info_table[rm_rel->as<Mem>().base_and_index_types()];"),
        ("asmjit/x86/x86assembler.cpp", "rm_info = mem_info_table[size_t(o0.as<Reg>().reg_type())];"),
        ("asmjit/x86/x86assembler.cpp", "FastUInt8 prefix = segment_prefix_table[segment_id];"),
        ("asmjit/x86/x86assembler.cpp", "return ll_by_reg_type_table[size_t(op.as<Mem>().index_type())];"),
        ("asmjit/x86/x86assembler.cpp", "return ll_by_size_div_16_table[size / 16];"),
        ("asmjit/x86/x86assembler.cpp", "if (ASMJIT_UNLIKELY(segment >= SReg::kIdCount))"),
        ("asmjit/x86/x86assembler.cpp", "opcode = opcode_push_sreg_table[segment];"),
        ("asmjit/x86/x86assembler.cpp", "opcode = opcode_pop_sreg_table[segment];"),
        ("asmjit/x86/x86assembler.cpp", "mod = mod16_base_index_table[(rb_reg << 3) + rx_reg];"),
        ("asmjit/x86/x86assembler.cpp", "mod = mod16_base_table[rb_reg];"),
        ("asmjit/x86/x86assembler.cpp", "opcode = InstDB::main_opcode_table[inst_info->_main_opcode_index];"),
        ("asmjit/x86/x86assembler.cpp", "return InstDB::alt_opcode_table[info->_alt_opcode_index];"),
        ("asmjit/x86/x86assembler.cpp", "if (inst_id >= Inst::_kIdCount) {"),
        ("asmjit/x86/x86instapi.cpp", "Support::bit_test(vd->allowed_mem_index_regs, index_type)"),
        ("asmjit/x86/x86instapi.cpp", "vd->allowed_reg_mask[size_t(reg_type)]"),
        ("asmjit/arm/a64assembler.cpp", "common_hi_reg_id_of_type_table[o0.as<Reg>().reg_type()]"),
        ("asmjit/arm/a64assembler.cpp", "shift_op_to_ld_st_opt_map[size_t(m.shift_op())]"),
        ("asmjit/arm/a64assembler.cpp", "const SizeOpTable& table = size_op_table[map.table_id];"),
        ("asmjit/arm/a64assembler.cpp", "uint32_t encoding_index = inst_info->_encoding_data_index;"),
        # round 4: the hand-transcribed branches of the computed-verdict families
        ("asmjit/x86/x86opcode_p.h", "1 | kPP_66, // #2 -> NOT_BYTE_OP(1) and 66H"),
        ("asmjit/x86/x86opcode_p.h", "1 | kW      // #8 -> NOT_BYTE_OP(1) and REX.W"),
        ("asmjit/x86/x86assembler.cpp", "if (imm_value == 1 && !Support::test(options, InstOptions::kLongForm))"),
        ("asmjit/x86/x86assembler.cpp", "constexpr uint32_t kEvexBits = 0x80DF8110u;"),
        ("asmjit/x86/x86assembler.cpp", "opcode += cdisp8_shl_table[TTWLL];"),
        ("asmjit/x86/x86assembler.cpp", "int32_t cd_offset = rel_offset >> cd_shift;"),
        ("asmjit/x86/x86assembler.cpp", "FastUInt8 prefix = segment_prefix_table[segment_id];"),
        ("asmjit/arm/a64assembler.cpp", "if (s && shift != imm_shift)"),
        ("asmjit/arm/a64assembler.cpp", "uint32_t imm12 = uint32_t(offset32) >> imm_shift;"),
        ("asmjit/arm/a64assembler.cpp", "inst_id = op_data.u_alt_inst_id;"),
        ("asmjit/arm/a64assembler.cpp", "if (rm_rel->as<Mem>().index_id() > 30 && rm_rel->as<Mem>().index_id() != Gp::kIdZr) {"),
        # round 5
        ("asmjit/arm/a64assembler.cpp", "uint32_t offset_shift = op_data.offset_shift + x;"),
        ("asmjit/arm/a64assembler.cpp", "if (!Support::is_int_n<7>(offset32))"),
        ("asmjit/arm/a64assembler.cpp", "if (s && shift != xsz)"),
        ("asmjit/arm/a64assembler.cpp", "if (xsz > 4u || o0.as<Vec>().has_element_index() || o0.as<Vec>().has_element_type())"),
        ("asmjit/x86/x86assembler.cpp", "return uint64_t(addr_value) > 0xFFFFFFFFu;"),
        ("asmjit/x86/x86assembler.cpp", "uint32_t immediate_size = 8;"),
        ("asmjit/x86/x86assembler.cpp", "if (op_reg == Gp::kIdAx && !o0.as<Gp>().is_gp8_hi() && !rm_rel->as<Mem>().has_base_or_index()) {"),
        ("asmjit/x86/x86assembler.cpp", "return reg_id + (vvvvv_id << kVexVVVVVShift);"),
        ("asmjit/x86/x86assembler.cpp", "((rb_reg << 2) & 0x0060u) |"),
        ("asmjit/x86/x86assembler.cpp", "rex &= rm_info;"),
        ("asmjit/x86/x86instapi.cpp", "if (ASMJIT_UNLIKELY(reg_id >= 16 && reg_type >= RegType::kVec128 && reg_type <= RegType::kVec512 && !common_info.has_flag(InstDB::InstFlags::kEvex))) {"),
    ]
    stale = []
    cache = {}
    xsrc = open(os.path.join(vlib.REPO, "asmjit/x86/x86assembler.cpp")).read()
    pos = xsrc.find("case InstDB::kEncodingVexOp:")
    tail_end = xsrc.find("EmitX86OpMovAbs:")
    if pos < 0 or tail_end < pos or re.search(r"goto (EmitX86\w*|CaseExt\w*|CaseX86\w*|CaseFpu\w*);", xsrc[pos:tail_end]):
        stale.append("asmjit/x86/x86assembler.cpp: a VEX/EVEX/AMX encoding case reaches a legacy EmitX86* tail (opcode_mm_table site assumes it does not)")
    hsrc = open(os.path.join(vlib.REPO, "asmjit/x86/x86instdb_p.h")).read()
    mf = re.search(r"kEncodingFpuOp,(.*?)kEncodingExtRm,", hsrc, re.S)
    if not mf or [e for e in re.findall(r"kEncoding(\w+)", mf.group(1)) if not e.startswith("Fpu")]:
        stale.append("asmjit/x86/x86instdb_p.h: encodings between kEncodingFpuOp and kEncodingExtRm are no longer all Fpu*")
    mh = re.search(r"kEncodingVexOp,(.*?)kEncodingCount", hsrc, re.S)
    if not mh or [e for e in re.findall(r"kEncoding(\w+)", mh.group(1)) if not e.startswith(("Vex", "Fma4", "Amx"))]:
        stale.append("asmjit/x86/x86instdb_p.h: encodings after kEncodingVexOp are no longer all Vex*/Fma4*/Amx*")
    stale.extend(text_stale)
    for f, pat in expect:
        if f not in cache:
            cache[f] = open(os.path.join(vlib.REPO, f)).read()
        if pat not in cache[f]:
            stale.append("%s: %s" % (f, pat))
    text = "\n".join(L) + "\n"
    # concrete failing rows for the per-family reflection lemmas (*_rows_in_range, *_rows_wf_all): when one of them stops
    # holding on regenerated tables the check names the instruction whose emission reads out of bounds
    row_failures = []
    def at(t, i):
        return t[i] if 0 <= i < len(t) else None
    aenc, aidx = ta["inst_encoding"], ta["inst_encoding_data_index"]
    for iid in range(len(aenc)):
        if aenc[iid] == ca["encoding_base_ldst"]:
            ei = aidx[iid]; alt = at(ta["ldst_u_alt_inst_id"], ei)
            if at(ta["ldst_reg_type"], ei) is None:
                row_failures.append(("a64 BaseLdSt", iid, "baseLdSt[%d] is out of bounds (%d rows)" % (ei, len(ta["ldst_reg_type"]))))
            elif at(aidx, alt) is None:
                row_failures.append(("a64 BaseLdSt", iid, "_inst_info_table[u_alt_inst_id = %d] is out of bounds" % alt))
            elif at(ta["simm9_reg_type"], aidx[alt]) is None:
                row_failures.append(("a64 BaseLdSt", iid, "baseRM_SImm9[%d] (row of the fallback instruction %d) is out of bounds" % (aidx[alt], alt)))
            elif ta["simm9_imm_shift"][aidx[alt]] != 0 or ta["simm9_reg_type"][aidx[alt]] != ta["ldst_reg_type"][ei]:
                row_failures.append(("a64 BaseLdSt", iid, "the ldur/stur fallback row %d does not match (imm_shift %d, reg_type %d vs %d): C14_a64_ldst_imm_offset_inst_spec no longer applies"
                                     % (alt, ta["simm9_imm_shift"][aidx[alt]], ta["simm9_reg_type"][aidx[alt]], ta["ldst_reg_type"][ei])))
        if aenc[iid] == ca["encoding_base_ldpstp"] and at(ta["ldpstp_reg_type"], aidx[iid]) is None:
            row_failures.append(("a64 BaseLdpStp", iid, "baseLdpStp[%d] is out of bounds" % aidx[iid]))
        if aenc[iid] == ca["encoding_simd_ldst"]:
            ei = aidx[iid]; alt = at(ta["simdldst_u_alt_inst_id"], ei)
            if alt is None or at(aidx, alt) is None or at(ta["simdldur_opcode"], aidx[alt]) is None:
                row_failures.append(("a64 SimdLdSt", iid, "simdLdSt[%d] / its fallback row (u_alt_inst_id %s) is out of bounds" % (ei, alt)))
    xenc = [r[3] for r in rx["x86_inst"]]; xmain = [r[0] for r in rx["x86_inst"]]
    for iid in range(len(xenc)):
        if xenc[iid] in (cx["encoding_x86_rot"], cx["encoding_x86_arith"]):
            opc0 = at(tx["main_opcode_table"], xmain[iid])
            if opc0 is None:
                row_failures.append(("x86 Rot/Arith", iid, "main_opcode_table[%d] is out of bounds" % xmain[iid])); continue
            for k in range(16):
                opc = opc0 | tx["arith_by_size_mask"][k]
                pp = (opc >> cx["pp_shift"]) & cx["pp_index_max"]; mm = (opc >> cx["mm_shift"]) & cx["mm_index_max"]
                if at(tx["opcode_pp_table"], pp) is None or at(tx["opcode_mm_table"], mm) is None:
                    row_failures.append(("x86 Rot/Arith", iid, "operand size class %d: opcode_pp_table[%d] / opcode_mm_table[%d] is out of bounds" % (k, pp, mm))); break
    info = {"sites": len(sites) + len(nsites), "a64_encoding_sites": n_enc_sites, "a64_encodings_unsupported": unsupported,
            "x86_rows": len(rx["x86_inst"]), "a64_rows": len(ra["a64_inst"]),
            "a64_encodings_in_rows": len(by_enc), "a64_encodings_without_table_lookup": getattr(a64_encoding_tables, "no_table", []), "a64_const_index_sites": n_const, "x86_legacy_rows": len(legacy), "stale_site_transcriptions": stale, "row_failures": row_failures, "a64_size_op_guarded": guarded, "a64_size_op_expression_recognised": size_op_recognised, "tables": sorted(list(tx) + list(ta))}
    return text, info


if __name__ == "__main__":
    import sys
    ck = vlib.Check("C14")
    text, info = generate(ck)
    out = os.path.join(vlib.COQ, "gen", "C14Tables.v")
    open(out, "w").write(text)
    print("wrote", out, info)

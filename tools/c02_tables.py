"""C02 translator for the assembler's opcode tables: harness/c02_tables.cpp prints the opcode constant of every InstDB::EncodingData row
(classes that keep ONE opcode word per instruction) -> coq/gen/A64Tables.v, where a reflection lemma checks that each constant agrees with the
fixed bits of every supported ISA-database row of that instruction outside the bits the encoding class itself ORs in."""
import vlib

# bits an encoding class adds to the table constant although they are FIXED bits of the database rows (from a64assembler.cpp):
#   sf (bit 31) by add_imm(x, 31); size bit 30 by add_imm(x, op_data.x_offset) of load/store-exclusive / atomic classes; N (bit 22) of the
#   bitfield classes; Rt = 11111 of the ST<op> aliases; bit 11 of CCMP/CCMN (immediate); Q (30), scalar (28), size (23:22) of the SIMD classes
CLASS_VAR = {
    "BaseOp": 0, "BaseOpX16": 0, "BaseOpImm": 0, "BaseR": 0, "BaseRRII": 0, "BaseAdr": 0, "BaseBranchReg": 0, "BaseBranchRel": 0, "BaseBranchTst": 0,
    "BaseRR": 0x80000000, "BaseRRR": 0x80000000, "BaseRRRR": 0x80000000, "BaseBranchCmp": 0x80000000, "BaseCInc": 0x80000000, "BaseCSel": 0x80000000,
    "BaseCSet": 0x80000000, "BaseMovKNZ": 0x80000000, "BaseMvnNeg": 0x80000000,
    "BaseAtomicOp": 0x40000000, "BaseRM_NoImm": 0x40000000, "BaseStx": 0x40000000, "BaseStxp": 0x40000000, "BaseLdxp": 0x40000000,
    "BaseAtomicSt": 0x4000001F, "BaseAtomicCasp": 0x40000000, "BaseBfc": 0x80400000, "BaseBfi": 0x80400000, "BaseBfm": 0x80400000, "BaseBfx": 0x80400000, "BaseExtend": 0x80400000,
    "BaseExtract": 0x80400000, "BaseCCmp": 0x80000800,
    "ISimdSV": 0x40C00000, "ISimdVV": 0x50C00000, "ISimdVVV": 0x50C00000, "ISimdWWV": 0x40C00000, "ISimdVVVI": 0x40000000, "ISimdVVVx": 0, "ISimdVVx": 0,
    "SimdFccmpFccmpe": 0x00C00000, "SimdFcmpFcmpe": 0x00C00008,
}


# classes with several opcode constants per table row: "<class>.<variant>" -> bits the class ORs in (sf at 31; x_offset 30/22 and the
# pre-index bit 11 of the load/store classes; Rd = 11111 of CMP/CMN/TST; N and imms<5> of the shift-by-immediate aliases; the type bits
# 23:19, 15:14 that pick_fp_opcode() XORs in for the FP classes; Q 30, scalar 28, size 23:22 of the SIMD classes; size 31:30 + opc<1> 23 of
# the SIMD load/store classes). Which database rows a variant is compared with is decided by the operand syntaxes of the row (row_filter).
VARIANT_VAR = {
    "BaseAddSub.shifted": 0x80000000, "BaseAddSub.extended": 0x80000000, "BaseAddSub.immediate": 0x80000000,
    "BaseCmpCmn.shifted": 0x8000001F, "BaseCmpCmn.extended": 0x8000001F, "BaseCmpCmn.immediate": 0x8000001F,
    "BaseTst.shifted": 0x8000001F, "BaseTst.immediate": 0x8000001F, "BaseLogical.shifted": 0x80000000, "BaseLogical.immediate": 0x80000000,
    "BaseMinMax.register": 0x80000000, "BaseMinMax.immediate": 0x80000000, "BaseShift.register": 0x80000000, "BaseShift.immediate": 0x80408000,
    "BaseLdSt.uoffset": 0x40400800, "BaseLdSt.prepost": 0x40400800, "BaseLdSt.register": 0x40400800, "BaseLdSt.literal": 0x40400800,
    "BaseLdpStp.offset": 0x80000000, "BaseLdpStp.prepost": 0x80000000, "BaseRM_SImm9.offset": 0x40400000, "BaseRM_SImm9.prepost": 0x40400000,
    "BasePrfm.literal": 0, "BasePrfm.soffset": 0, "BasePrfm.register": 0,
    "BaseRM_SImm10.opcode": 0x00000800, "SimdLdurStur.opcode": 0xC0800000, "SimdShiftES.opcode": 0x40C00000,
    "SimdFcvtSV.general": 0x80C00000, "SimdFcvtSV.general_fixed": 0x80C00000, "SimdFcvtSV.int_scalar": 0x00F8C000, "SimdFcvtSV.int_vector": 0x40F8C000,
    "SimdFcvtSV.scalar_fixed": 0x00F8C000, "SimdFcvtSV.vector_fixed": 0x40F8C000,
    "SimdLdNStN.replicate": 0x409F0C00, "SimdLdNStN.single": 0x409FFC00, "SimdLdNStN.multiple": 0x409FFC00,
    "SimdCmp.reg3": 0x50C00000, "SimdCmp.zero": 0x50C00000, "SimdFmlal.regular": 0x40000000, "SimdFmlal.element": 0x40000000,
    "SimdFcvtLN.ln_vector": 0x00400000, "SimdFcvtLN.ln_scalar": 0x00400000, "SimdDot.regular": 0x40000000, "SimdDot.element": 0x40000000,
    "SimdFcm.register_scalar": 0x00F8C000, "SimdFcm.register_vector": 0x40F8C000, "SimdFcm.zero_scalar": 0x00F8C000, "SimdFcm.zero_vector": 0x40F8C000,
    "SimdSxtlUxtl.opcode": 0x40380000, "SimdSmovUmov.opcode": 0x401F0000, "SimdTblTbx.opcode": 0x40006000,
    "ISimdPair.scalar": 0, "ISimdPair.vector": 0x50C00000, "SimdBicOrr.reg3": 0x40000000,
    "ISimdVVVV.opcode": 0x50C00000, "FSimdSV.opcode": 0x60000000, "SimdFcadd.opcode": 0x40C00000, "SimdSm3tt.opcode": 0, "ISimdVVVVx.opcode": 0,
    "FSimdVV.scalar": 0x00F8C000, "FSimdVV.vector": 0x40F8C000, "FSimdVVV.scalar": 0x00F8C000, "FSimdVVV.vector": 0x40F8C000,
    "FSimdVVVV.scalar": 0x00F8C000, "FSimdVVVe.scalar": 0x00F8C000, "FSimdVVVe.vector": 0x40F8C000,
    "FSimdVVVe.element_scalar": 0x00C00000, "FSimdVVVe.element_vector": 0x40C00000, "FSimdPair.scalar": 0x20F8C000, "FSimdPair.vector": 0x40F8C000,
    "ISimdVVVe.regular": 0x50C00000, "ISimdVVVe.element": 0x50C00000, "SimdShift.register": 0x50C00000, "SimdShift.immediate": 0x50000000,
    "SimdLdSt.uoffset": 0xC0800800, "SimdLdSt.prepost": 0xC0800800, "SimdLdSt.register": 0xC0800800, "SimdLdSt.literal": 0xC0800800,
    "SimdLdpStp.offset": 0xC0000000, "SimdLdpStp.prepost": 0xC0000000,
}
IMM_KINDS = ("SAddImm", "SLogImm", "SImmLt", "SBitfield", "SImmU", "SImmS", "SVShift", "SImmRsub", "SFpImm", "SImmAff")


# encoding cases whose opcodes are LITERALS in a64assembler.cpp (no EncodingData constant): class -> bits the case ORs in (from the code:
# sf 31 / Q 30, type 23:22, rmode/opcode 20:16 and 15, imm5 20:16, imm4 14:11, CRn 15:12 of the AT/DC/IC/TLBI ids, opc bit 10 of REV)
LIT_VAR = {
    "BaseRev": 0x80000400, "BaseMov": 0x80000000, "BaseAtDcIcTlbi": 0x0000F01F, "BaseSys": 0x0000001F, "BaseMrs": 0, "BaseMsr": 0,
    "SimdFcsel": 0x00C00000, "SimdFcvt": 0x00C18000, "SimdFmov": 0xE0DF0800, "SimdDup": 0x401F0000, "SimdIns": 0x001F7800,
}


def literals(repo=None):
    """pattern translator over /repo/asmjit/arm/a64assembler.cpp: the binary literals passed to opcode.reset() inside each
    `case InstDB::kEncoding<Class>:` block -> {class: [words]}"""
    import os, re
    src = open(os.path.join(repo or vlib.REPO, "asmjit", "arm", "a64assembler.cpp")).read()
    cases = [(m.start(), m.group(1)) for m in re.finditer(r"case InstDB::kEncoding(\w+):", src)]
    cases.append((len(src), None))
    out = {}
    for (a, n), (b_, _) in zip(cases, cases[1:]):
        if n in LIT_VAR:
            ws = [int(x, 2) << (10 if sh else 0) for x, sh in re.findall(r"opcode\.reset\((0b[01]+)( << 10)?\)", src[a:b_])]
            if ws:
                out.setdefault(n, [])
                out[n] += [w for w in ws if w not in out[n]]
    return out


def row_filter(variant, e):
    """does the table variant apply to this database row? (decided by the row's operand syntaxes, mirroring the case split of the encoder)"""
    syn = e["syn"]
    K = [s[0] for s in syn]
    mo = [s for s in syn if s[0] == "SMemOff"]
    vecs = [s for s in syn if s[0] == "SVec"]
    if variant in ("ln_vector", "ln_scalar"):
        return len(vecs) == 2 and len(syn) == 2 and (vecs[0][2] == 0) == (variant == "ln_scalar")
    if variant == "reg3":
        return "SImmConst" not in K and not any(k in K for k in IMM_KINDS)
    if variant in ("int_scalar", "int_vector"):
        return "SGp" not in K and "SVShift" not in K and bool(vecs) and (vecs[0][2] == 0) == (variant == "int_scalar")
    if variant == "general":
        return "SGp" in K and "SImmRsub" not in K
    if variant == "general_fixed":
        return "SGp" in K and "SImmRsub" in K
    if variant in ("scalar_fixed", "vector_fixed"):
        return "SGp" not in K and "SVShift" in K and bool(vecs) and (vecs[0][2] == 0) == (variant == "scalar_fixed")
    if variant == "replicate":
        return True
    if variant == "single":
        return "SVecElem" in K or "SVecListElem" in K
    if variant == "multiple":
        return "SVecList" in K or ("SVec" in K and "SVecElem" not in K)
    if variant == "zero":
        return "SImmConst" in K
    if variant in ("register_scalar", "register_vector"):
        return "SImmConst" not in K and bool(vecs) and (vecs[0][2] == 0) == (variant == "register_scalar")
    if variant in ("zero_scalar", "zero_vector"):
        return "SImmConst" in K and bool(vecs) and (vecs[0][2] == 0) == (variant == "zero_scalar")
    if variant == "shifted":
        return "SShift" in K and "SExtReg" not in K
    if variant == "extended":
        return "SExtReg" in K
    if variant == "immediate":
        return any(k in K for k in IMM_KINDS)
    if variant == "register":
        return ("SMemIdx" in K) if any(k.startswith("SMem") for k in K) else not any(k in K for k in IMM_KINDS)
    if variant in ("uoffset", "soffset"):
        return bool(mo) and mo[0][4] is False and mo[0][6] == 0
    if variant == "prepost":
        return (bool(mo) and mo[0][6] in (1, 2)) or "SMemPair" in K
    if variant == "literal":
        return "SMemLit" in K
    if variant == "offset":
        return (bool(mo) and mo[0][6] == 0) or "SMemPair" in K
    if variant == "scalar":
        return bool(vecs) and vecs[0][2] == 0 and "SVecElem" not in K
    if variant == "vector":
        return bool(vecs) and vecs[0][2] != 0 and "SVecElem" not in K
    if variant == "element_scalar":
        return "SVecElem" in K and bool(vecs) and vecs[0][2] == 0
    if variant == "element_vector":
        return "SVecElem" in K and bool(vecs) and vecs[0][2] != 0
    if variant == "regular":
        return "SVecElem" not in K
    if variant == "element":
        return "SVecElem" in K
    return True


def build(ck, b, names_cls=None):
    exe = ck.build_harness("c02tables", ["c02_tables.cpp"])
    rc, out, err = vlib.sh([exe], timeout=60)
    if rc != 0:
        raise RuntimeError("c02_tables failed: %s" % err[-500:])
    by, bye = {}, {}
    for e in b["sup"]:
        by.setdefault((e["row"]["name"], "ASIMD" in e["row"]["cat"]), []).append(e["row"]["idx"])
        bye.setdefault((e["row"]["name"], "ASIMD" in e["row"]["cat"]), []).append(e)
    ids_seen, ids_cov = set(), set()
    ents, skipped, norows = [], {}, 0
    total = 0
    for ln in out.splitlines():
        iid, name, cls, w = ln.split()
        if cls.endswith(".lit"):          # instruction of a class whose opcodes are literals in the encoder's source
            names_cls = names_cls if names_cls is not None else {}
            names_cls[int(iid)] = (name, cls[:-4])
            continue
        total += 1
        ids_seen.add(int(iid))
        if "." in cls:
            if cls not in VARIANT_VAR:
                skipped[cls] = skipped.get(cls, 0) + 1
                continue
            c0, variant = cls.split(".")
            rids = [e["row"]["idx"] for e in bye.get((name, not c0.startswith("Base")), []) if row_filter(variant, e)]
            if not rids:
                norows += 1
                continue
            ents.append((int(iid), name, cls, int(w), VARIANT_VAR[cls], rids))
            ids_cov.add(int(iid))
            continue
        if cls not in CLASS_VAR:
            skipped[cls] = skipped.get(cls, 0) + 1
            continue
        rids = by.get((name, not cls.startswith("Base")), [])
        if not rids:
            norows += 1
            continue
        ents.append((int(iid), name, cls, int(w), CLASS_VAR[cls], rids))
        ids_cov.add(int(iid))
    # literal opcodes of the classes without table constants
    lits = literals()
    lit_ents = []
    if names_cls:
        for iid, (name, cls) in sorted(names_cls.items()):
            if cls in lits and iid not in ids_cov:
                rids = by.get((name, not cls.startswith("Base")), [])
                if rids:
                    lit_ents.append((iid, name, cls, lits[cls], LIT_VAR[cls], rids))
                    ids_cov.add(iid)
    L = ["(* GENERATED by tools/c02_tables.py from the InstDB::EncodingData arrays of /repo (harness/c02_tables.cpp). Do not edit.",
         "   (instruction id, opcode word of its table row, bits the encoding class ORs in itself, ids of the supported database rows of the instruction) *)",
         "From Coq Require Import ZArith List Bool.", "From Verif Require Import A64.A64Tmpl A64.A64Sem.", "From VerifGen Require Import IsaA64Db.",
         "Import ListNotations.", "Local Open Scope Z_scope.", "Definition enc_table : list (Z * Z * Z * list Z) := ["]
    L.append(";\n".join("  (* %s %s *) (%d, %d, %d, [%s])" % (n, c, i, w, v, "; ".join(map(str, r))) for i, n, c, w, v, r in ents))
    L += ["].", "(* literal opcodes of the encoder's source (tools/c02_tables.py literals()): (instruction id, literals of its encoding case, bits the case ORs in, row ids) *)",
          "Definition lit_table : list (Z * list Z * Z * list Z) := ["]
    L.append(";\n".join("  (* %s %s *) (%d, [%s], %d, [%s])" % (n, c, i, "; ".join(map(str, ws)), v, "; ".join(map(str, r))) for i, n, c, ws, v, r in lit_ents))
    L += ["].", "Lemma lit_table_agrees : forallb (lit_entry_ok rows) lit_table = true.", "Proof. vm_compute. reflexivity. Qed.",
          "Definition enc_table_count : Z := %d." % len(ents),
          "Lemma enc_table_agrees : forallb (table_entry_ok rows) enc_table = true.", "Proof. vm_compute. reflexivity. Qed.",
          "Lemma enc_table_counted : Z.of_nat (length enc_table) = enc_table_count.", "Proof. vm_compute. reflexivity. Qed."]
    return {"coq": "\n".join(L) + "\n", "entries": len(ents), "ents": ents, "lit_ents": lit_ents, "literal_entries": len(lit_ents), "instructions_covered": len(ids_cov), "instructions_dumped": len(ids_seen), "dumped": total, "classes_not_covered": skipped, "without_supported_rows": norows}


def disagreeing(tb, b):
    """python replica of table_entry_ok, only to NAME the entries when the Coq lemma fails"""
    rows = {e["row"]["idx"]: e for e in b["sup"]}
    out = []
    def fixed(rid):
        v = m = 0
        pos = 32
        for it in rows[rid]["items"]:
            if it[0] == "F":
                pos -= it[1]; v |= it[2] << pos; m |= ((1 << it[1]) - 1) << pos
            else:
                pos -= it[2] - it[3] + 1
        return v, m
    for iid, name, cls, w, var, rids in tb["ents"]:
        for rid in rids:
            v, m = fixed(rid)
            if (w ^ v) & m & (0xFFFFFFFF ^ var):
                out.append("%s (%s): table word %08X vs database row `%s` fixed bits %08X/mask %08X" % (name, cls, w, rows[rid]["row"]["inst"], v, m))
    for iid, name, cls, ws, var, rids in tb.get("lit_ents", []):
        for rid in rids:
            v, m = fixed(rid)
            if not any((w ^ v) & m & (0xFFFFFFFF ^ var) == 0 for w in ws):
                out.append("%s (%s): none of the source literals %s agrees with database row `%s` fixed bits %08X/mask %08X" % (
                    name, cls, ["%08X" % w for w in ws], rows[rid]["row"]["inst"], v, m))
    return out

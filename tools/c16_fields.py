#!/usr/bin/env python3
"""C16 translator: clang AST (json) of /repo's working tree -> coq/gen/ResetFields.v

For the translation units that implement reset / reinit / detach / per-function cleanup we extract
  * every class definition of interest: its direct bases and its data members (FieldDecl, in declaration order);
  * every function with a body: the member WRITES it performs and the functions it CALLS.

A write is (class, field, sub, how):
  class,field : the top-level data member that is (part of) the written object; the class is the static type of the object
                expression the member is selected from (clang inserts a derived-to-base cast, so this is the declaring class)
  sub         : "" when the whole member is written, otherwise the path below it (".x", "[0]", "[]")
  how         : "assign" (built-in or overloaded operator=), "call:<method>" (a member function called ON the member;
                "call:for_each:<m>" when the argument is a lambda that calls <m> on each element), "arg:<fn>" (the member
                is the first argument of a free function such as memset/memcpy).
Which `how`s count as a reset, which routines form a reset route and which members are persistent is NOT decided here:
that is the reviewed part in coq/theories/Lifecycle/ResetSpec.v.  The closure over callees is computed in Coq too.

Usage: c16_fields.py [--repo DIR] [--json]   (prints the .v text, or the intermediate data with --json)
"""
import json
import os
import re
import subprocess
import sys
from concurrent.futures import ThreadPoolExecutor

# translation unit -> -ast-dump-filter substrings (each is one clang run; ids are only meaningful inside one run,
# every cross reference is therefore resolved BY QUALIFIED NAME)
TUS = [
    ("asmjit/core/codeholder.cpp", ["CodeHolder", "Section", "Entry", "Fixup"]),
    ("asmjit/core/emitter.cpp", ["BaseEmitter"]),
    ("asmjit/core/assembler.cpp", ["BaseAssembler"]),
    ("asmjit/core/builder.cpp", ["BaseBuilder", "NodeList", "Node"]),
    ("asmjit/core/compiler.cpp", ["BaseCompiler", "Node", "VirtReg", "JumpAnnotation", "FuncPass"]),
    ("asmjit/core/rapass.cpp", ["RAPass", "RAWorkReg", "RABlock", "RAInst", "RAStackSlot", "RATiedReg", "RAAssignment", "RALiveSpans"]),
    ("asmjit/core/builder.cpp", ["Pass"]),
    ("asmjit/core/rastack.cpp", ["RAStack"]),
    ("asmjit/x86/x86rapass.cpp", ["RAPass"]),
    ("asmjit/arm/a64rapass.cpp", ["RAPass"]),
    ("asmjit/x86/x86assembler.cpp", ["Assembler::on_"]),
    ("asmjit/arm/a64assembler.cpp", ["Assembler::on_"]),
    ("asmjit/x86/x86builder.cpp", ["Builder::on_"]),
    ("asmjit/arm/a64builder.cpp", ["Builder::on_"]),
    ("asmjit/x86/x86compiler.cpp", ["Compiler::on_"]),
    ("asmjit/arm/a64compiler.cpp", ["Compiler::on_"]),
    ("asmjit/support/arena.cpp", ["Arena"]),
]
# classes whose member lists are emitted
CLASSES = ["CodeHolder", "BaseEmitter", "BaseAssembler", "BaseBuilder", "BaseCompiler", "BaseRAPass",
           "SectionOrLabelEntryExtraHeader", "Section", "Arena", "NodeList",
           "x86::Assembler", "x86::Builder", "x86::Compiler", "a64::Assembler", "a64::Builder", "a64::Compiler",
           "x86::X86RAPass", "a64::ARMRAPass", "RelocEntry", "AddressTableEntry", "Fixup",
           "LabelEntry", "LabelEntry::ExtraData", "CodeHolder::NamedLabelExtraData",
           "BaseNode", "InstNode", "SectionNode", "LabelNode", "AlignNode", "EmbedDataNode", "EmbedLabelNode", "EmbedLabelDeltaNode",
           "ConstPoolNode", "CommentNode", "SentinelNode", "JumpNode", "FuncNode", "FuncRetNode", "InvokeNode",
           "VirtReg", "JumpAnnotation", "RAWorkReg", "RABlock", "RAInst", "RAStackSlot", "Pass", "FuncPass", "Arena::ManagedBlock", "RATiedReg", "RAAssignment", "RALiveSpans"]
FUNC_KINDS = ("FunctionDecl", "CXXMethodDecl", "CXXConstructorDecl", "CXXDestructorDecl")


def clang_dump(repo, tu, flt):
    cmd = ["clang++", "-std=c++17", "-fsyntax-only", "-DNDEBUG", "-DASMJIT_STATIC", "-DASMJIT_VERIF", "-I" + repo, "-w",
           "-Xclang", "-ast-dump=json", "-Xclang", "-ast-dump-filter=" + flt, os.path.join(repo, tu)]
    p = subprocess.run(cmd, stdout=subprocess.PIPE, stderr=subprocess.PIPE, timeout=300)
    if p.returncode != 0:
        raise RuntimeError("clang failed on %s: %s" % (tu, p.stderr.decode(errors="replace")[-2000:]))
    txt = p.stdout.decode(errors="replace")
    dec = json.JSONDecoder()
    objs, i, n = [], 0, len(txt)
    while i < n:
        while i < n and txt[i] in " \r\n\t":
            i += 1
        if i >= n:
            break
        if txt[i] != "{":          # "Dumping xyz:" lines
            j = txt.find("\n", i)
            i = n if j < 0 else j + 1
            continue
        o, i = dec.raw_decode(txt, i)
        objs.append(o)
    return objs


def clean_type(qt):
    """'const asmjit::x86::Assembler *' -> 'x86::Assembler'"""
    t = qt.replace("const ", "").replace("struct ", "").replace("class ", "")
    t = t.replace("*", "").replace("&", "").strip()
    if t.startswith("asmjit::"):
        t = t[len("asmjit::"):]
    t = t.replace("asmjit::", "")
    return t.strip()


def strip_casts(n):
    while isinstance(n, dict) and n.get("kind") in ("ImplicitCastExpr", "ParenExpr", "CStyleCastExpr", "CXXStaticCastExpr",
                                                     "CXXReinterpretCastExpr", "ExprWithCleanups", "MaterializeTemporaryExpr",
                                                     "CXXBindTemporaryExpr", "CXXFunctionalCastExpr", "ConstantExpr"):
        inner = n.get("inner") or []
        if not inner:
            break
        n = inner[-1] if n["kind"] in ("CStyleCastExpr", "CXXStaticCastExpr", "CXXReinterpretCastExpr", "CXXFunctionalCastExpr") else inner[0]
    return n


def first_child_type(n):
    """static type of the object expression a member is selected from (casts NOT stripped: derived-to-base casts matter)"""
    inner = n.get("inner") or []
    if not inner:
        return ""
    c0 = inner[0]
    if c0.get("kind") == "ImplicitCastExpr" and c0.get("castKind") in ("UncheckedDerivedToBase", "DerivedToBase") and c0.get("path"):
        return clean_type(c0["path"][-1].get("name", ""))
    t = c0.get("type", {})
    return clean_type(t.get("desugaredQualType") or t.get("qualType", ""))


def field_chain(e):
    """e: expression. Returns (class, field, sub) if e designates (a part of) a data member of an object, else None."""
    subs = []
    e = strip_casts(e)
    top = None
    obj = "expr"
    while isinstance(e, dict):
        k = e.get("kind")
        if k == "MemberExpr":
            if "bound member function" in e.get("type", {}).get("qualType", ""):
                return None
            base = strip_casts((e.get("inner") or [None])[0])
            cls = first_child_type(e)
            top = (cls, e.get("name"))
            if isinstance(base, dict) and base.get("kind") in ("MemberExpr", "ArraySubscriptExpr"):
                subs.append("." + e.get("name"))
                e = base
                continue
            obj = root_object(base)
            break
        elif k == "ArraySubscriptExpr":
            inner = e.get("inner") or []
            idx = strip_casts(inner[1]) if len(inner) > 1 else None
            if isinstance(idx, dict) and idx.get("kind") == "IntegerLiteral":
                subs.append("[%s]" % idx.get("value"))
            elif isinstance(idx, dict) and idx.get("kind") == "DeclRefExpr" and \
                    idx.get("referencedDecl", {}).get("kind") == "EnumConstantDecl":
                subs.append("[%s]" % idx["referencedDecl"].get("name"))
            else:
                subs.append("[]")
            e = strip_casts(inner[0]) if inner else None
            continue
        elif k == "UnaryOperator" and e.get("opcode") in ("*", "&"):
            e = strip_casts((e.get("inner") or [None])[0])
            continue
        else:
            return None
    if top is None:
        return None
    return (top[0], top[1], "".join(reversed(subs)), obj)


def root_object(b):
    """the object a member is selected from: this / param:<name> / var:<name> / expr"""
    b = strip_casts(b)
    while isinstance(b, dict) and b.get("kind") == "UnaryOperator" and b.get("opcode") in ("*", "&"):
        b = strip_casts((b.get("inner") or [None])[0])
    if not isinstance(b, dict):
        return "expr"
    if b.get("kind") == "CXXThisExpr":
        return "this"
    if b.get("kind") == "DeclRefExpr":
        rd = b.get("referencedDecl", {})
        if rd.get("kind") == "ParmVarDecl":
            return "param:" + rd.get("name", "?")
        if rd.get("kind") == "VarDecl":
            return "var:" + rd.get("name", "?")
    return "expr"


def render(e, depth=0):
    """small deterministic printer for guard conditions (names only, no types, no source text)"""
    e = strip_casts(e)
    if not isinstance(e, dict) or depth > 6:
        return "?"
    k = e.get("kind")
    inner = e.get("inner") or []
    if k == "DeclRefExpr":
        return e.get("referencedDecl", {}).get("name", "?")
    if k == "CXXThisExpr":
        return "this"
    if k == "MemberExpr":
        base = strip_casts(inner[0]) if inner else None
        if isinstance(base, dict) and base.get("kind") == "CXXThisExpr":
            return e.get("name", "?")
        return render(base, depth + 1) + "." + e.get("name", "?")
    if k in ("CXXMemberCallExpr", "CallExpr"):
        return render(inner[0], depth + 1) + "(" + ",".join(render(a, depth + 1) for a in inner[1:]) + ")" if inner else "call"
    if k == "UnaryOperator":
        return e.get("opcode", "?") + render(inner[0], depth + 1) if inner else "?"
    if k == "BinaryOperator":
        return "(" + render(inner[0], depth + 1) + " " + e.get("opcode", "?") + " " + render(inner[1], depth + 1) + ")" if len(inner) > 1 else "?"
    if k == "CXXOperatorCallExpr" and len(inner) >= 2:
        opn = strip_casts(inner[0]).get("referencedDecl", {}).get("name", "op")
        return opn + "(" + ",".join(render(a, depth + 1) for a in inner[1:]) + ")"
    if k in ("IntegerLiteral", "CXXBoolLiteralExpr"):
        return str(e.get("value"))
    if k == "CXXNullPtrLiteralExpr":
        return "nullptr"
    return k or "?"


def cs(x):
    return '"' + str(x).replace('"', '""') + '"'


def cterm(e, depth=0):
    """guard condition as a Coq term of type ResetSpec.cexpr (structure of the AST, names only; ASMJIT_LIKELY/UNLIKELY, i.e.
    __builtin_expect(!!(x), c), and double negation are normalised away)"""
    e = strip_casts(e)
    if not isinstance(e, dict) or depth > 8:
        return 'COther "deep"'
    k = e.get("kind")
    inner = e.get("inner") or []
    if k == "DeclRefExpr":
        return "CName " + cs(e.get("referencedDecl", {}).get("name", "?"))
    if k == "CXXThisExpr":
        return "CThis"
    if k == "MemberExpr":
        base = strip_casts(inner[0]) if inner else None
        if isinstance(base, dict) and base.get("kind") == "CXXThisExpr":
            return "CName " + cs(e.get("name", "?"))
        return "CMem (%s) %s" % (cterm(base, depth + 1), cs(e.get("name", "?")))
    if k == "CallExpr" and inner:
        cal = strip_casts(inner[0])
        fn = cal.get("referencedDecl", {}).get("name", "?") if isinstance(cal, dict) else "?"
        if fn == "__builtin_expect" and len(inner) >= 2:
            return cterm(inner[1], depth + 1)
        return "CCall %s [%s]" % (cs(fn), "; ".join(cterm(a, depth + 1) for a in inner[1:]))
    if k == "CXXMemberCallExpr" and inner:
        cal = inner[0]
        obj = (cal.get("inner") or [None])[0]
        return "CCall %s [%s]" % (cs(cal.get("name", "?")), "; ".join(cterm(a, depth + 1) for a in [obj] + inner[1:]))
    if k == "UnaryOperator" and inner:
        op = e.get("opcode", "?")
        if op == "!":
            x = strip_casts(inner[0])
            if isinstance(x, dict) and x.get("kind") == "UnaryOperator" and x.get("opcode") == "!" and x.get("inner"):
                return cterm(x["inner"][0], depth + 1)
            return "CNot (%s)" % cterm(inner[0], depth + 1)
        return "CUn %s (%s)" % (cs(op), cterm(inner[0], depth + 1))
    if k == "BinaryOperator" and len(inner) > 1:
        return "CBin %s (%s) (%s)" % (cs(e.get("opcode", "?")), cterm(inner[0], depth + 1), cterm(inner[1], depth + 1))
    if k == "CXXOperatorCallExpr" and len(inner) >= 2:
        opn = strip_casts(inner[0]).get("referencedDecl", {}).get("name", "op")
        return "CCall %s [%s]" % (cs(opn), "; ".join(cterm(a, depth + 1) for a in inner[1:]))
    if k in ("IntegerLiteral", "CXXBoolLiteralExpr"):
        return "CLit " + cs(e.get("value"))
    if k == "CXXNullPtrLiteralExpr":
        return 'CLit "nullptr"'
    if k in ("InitListExpr", "CXXScalarValueInitExpr", "ImplicitValueInitExpr") and not inner:
        return 'CLit "{}"'            # value-initialisation: zero / null
    return "COther " + cs(k or "?")


def terminates(st, jumps=True):
    """does the statement always leave the block: by `return`, or (jumps=True) by `break` / `continue`, which leave the rest of
    the enclosing loop body (last statement of a block / the statement itself)"""
    if not isinstance(st, dict):
        return None
    if st.get("kind") == "ReturnStmt":
        return st
    if jumps and st.get("kind") in ("BreakStmt", "ContinueStmt"):
        return st
    if st.get("kind") == "CompoundStmt" and st.get("inner"):
        return terminates(st["inner"][-1], jumps)
    return None


def is_error_return(ret):
    if ret.get("kind") != "ReturnStmt":
        return False                 # break / continue: what follows in the loop body is conditional, never an error exit
    txt = render((ret.get("inner") or [None])[0]) if ret.get("inner") else ""
    return any(x in txt for x in ("make_error", "report_error", "nullptr", "err", "kInvalidId", "kOutOfMemory"))


def exits_of(st, jumps=True):
    """guard components that hold for everything AFTER statement st in the same block because st may leave the block early
    (return; with jumps=True also break / continue, which only matter inside the loop body they belong to)"""
    if not isinstance(st, dict):
        return ()
    k = st.get("kind")
    inner = [c for c in (st.get("inner") or []) if isinstance(c, dict)]
    if k == "IfStmt" and len(inner) in (2, 3):
        out = ()
        r1 = terminates(inner[1], jumps)
        if r1 is not None:
            out += ("GErrExit",) if is_error_return(r1) else ("GExit (%s) false" % cterm(inner[0]),)
        else:
            out += exits_of(inner[1], jumps)
        if len(inner) == 3:
            r2 = terminates(inner[2], jumps)
            if r2 is not None:
                out += ("GErrExit",) if is_error_return(r2) else ("GExit (%s) true" % cterm(inner[0]),)
        return out
    if k == "DoStmt" and len(inner) >= 2 and render(inner[1]) in ("0", "false"):
        return exits_of(inner[0], jumps)
    if k == "CompoundStmt":
        out = ()
        for c in inner:
            out += exits_of(c, jumps)
        return out
    if k in ("WhileStmt", "ForStmt", "DoStmt", "CXXForRangeStmt") and inner:
        # a return inside a loop body: what follows the loop is only reached when no iteration took that exit
        body = inner[-1] if k != "DoStmt" else inner[0]
        out = ()
        for x in exits_of(body, False):      # break / continue of the loop do not leave it for what follows the loop
            out += ("GErrExit",) if x == "GErrExit" else ('GOther "loop-exit"',)
        return tuple(dict.fromkeys(out))
    return ()


def lambda_calls(n, out):
    if not isinstance(n, dict):
        return
    if n.get("kind") == "CXXMemberCallExpr":
        cal = (n.get("inner") or [None])[0]
        if isinstance(cal, dict) and cal.get("kind") == "MemberExpr":
            out.append(cal.get("name"))
    for c in n.get("inner") or []:
        lambda_calls(c, out)


def find_lambda(n):
    if not isinstance(n, dict):
        return None
    if n.get("kind") == "LambdaExpr":
        return n
    for c in n.get("inner") or []:
        r = find_lambda(c)
        if r is not None:
            return r
    return None


def walk_body(n, writes, calls, guard=()):
    if not isinstance(n, dict):
        return
    k = n.get("kind")
    inner = n.get("inner") or []
    gtxt = "[" + "; ".join(guard) + "]"
    if k == "CompoundStmt":
        g = guard
        for c in inner:
            walk_body(c, writes, calls, g)
            for x in exits_of(c):
                if x not in g[len(guard):] or x != "GErrExit":
                    g = g + (x,)
        return
    # control flow: what is written below a condition / inside a loop carries the condition as its guard
    if k == "IfStmt" and len(inner) >= 2:
        parts = [c for c in inner if isinstance(c, dict)]
        cond = parts[0]
        # (an init-statement / condition variable would shift the positions; asmjit's reset code has none: fall back to "if")
        ctext = cterm(cond) if len(parts) in (2, 3) else 'COther "if"'
        walk_body(cond, writes, calls, guard)
        walk_body(parts[1], writes, calls, guard + ("GCond (%s) true" % ctext,))
        if len(parts) > 2:
            walk_body(parts[2], writes, calls, guard + ("GCond (%s) false" % ctext,))
        return
    if k == "WhileStmt" and len(inner) >= 2:
        walk_body(inner[0], writes, calls, guard)
        walk_body(inner[-1], writes, calls, guard + ('GLoop "while" (%s)' % cterm(inner[0]),))
        return
    if k == "DoStmt" and len(inner) >= 2:
        c = render(inner[1])
        walk_body(inner[0], writes, calls, guard if c in ("0", "false") else guard + ('GLoop "do-while" (%s)' % cterm(inner[1]),))     # do { } while (0): macro idiom
        return
    if k in ("ForStmt", "CXXForRangeStmt", "SwitchStmt", "ConditionalOperator"):
        for c in inner:
            walk_body(c, writes, calls, guard + ("GOther " + cs(k),))
        return
    if k == "LambdaExpr":
        for c in inner:
            walk_body(c, writes, calls, guard + ('GOther "lambda"',))
        return
    if k == "BinaryOperator" and n.get("opcode") == "=" and inner:
        fc = field_chain(inner[0])
        if fc:
            writes.append(fc[:3] + ("assign", fc[3], gtxt))
    elif k == "CompoundAssignOperator" and inner:
        fc = field_chain(inner[0])
        if fc:
            writes.append(fc[:3] + ("compound:" + str(n.get("opcode")), fc[3], gtxt))
    elif k == "CXXOperatorCallExpr" and len(inner) >= 2:
        cal = strip_casts(inner[0])
        opn = cal.get("referencedDecl", {}).get("name", "") if isinstance(cal, dict) else ""
        if opn == "operator=":
            fc = field_chain(inner[1])
            if fc:
                writes.append(fc[:3] + ("assign", fc[3], gtxt))
        elif opn.startswith("operator") and opn.endswith("=") and opn not in ("operator==", "operator!=", "operator<=", "operator>="):
            fc = field_chain(inner[1])
            if fc:
                writes.append(fc[:3] + ("compound:" + opn[len("operator"):], fc[3], gtxt))
    elif k == "CXXMemberCallExpr" and inner:
        cal = inner[0]
        if isinstance(cal, dict) and cal.get("kind") == "MemberExpr":
            m = cal.get("name")
            obj = (cal.get("inner") or [None])[0]
            fc = field_chain(obj)
            if fc:
                how = "call:" + m
                lam = None
                for a in inner[1:]:
                    lam = lam or find_lambda(a)
                if lam is not None:
                    ms = []
                    lambda_calls(lam, ms)
                    if ms:
                        how += ":" + "+".join(sorted(set(ms)))
                writes.append(fc[:3] + (how, fc[3], gtxt))
            else:
                cls = first_child_type(cal)
                if cls:
                    calls.append(cls + "::" + m)
    elif k == "CallExpr" and inner:
        cal = strip_casts(inner[0])
        if isinstance(cal, dict) and cal.get("kind") == "DeclRefExpr":
            fn = cal.get("referencedDecl", {}).get("name")
            if fn:
                calls.append(fn)
                if len(inner) > 1:
                    fc = field_chain(inner[1])
                    if fc:
                        writes.append(fc[:3] + ("arg:" + fn, fc[3], gtxt))
    elif k == "InitListExpr" and inner:
        # aggregate initialisation T{a, b, ...}: one initialiser per member, in declaration order (resolved to names later)
        cls = clean_type(n.get("type", {}).get("desugaredQualType") or n.get("type", {}).get("qualType", ""))
        if cls:
            for i in range(len(inner)):
                writes.append((cls, "#%d" % i, "", "assign", "init-list", gtxt))
    for c in inner:
        walk_body(c, writes, calls, guard)


def walk_vals(n, out):
    """whole-member assignments `member = value` (built-in `=` and operator=) with the assigned value as a cexpr term"""
    if not isinstance(n, dict):
        return
    k = n.get("kind")
    inner = n.get("inner") or []
    if k == "BinaryOperator" and n.get("opcode") == "=" and len(inner) == 2:
        fc = field_chain(inner[0])
        if fc and fc[0] and fc[1] and fc[2] == "":
            out.append((fc[0], fc[1], cterm(inner[1]), fc[3]))
    elif k == "CXXOperatorCallExpr" and len(inner) >= 3:
        cal = strip_casts(inner[0])
        if isinstance(cal, dict) and cal.get("referencedDecl", {}).get("name") == "operator=":
            fc = field_chain(inner[1])
            if fc and fc[0] and fc[1] and fc[2] == "":
                out.append((fc[0], fc[1], cterm(inner[2]), fc[3]))
    for c in inner:
        walk_vals(c, out)


def ctor_init_vals(fn, cls, inits):
    """initial values given by constructor member initialisers (kept apart from the in-class initialisers: key "ctor")"""
    for c in fn.get("inner") or []:
        if c.get("kind") == "CXXCtorInitializer" and "anyInit" in c and c.get("inner") and c["anyInit"].get("name"):
            if c["inner"][0].get("kind") == "CXXDefaultInitExpr":
                continue                     # the constructor uses the in-class initialiser
            inits.setdefault(("ctor", cls, c["anyInit"]["name"]), set()).add(cterm(c["inner"][0]))


def ctor_inits(fn, cls, writes):
    """constructor member initialisers count as assignments of the constructed class"""
    for c in fn.get("inner") or []:
        if c.get("kind") == "CXXCtorInitializer" and "anyInit" in c:
            writes.append((cls, c["anyInit"].get("name"), "", "assign", "this", "[]"))


def demangle_all(names):
    names = sorted(set(names))
    if not names:
        return {}
    p = subprocess.run(["c++filt"], input="\n".join(names) + "\n", stdout=subprocess.PIPE, stderr=subprocess.PIPE,
                       timeout=120, text=True)
    outs = p.stdout.split("\n")
    return {m: d for m, d in zip(names, outs)}


def qual_from_demangled(d):
    """'asmjit::_abi_1_18::x86::Assembler::on_attach(asmjit::...)' -> 'x86::Assembler::on_attach'"""
    depth, cut = 0, len(d)
    for i, ch in enumerate(d):           # cut the parameter list (first '(' at template depth 0)
        if ch == "<":
            depth += 1
        elif ch == ">":
            depth -= 1
        elif ch == "(" and depth == 0:
            cut = i
            break
    q = d[:cut].strip()
    if " " in q and not q.startswith("operator"):
        q = q.split(" ")[-1]             # drop a leading return type (templates)
    parts = [x for x in q.split("::") if x != "asmjit" and not x.startswith("_abi_") and not re.fullmatch(r"v\d+_\d+", x)]
    return "::".join(parts)


def all_mangled(n, out):
    if isinstance(n, dict):
        if n.get("kind") in FUNC_KINDS and n.get("mangledName"):
            out.append(n["mangledName"])
        for c in n.get("inner") or []:
            all_mangled(c, out)


def run(repo):
    """returns (classes, funcs); classes[c]["inits"] maps a member to its initial value (in-class initialiser, else constructor
    initialiser), funcs[f]["vals"] is the set of (class, member, value) of the whole-member assignments of f"""
    classes, funcs = {}, {}
    nsdmi, ctor = {}, {}
    jobs = [(tu, flt) for tu, flts in TUS for flt in flts]
    with ThreadPoolExecutor(max_workers=8) as ex:
        dumps = list(ex.map(lambda j: clang_dump(repo, j[0], j[1]), jobs))
    names = []
    for objs in dumps:
        for o in objs:
            all_mangled(o, names)
    dem = demangle_all(names)
    for (tu, flt), objs in zip(jobs, dumps):
        c2, f2, i2 = {}, {}, {}
        collect_scoped(objs, c2, f2, dem, i2)
        for k, v in i2.items():
            if k[0] == "nsdmi":
                nsdmi.setdefault(k[1:], v)
            else:
                ctor.setdefault(k[1:], set()).update(v)
        for k, v in c2.items():
            if k not in classes or len(v["fields"]) >= len(classes[k]["fields"]):
                classes[k] = v
        for k, v in f2.items():
            f = funcs.setdefault(k, {"writes": set(), "calls": set(), "vals": set()})
            f["writes"].update(v["writes"])
            f["calls"].update(v["calls"])
            f["vals"].update(v.get("vals", ()))
            f.setdefault("vals_on", set()).update(v.get("vals_on", ()))
            if v.get("val_seq") and not f.get("val_seq"):
                f["val_seq"] = v["val_seq"]
    resolve_names(classes, funcs)
    # the initial value of a member: the constructors' member initialiser when all constructors that name the member agree, else
    # the in-class initialiser
    for (c, fld), v in nsdmi.items():
        if c in classes:
            classes[c].setdefault("inits", {})[fld] = v
    for (c, fld), vs in ctor.items():
        if c in classes and len(vs) == 1:
            classes[c].setdefault("inits", {})[fld] = sorted(vs)[0]
    return classes, funcs


def resolve_names(classes, funcs):
    """(1) a write through an anonymous union/struct member (member name "") is attributed to the anonymous member that
    declares the first named component of the path; (2) init-list positions "#i" become member names."""
    groups = {}
    for c, v in classes.items():
        for f, _t in v["fields"]:
            if f.startswith("anon:"):
                for ind in f[5:].split("+"):
                    groups[(c, ind)] = f
    for f in funcs.values():
        ws = set()
        for w in f["writes"]:
            cls, fld, sub, how, obj, g = w
            if fld == "" or fld is None:
                comps = [x for x in re.split(r"[.\[]", sub) if x]
                first = comps[0] if comps else ""
                grp = groups.get((cls, first))
                if grp:
                    fld = grp
                    sub = "." + sub.lstrip(".")
            elif fld.startswith("#") and cls in classes:
                i = int(fld[1:])
                fl = classes[cls]["fields"]
                if i < len(fl):
                    fld = fl[i][0]
            ws.add((cls, fld, sub, how, obj, g))
        f["writes"] = ws


def collect_scoped(objs, classes, funcs, dem, inits=None):
    """A filtered dump prints the matching declarations without their namespaces. Functions get their qualified name from
    their mangled name (c++filt); a record gets its qualified name from the first of its member functions that has one."""

    def fq(n):
        m = n.get("mangledName")
        return qual_from_demangled(dem[m]) if m and m in dem and dem[m] != m else None

    def record_qual(n, scope):
        for c in n.get("inner") or []:
            if c.get("kind") in ("CXXMethodDecl", "CXXConstructorDecl", "CXXDestructorDecl") and not c.get("isImplicit"):
                q = fq(c)
                if q and "::" in q:
                    return q.rsplit("::", 1)[0]
        return (scope + "::" if scope else "") + n.get("name", "?")

    def visit(n, scope):
        if not isinstance(n, dict):
            return
        k = n.get("kind")
        if k == "CXXRecordDecl" and n.get("name"):
            if n.get("completeDefinition") and n.get("inner"):
                q = record_qual(n, scope)
                fields = []
                anon = None
                for c in n["inner"]:
                    if c.get("kind") == "FieldDecl" and c.get("name"):
                        fields.append([c.get("name"), c.get("type", {}).get("qualType", "")])
                        anon = None
                        if inits is not None and c.get("hasInClassInitializer") and c.get("inner"):
                            inits[("nsdmi", q, c["name"])] = cterm(c["inner"][0])
                    elif c.get("kind") == "FieldDecl":           # anonymous union/struct member: named after its indirect members
                        anon = ["anon:", "anonymous"]
                        fields.append(anon)
                    elif c.get("kind") == "IndirectFieldDecl" and anon is not None:
                        anon[0] += ("" if anon[0] == "anon:" else "+") + c.get("name", "?")
                fields = [tuple(f) for f in fields]
                bases = [clean_type(b.get("type", {}).get("desugaredQualType") or b.get("type", {}).get("qualType", ""))
                         for b in n.get("bases", [])]
                if q not in classes or len(fields) >= len(classes[q]["fields"]):
                    classes[q] = {"bases": bases, "fields": fields}
                for c in n["inner"]:
                    visit(c, q)
            return
        if k in FUNC_KINDS:
            body = [c for c in n.get("inner") or [] if c.get("kind") == "CompoundStmt"]
            if not body:
                return
            q = fq(n) or ((scope + "::" if scope else "") + n.get("name", "?"))
            owner = q.rsplit("::", 1)[0] if "::" in q else ""
            if k == "FunctionDecl":
                q = q.rsplit("::", 1)[-1]          # free functions are referenced by bare name
            w, c, vs = [], [], []
            if k == "CXXConstructorDecl":
                ctor_inits(n, owner, w)
                if inits is not None:
                    ctor_init_vals(n, owner, inits)
            walk_body(body[0], w, c)
            walk_vals(body[0], vs)
            if k == "CXXConstructorDecl" and inits is not None:
                for (vc, vf, vv, _o) in vs:      # `member = value` in the body of the class's own constructor
                    if vc == owner:
                        inits.setdefault(("ctor", vc, vf), set()).add(vv)
            f = funcs.setdefault(q, {"writes": set(), "calls": set(), "vals": set()})
            f["writes"].update(w)
            f["calls"].update(c)
            f["vals"].update(v[:3] for v in vs)
            f.setdefault("vals_on", set()).update(vs)
            if vs and not f.get("val_seq"):
                f["val_seq"] = [v[:3] for v in vs]          # the same assignments in source order
            return
        for c in n.get("inner") or []:
            visit(c, scope)

    for o in objs:
        visit(o, "")


PROBE_CLASSES = ["CodeHolder", "BaseEmitter", "BaseAssembler", "BaseBuilder", "BaseCompiler"]
# members whose representation legitimately differs from a fresh object (retained resources / conservative cache flag); each is on
# the reviewed persistent list of ResetSpec.v or is a container of retained memory
PROBE_SKIP = {("BaseBuilder", "_dirty_section_links"),
              # the Assembler's cursor into the .text buffer: after a soft reset / reinit the buffer memory is retained (non-null,
              # size 0) while a fresh holder has none yet; the offset itself is part of the dump (off=)
              ("BaseAssembler", "_buffer_data"), ("BaseAssembler", "_buffer_end"), ("BaseAssembler", "_buffer_ptr")}


def member_kind(cls, name, ty):
    t = ty.replace("asmjit::", "")
    if (cls, name) in PROBE_SKIP:
        return "K_SKIP"
    if t.startswith("ArenaVector<"):
        return "K_VEC"
    if t.startswith("ArenaHash<"):
        return "K_HASH"
    if t.startswith("ArenaTree<"):
        return "K_PTRS"          # a single root pointer
    if t.startswith("ArenaPool<"):
        return "K_PTRS"          # head of the free list
    if t == "Arena":
        return "K_ARENA"
    if t == "Section":
        return "K_SECTION"
    if t == "NodeList" or re.search(r"\*\s*\[\d+\]$", t):
        return "K_PTRS"
    if t.endswith("*"):
        return "K_PTR"
    return "K_BYTES"


def members_inc(classes):
    """C++ table (X-macro) of the data members of the probed classes, generated from the SAME member lists as ResetFields.v"""
    out = ["// GENERATED by tools/c16_fields.py -- member table for the representation probe of harness/c16_harness.cpp"]
    for c in PROBE_CLASSES:
        for f, ty in classes.get(c, {}).get("fields", []):
            if f.startswith("anon:"):
                continue
            out.append("C16_MEMBER(%s, %s, %s)" % (c, f, member_kind(c, f, ty)))
    return "\n".join(out) + "\n"


def coq_str(s):
    return '"' + s.replace('"', '""') + '"'


def relevant_functions(funcs):
    """Only functions that a route of ResetSpec.v can reach are emitted (keeps the generated file small and stable against
    edits of unrelated functions of the same translation units). The start set is every string literal of ResetSpec.v that names
    an extracted function, plus the derived names the routes build (<emitter>::on_detach / ::on_reinit, <Class>::<Class>); a name
    missed here only makes the Coq check fail (hygiene / coverage), never pass."""
    spec = os.path.join(os.path.dirname(os.path.dirname(os.path.abspath(__file__))), "coq", "theories", "Lifecycle", "ResetSpec.v")
    lits = set(re.findall(r'"([^"\n]*)"', open(spec).read()))
    start = set()
    for l in lits:
        for cand in (l, l + "::on_detach", l + "::on_reinit", l + "::on_attach", l + "::" + l.split("::")[-1]):
            if cand in funcs:
                start.add(cand)
    seen, todo = set(), list(start)
    while todo:
        n = todo.pop()
        if n in seen:
            continue
        seen.add(n)
        for c in funcs.get(n, {}).get("calls", ()):
            if c in funcs and c not in seen:
                todo.append(c)
    return seen


def to_coq(classes, funcs):
    keep = relevant_functions(funcs)
    funcs = {k: v for k, v in funcs.items() if k in keep}
    out = []
    out.append("(* GENERATED by tools/c16_fields.py from the clang AST of the asmjit working tree -- do not edit. *)")
    out.append("From Coq Require Import String List.")
    out.append("From Verif Require Import Lifecycle.ResetSpec.")
    out.append("Import ListNotations.")
    out.append("Local Open Scope string_scope.")
    out.append("")
    out.append("Definition classes : list class_decl := [")
    rows = []
    for c in CLASSES:
        if c not in classes:
            continue
        v = classes[c]
        rows.append("  mk_class %s [%s] [%s]" % (coq_str(c), "; ".join(coq_str(b) for b in v["bases"]),
                                              "; ".join(coq_str(f) for f, _t in v["fields"])))
    out.append(";\n".join(rows))
    out.append("].")
    out.append("")
    out.append("Definition funcs : list func_decl := [")
    rows = []
    for q in sorted(funcs):
        f = funcs[q]
        ws = sorted(w for w in f["writes"] if w[0] and w[1])
        cs = sorted(f["calls"])
        if not ws and not cs:
            continue
        rows.append("  mk_func %s\n    [%s]\n    [%s]" % (
            coq_str(q),
            "; ".join("mk_write %s %s %s %s %s %s" % (tuple(coq_str(x) for x in w[:5]) + (w[5],)) for w in ws),
            "; ".join(coq_str(c) for c in cs)))
    out.append(";\n".join(rows))
    out.append("].")
    out.append("")
    out.append("(* reflection: every route of ResetSpec.routes covers every member of its classes (or the member is on the reviewed")
    out.append("   persistent list), and the reviewed lists name only existing things. Re-checked by coqc whenever this file changes. *)")
    out.append("Lemma reset_fields_ok : check_all classes funcs = true.")
    out.append("Proof. vm_compute. reflexivity. Qed.")
    out.append("")
    out.append("(* the callee closures of the FollowAll roots are closed under the extracted call edges (no reachable function was lost) *)")
    out.append("Lemma reach_closed_ok : reach_closed funcs = true.")
    out.append("Proof. vm_compute. reflexivity. Qed.")
    out.append("")
    vrows = sorted((q, c, fl, v) for q in funcs for (c, fl, v) in funcs[q].get("vals", ()))
    vclasses = set(CLASSES) | set(r[1] for r in vrows)
    irows = sorted((c, fl, v) for c in classes if c in vclasses for fl, v in classes[c].get("inits", {}).items())
    out.append("(* initial values of data members (constructor initialiser / constructor body / in-class initialiser) *)")
    out.append("Definition inits : list init_decl := [")
    out.append(";\n".join("  mk_init %s %s (%s)" % (coq_str(c), coq_str(fl), v) for c, fl, v in irows))
    out.append("].")
    out.append("")
    out.append("(* whole-member assignments `member = value` of the extracted functions, with the assigned value *)")
    out.append("Definition vals : list val_decl := [")
    out.append(";\n".join("  mk_val %s %s %s (%s)" % (coq_str(q), coq_str(c), coq_str(fl), v) for q, c, fl, v in vrows))
    out.append("].")
    out.append("")
    out.append("(* the assignments, in SOURCE ORDER, of the functions that assign some member more than once (set-up ... tear-down) *)")
    out.append("Definition val_seq : list val_decl := [")
    srows = []
    for q in sorted(funcs):
        seq = funcs[q].get("val_seq") or []
        keys = [(c, fl) for c, fl, _v in seq]
        if len(set(keys)) < len(keys):
            srows += ["  mk_val %s %s %s (%s)" % (coq_str(q), coq_str(c), coq_str(fl), v) for c, fl, v in seq]
    out.append(";\n".join(srows))
    out.append("].")
    out.append("")
    out.append("(* reflection: in a reviewed set-up/tear-down function (ResetSpec.teardown_funcs) the LAST assignment of every member it")
    out.append("   assigns writes the initial value, and an unconditional assignment of the member exists *)")
    out.append("Lemma teardown_ok : check_teardown inits val_seq funcs = true.")
    out.append("Proof. vm_compute. reflexivity. Qed.")
    out.append("")
    out.append("(* reflection: every assignment of a reviewed pure reset function (ResetSpec.value_funcs) writes the member's initial value,")
    out.append("   or is a reviewed exception that really differs. Re-checked by coqc whenever this file changes. *)")
    out.append("Lemma reset_values_ok : check_values inits vals = true.")
    out.append("Proof. vm_compute. reflexivity. Qed.")
    out.append("")
    out.append("(* reflection: the two extractions agree -- every whole-member assign-write of a reviewed pure reset / tear-down function has a value row *)")
    out.append("Lemma assign_writes_have_values_ok : assign_writes_have_values funcs vals = true.")
    out.append("Proof. vm_compute. reflexivity. Qed.")
    out.append("")
    orows = sorted((o, q, c, fl, v) for q in funcs for (c, fl, v, o) in funcs[q].get("vals_on", ()) if o != "this")
    out.append("(* the assignments made on an object OTHER than `this` (param:<name> / var:<name> / expr), with that object *)")
    out.append("Definition vals_on : list (string * val_decl) := [")
    out.append(";\n".join("  (%s, mk_val %s %s %s (%s))" % (coq_str(o), coq_str(q), coq_str(c), coq_str(fl), v) for o, q, c, fl, v in orows))
    out.append("].")
    out.append("")
    out.append("(* reflection: a function that resets ONE of its arguments (ResetSpec.value_obj_funcs) assigns that object initial values only *)")
    out.append("Lemma reset_object_values_ok : check_object_values inits vals_on = true.")
    out.append("Proof. vm_compute. reflexivity. Qed.")
    out.append("")
    return "\n".join(out)


def main():
    repo = os.environ.get("VERIF_REPO", "/repo")
    args = sys.argv[1:]
    if "--repo" in args:
        repo = args[args.index("--repo") + 1]
    classes, funcs = run(repo)
    if "--json" in args:
        json.dump({"classes": classes,
                   "funcs": {k: {"writes": sorted(v["writes"]), "calls": sorted(v["calls"])} for k, v in funcs.items()}},
                  sys.stdout, indent=1)
    else:
        sys.stdout.write(to_coq(classes, funcs))


if __name__ == "__main__":
    main()

"""C07 translator: regenerates model DATA from the C++ source of the tree under test (text of /repo, not its behaviour).

  * x86 / a64 FuncInternal::init_call_conv (asmjit/x86/x86func.cpp, asmjit/arm/a64func.cpp) are EXECUTED by a small interpreter
    for the statement/expression subset they are written in (declarations, if/else, switch/case/break/default, return,
    assignments, cc.set_*/add_* calls, integer / flag expressions, Support::bit_mask / lsb_mask, the local predicate
    should_treat_as_cdecl*) for every (architecture, platform, convention id) -> the calling-convention table;
  * constants of FuncFrame::finalize (size limit), of the AArch64 emitters (sub/add immediates) and the Error enum values.

The result is a Coq file (coq/gen/C07SourceData.v) whose theorems state that the model's cc_init / constants EQUAL the
translated data; coqc re-checks them whenever the text differs from the committed snapshot.  Anything the interpreter does not
understand raises TranslateError (reported by the check as a broken tie, never silently skipped).

Facts the translator takes from outside the translated functions (trusted, small): RegGroup indices (kGp 0, kVec 1, kMask/kX86_K 2,
kExtra/kX86_MM 3), the meaning of the Environment predicates for the three platforms of the harness, FuncFrame::init removing SP
from the preserved GP mask (checked to be present in func.cpp by pattern)."""
import os
import re


class TranslateError(Exception):
    pass


# ----------------------------------------------------------------------------- tokens
TOK = re.compile(r"\s*(?:(0[xX][0-9a-fA-F]+|\d+)[uUlL]*|([A-Za-z_][A-Za-z_0-9]*(?:::[A-Za-z_][A-Za-z_0-9]*)*)|(==|!=|&&|\|\||<<|>>|<=|>=|[-+*/%&|^~!<>=?:;,(){}\[\].]))")


def strip_comments(src):
    src = re.sub(r"/\*.*?\*/", " ", src, flags=re.S)
    return re.sub(r"//[^\n]*", " ", src)


def tokenize(src):
    out, i = [], 0
    src = src.strip()
    while i < len(src):
        m = TOK.match(src, i)
        if not m:
            raise TranslateError("cannot tokenize at %r" % src[i:i + 40])
        if m.group(1) is not None:
            out.append(("num", int(m.group(1), 0)))
        elif m.group(2) is not None:
            out.append(("id", m.group(2)))
        else:
            out.append(("op", m.group(3)))
        i = m.end()
        while i < len(src) and src[i].isspace():
            i += 1
    return out


def function_body(src, header_regex):
    """text between the braces of the function whose header matches"""
    m = re.search(header_regex, src)
    if not m:
        raise TranslateError("function %r not found" % header_regex)
    i = src.index("{", m.end() - 1)
    depth, j = 0, i
    while True:
        if src[j] == "{":
            depth += 1
        elif src[j] == "}":
            depth -= 1
            if depth == 0:
                return src[i:j + 1]
        j += 1


# ----------------------------------------------------------------------------- parser (AST as tuples)
TYPES = {"bool", "uint32_t", "int", "int32_t", "unsigned", "constexpr", "const", "static", "auto", "size_t", "uint8_t"}


class Parser:
    def __init__(self, toks):
        self.t, self.i = toks, 0

    def peek(self, k=0):
        return self.t[self.i + k] if self.i + k < len(self.t) else ("eof", None)

    def eat(self, kind=None, val=None):
        tk = self.peek()
        if (kind and tk[0] != kind) or (val is not None and tk[1] != val):
            raise TranslateError("expected %s %s, got %r (token %d)" % (kind, val, tk, self.i))
        self.i += 1
        return tk

    def at(self, val):
        return self.peek()[1] == val and self.peek()[0] in ("op", "id")

    # statements
    def block(self):
        self.eat("op", "{")
        body = []
        while not self.at("}"):
            body.append(self.stmt())
        self.eat("op", "}")
        return ("block", body)

    def stmt(self):
        tk = self.peek()
        if tk == ("op", "{"):
            return self.block()
        if tk == ("id", "if"):
            self.eat()
            self.eat("op", "(")
            c = self.expr()
            self.eat("op", ")")
            a = self.stmt()
            b = None
            if self.peek() == ("id", "else"):
                self.eat()
                b = self.stmt()
            return ("if", c, a, b)
        if tk == ("id", "switch"):
            self.eat()
            self.eat("op", "(")
            e = self.expr()
            self.eat("op", ")")
            self.eat("op", "{")
            items = []          # ("case", expr) | ("default",) | ("stmt", s)
            while not self.at("}"):
                if self.peek() == ("id", "case"):
                    self.eat()
                    v = self.expr_no_colon()
                    self.eat("op", ":")
                    items.append(("case", v))
                elif self.peek() == ("id", "default"):
                    self.eat()
                    self.eat("op", ":")
                    items.append(("default",))
                else:
                    items.append(("stmt", self.stmt()))
            self.eat("op", "}")
            return ("switch", e, items)
        if tk == ("id", "break"):
            self.eat()
            self.eat("op", ";")
            return ("break",)
        if tk == ("id", "return"):
            self.eat()
            e = self.expr()
            self.eat("op", ";")
            return ("return", e)
        # declaration:  <type words> name = expr ;
        if tk[0] == "id" and tk[1] in TYPES:
            while self.peek()[0] == "id" and self.peek()[1] in TYPES:
                self.eat()
            name = self.eat("id")[1]
            self.eat("op", "=")
            e = self.expr()
            self.eat("op", ";")
            return ("decl", name, e)
        # assignment or expression statement
        if tk[0] == "id" and self.peek(1) == ("op", "="):
            name = self.eat("id")[1]
            self.eat("op", "=")
            e = self.expr()
            self.eat("op", ";")
            return ("assign", name, e)
        e = self.expr()
        self.eat("op", ";")
        return ("expr", e)

    # expressions (C precedence, the subset in use)
    def expr_no_colon(self):
        return self.lor()

    def expr(self):
        c = self.lor()
        if self.at("?"):
            self.eat()
            a = self.expr()
            self.eat("op", ":")
            b = self.expr()
            return ("tern", c, a, b)
        return c

    def _bin(self, sub, ops):
        a = sub()
        while self.peek()[0] == "op" and self.peek()[1] in ops:
            op = self.eat()[1]
            a = ("bin", op, a, sub())
        return a

    def lor(self): return self._bin(self.land, ("||",))
    def land(self): return self._bin(self.bor, ("&&",))
    def bor(self): return self._bin(self.band, ("|",))
    def band(self): return self._bin(self.eq, ("&",))
    def eq(self): return self._bin(self.shift, ("==", "!="))
    def shift(self): return self._bin(self.add, ("<<", ">>"))
    def add(self): return self._bin(self.mul, ("+", "-"))
    def mul(self): return self._bin(self.unary, ("*",))

    def unary(self):
        if self.peek()[0] == "op" and self.peek()[1] in ("!", "~", "-"):
            op = self.eat()[1]
            return ("un", op, self.unary())
        return self.postfix()

    def postfix(self):
        tk = self.eat()
        if tk[0] == "num":
            return ("num", tk[1])
        if tk == ("op", "("):
            e = self.expr()
            self.eat("op", ")")
            return e
        if tk[0] != "id":
            raise TranslateError("unexpected token %r" % (tk,))
        name = tk[1]
        # member access chains:  cc.set_x(...)   environment.is_32bit()
        while self.at("."):
            self.eat()
            name += "." + self.eat("id")[1]
        # template arguments  name<T>(...)  (only directly before a call)
        if self.at("<") and self.peek(1)[0] == "id" and self.peek(2) == ("op", ">") and self.peek(3) == ("op", "("):
            self.eat(); self.eat(); self.eat()
        if self.at("("):
            self.eat()
            args = []
            while not self.at(")"):
                args.append(self.expr())
                if self.at(","):
                    self.eat()
            self.eat("op", ")")
            return ("call", name, args)
        return ("name", name)


# ----------------------------------------------------------------------------- evaluation
class Return(Exception):
    def __init__(self, v):
        self.v = v


class Break(Exception):
    pass


GROUPS = {"RegGroup::kGp": 0, "RegGroup::kVec": 1, "RegGroup::kMask": 2, "RegGroup::kExtra": 3, "RegGroup::kX86_K": 2, "RegGroup::kX86_MM": 3}
M32 = 0xFFFFFFFF


class Sym(str):
    """a symbolic enum value (Error::kOk, CallConvStrategy::..., Arch::...)"""


class Interp:
    def __init__(self, consts, predicates, envfacts):
        self.consts, self.predicates, self.envfacts = consts, predicates, envfacts

    def run(self, body_ast, ccid):
        self.vars = {"call_conv_id": ccid}
        self.cc = {"srsize": [0, 0, 0, 0], "sralign": [0, 0, 0, 0], "preserved": [0, 0, 0, 0], "natural": 0, "redzone": 0, "spillzone": 0,
                   "flags": frozenset()}
        try:
            self.exec(body_ast)
        except Return as r:
            return r.v
        raise TranslateError("function fell off its end")

    def exec(self, s):
        k = s[0]
        if k == "block":
            for x in s[1]:
                self.exec(x)
        elif k == "if":
            if self.truth(self.ev(s[1])):
                self.exec(s[2])
            elif s[3] is not None:
                self.exec(s[3])
        elif k == "switch":
            v = self.ev(s[1])
            items = s[2]
            start = None
            for i, it in enumerate(items):
                if it[0] == "case" and self.ev(it[1]) == v:
                    start = i
                    break
            if start is None:
                for i, it in enumerate(items):
                    if it[0] == "default":
                        start = i
                        break
            if start is not None:
                try:
                    for it in items[start:]:
                        if it[0] == "stmt":
                            self.exec(it[1])
                except Break:
                    pass
        elif k == "break":
            raise Break()
        elif k == "return":
            raise Return(self.ev(s[1]))
        elif k == "decl" or k == "assign":
            if k == "assign" and s[1] not in self.vars:
                raise TranslateError("assignment to unknown variable %s" % s[1])
            self.vars[s[1]] = self.ev(s[2])
        elif k == "expr":
            self.ev(s[1])
        else:
            raise TranslateError("statement %r" % (k,))

    @staticmethod
    def truth(v):
        if isinstance(v, bool):
            return v
        if isinstance(v, int):
            return v != 0
        raise TranslateError("condition is not a boolean: %r" % (v,))

    def ev(self, e):
        k = e[0]
        if k == "num":
            return e[1]
        if k == "name":
            n = e[1]
            if n in ("true", "false"):
                return n == "true"
            if n in self.vars:
                return self.vars[n]
            if n in self.consts:
                return self.consts[n]
            if n in GROUPS:
                return GROUPS[n]
            if n.startswith("CallConvFlags::"):
                return frozenset([n.split("::")[1]])
            if "::" in n:
                return Sym(n)
            raise TranslateError("unknown name %s" % n)
        if k == "tern":
            return self.ev(e[2]) if self.truth(self.ev(e[1])) else self.ev(e[3])
        if k == "un":
            v = self.ev(e[2])
            if e[1] == "!":
                return not self.truth(v)
            if e[1] == "~":
                return ~v & M32
            return -v
        if k == "bin":
            op = e[1]
            if op == "||":
                return self.truth(self.ev(e[2])) or self.truth(self.ev(e[3]))
            if op == "&&":
                return self.truth(self.ev(e[2])) and self.truth(self.ev(e[3]))
            a, b = self.ev(e[2]), self.ev(e[3])
            if op == "==":
                return a == b
            if op == "!=":
                return a != b
            if isinstance(a, frozenset) or isinstance(b, frozenset):
                if op == "|" and isinstance(a, frozenset) and isinstance(b, frozenset):
                    return a | b
                raise TranslateError("flag expression %r" % (e,))
            if not (isinstance(a, int) and isinstance(b, int)) or isinstance(a, bool) or isinstance(b, bool):
                raise TranslateError("arithmetic on %r %r" % (a, b))
            return {"|": a | b, "&": a & b, "+": a + b, "-": a - b, "*": a * b, "<<": (a << b) & M32, ">>": a >> b}[op]
        if k == "call":
            n, args = e[1], e[2]
            if n.startswith("cc."):
                return self.cc_call(n[3:], [self.ev(a) for a in args])
            if n.startswith("environment."):
                if n[12:] not in self.envfacts or args:
                    raise TranslateError("environment predicate %s" % n)
                return self.envfacts[n[12:]]
            if n in self.envfacts and not args:
                return self.envfacts[n]          # member function called inside Environment (is_64bit(), is_platform_linux(), ...)
            if n in ("uint32_t", "int", "unsigned", "RegMask", "uint8_t"):
                return self.ev(args[0])
            if n == "Support::bit_mask":
                m = 0
                for a in args:
                    m |= 1 << self.ev(a)
                return m & M32
            if n == "Support::lsb_mask":
                v = self.ev(args[0])
                return M32 if v >= 32 else (1 << v) - 1
            if n == "make_error":
                return self.ev(args[0])
            if n in self.predicates:
                params, body = self.predicates[n]
                sub = Interp(self.consts, self.predicates, self.envfacts)
                sub.vars = dict(zip(params, [self.ev(a) for a in args]))
                sub.cc = None
                try:
                    sub.exec(body)
                except Return as r:
                    return r.v
                raise TranslateError("predicate %s does not return" % n)
            raise TranslateError("unknown function %s" % n)
        raise TranslateError("expression %r" % (k,))

    def cc_call(self, name, a):
        cc = self.cc
        if name == "set_save_restore_reg_size":
            cc["srsize"][a[0]] = a[1]
        elif name == "set_save_restore_alignment":
            cc["sralign"][a[0]] = a[1]
        elif name == "set_preserved_regs":
            cc["preserved"][a[0]] = a[1] & M32
        elif name == "set_natural_stack_alignment":
            cc["natural"] = a[0]
        elif name == "set_red_zone_size":
            cc["redzone"] = a[0]
        elif name == "set_spill_zone_size":
            cc["spillzone"] = a[0]
        elif name == "set_flags":
            cc["flags"] = a[0]
        elif name == "add_flags":
            cc["flags"] = cc["flags"] | a[0]
        elif name in ("set_passed_order", "set_strategy", "set_arch", "set_id"):
            pass
        else:
            raise TranslateError("unknown CallConv setter %s" % name)
        return None


# ----------------------------------------------------------------------------- source -> data
def parse_enum(src, name):
    m = re.search(r"enum\s+(?:class\s+)?%s\b[^{]*\{(.*?)\};" % name, src, re.S)
    if not m:
        raise TranslateError("enum %s not found" % name)
    vals, nxt = {}, 0
    for item in strip_comments(m.group(1)).split(","):
        item = item.strip()
        if not item:
            continue
        mm = re.match(r"(k\w+)\s*(?:=\s*(.+))?$", item, re.S)
        if not mm:
            raise TranslateError("enum %s: item %r" % (name, item))
        if mm.group(2) is not None:
            v = mm.group(2).strip()
            if re.match(r"^(0[xX][0-9a-fA-F]+|\d+)u?$", v):
                nxt = int(v.rstrip("u"), 0)
            elif v in vals:
                nxt = vals[v]
            else:
                raise TranslateError("enum %s: value %r" % (name, v))
        vals[mm.group(1)] = nxt
        nxt += 1
    return vals


def reg_ids(src, cls_hint):
    return {m.group(1): int(m.group(2)) for m in re.finditer(r"\b(kId\w+)\s*=\s*(\d+)\s*,", src)}


def translate(repo):
    rd = lambda p: open(os.path.join(repo, p)).read()
    func_h, func_cpp, globals_h = rd("asmjit/core/func.h"), rd("asmjit/core/func.cpp"), rd("asmjit/core/globals.h")
    x86func, a64func = strip_comments(rd("asmjit/x86/x86func.cpp")), strip_comments(rd("asmjit/arm/a64func.cpp"))
    a64emit = strip_comments(rd("asmjit/arm/a64emithelper.cpp"))
    ccids = parse_enum(func_h, "CallConvId")
    errors = parse_enum(globals_h, "Error")
    consts = {"CallConvId::" + k: v for k, v in ccids.items()}
    x86ids = reg_ids(rd("asmjit/x86/x86operand.h"), "Gp")
    a64ids = reg_ids(rd("asmjit/arm/a64operand.h"), "Gp")

    def build(src, header, pred_name, ids):
        body = Parser(tokenize(function_body(src, header))).block()
        pm = re.search(r"bool\s+(%s)\s*\(\s*CallConvId\s+(\w+)\s*\)" % pred_name, src)
        preds = {}
        if pm:
            pbody = Parser(tokenize(function_body(src, r"bool\s+%s\s*\(" % pred_name))).block()
            preds[pm.group(1)] = ([pm.group(2)], pbody)
        c = dict(consts)
        c.update({"Gp::" + k: v for k, v in ids.items()})
        return body, preds, c

    x_body, x_preds, x_consts = build(x86func, r"Error\s+init_call_conv\s*\(", r"should_treat_as_cdeclIn64BitMode", x86ids)
    a_body, a_preds, a_consts = build(a64func, r"Error\s+init_call_conv\s*\(", r"should_treat_as_cdecl", a64ids)
    if not re.search(r"_preserved_regs\[RegGroup::kGp\]\s*&=\s*~Support::bit_mask<RegMask>\(arch_traits\.sp_reg_id\(\)\)", func_cpp) and \
       not re.search(r"kGp[^\n;]*&=\s*~[^\n;]*sp_reg_id", func_cpp):
        raise TranslateError("FuncFrame::init no longer removes SP from the preserved GP mask (pattern not found)")
    rows = []
    # every enumerator of CallConvId (values that are not enumerators are outside the API contract: the a64 function does not validate them)
    idlist = sorted(set(v for k, v in ccids.items() if k != "kMaxValue"))
    for arch in ("X86", "X64", "A64"):
        for plat in (0, 1, 2):
            env = {"is_32bit": arch == "X86", "is_platform_windows": plat == 1, "is_msvc_abi": plat == 1, "is_darwin_abi": plat == 2,
                   "arch": Sym("Arch::" + arch)}
            for cid in idlist:
                if arch == "A64":
                    it = Interp(a_consts, a_preds, env)
                    r = it.run(a_body, cid)
                    spid = 31
                else:
                    it = Interp(x_consts, x_preds, env)
                    r = it.run(x_body, cid)
                    spid = 4
                if r == Sym("Error::kOk"):
                    cc = it.cc
                    pres = list(cc["preserved"])
                    pres[0] &= ~(1 << spid)           # FuncFrame::init
                    rows.append((arch, plat, cid, (cc["natural"], cc["redzone"], cc["spillzone"], "kCalleePopsStack" in cc["flags"],
                                                  pres, list(cc["srsize"]), list(cc["sralign"]))))
                elif isinstance(r, Sym) and r.startswith("Error::"):
                    rows.append((arch, plat, cid, None))
                else:
                    raise TranslateError("init_call_conv returned %r" % (r,))
    # Environment::stack_alignment() interpreted for the nine (architecture, platform) pairs + the Compiler's override (pattern)
    env_cpp, compiler_cpp = strip_comments(rd("asmjit/core/environment.cpp")), strip_comments(rd("asmjit/core/compiler.cpp"))
    sa_body = Parser(tokenize(function_body(env_cpp, r"uint32_t\s+Environment::stack_alignment\s*\("))).block()
    env_rows = []
    for arch in ("X86", "X64", "A64"):
        for plat in (0, 1, 2):
            env = {"is_64bit": arch != "X86", "is_32bit": arch == "X86", "is_platform_linux": plat == 0, "is_platform_windows": plat == 1,
                   "is_platform_apple": plat == 2, "is_platform_bsd": False, "is_platform_haiku": False, "is_family_arm": arch == "A64",
                   "is_family_x86": arch != "A64"}
            it = Interp({}, {}, env)
            it.vars, it.cc = {}, None
            try:
                it.exec(sa_body)
                raise TranslateError("Environment::stack_alignment does not return")
            except Return as r:
                if not isinstance(r.v, int):
                    raise TranslateError("Environment::stack_alignment returned %r" % (r.v,))
                env_rows.append((arch, plat, r.v))
    if not re.search(r"environment_stack_alignment\s*=\s*_environment\.stack_alignment\(\)\s*;\s*if\s*\(\s*func_node->_func_detail\._call_conv\.natural_stack_alignment\(\)\s*<\s*"
                     r"environment_stack_alignment\s*\)\s*\{\s*func_node->_func_detail\._call_conv\.set_natural_stack_alignment\(environment_stack_alignment\)", compiler_cpp):
        raise TranslateError("the Compiler's natural-alignment override (compiler.cpp add_func_node) is not of the expected form")
    # constants
    m = re.search(r"uint64_t\(_call_stack_size\)\s*\+\s*uint64_t\(_local_stack_size\)\s*>\s*(0[xX][0-9a-fA-F]+|\d+)u?\s*\)\s*\{\s*return\s+make_error\(Error::(\w+)\)", func_cpp)
    if not m:
        raise TranslateError("size limit of FuncFrame::finalize not found")
    limit, limit_err = int(m.group(1), 0), errors[m.group(2)]
    m = re.search(r"is_family_aarch64\(arch\(\)\)\)\s*\{\s*if\s*\(has_da\s*\|\|\s*\(save_restore_reg_size\(RegGroup::kVec\)\s*>\s*(\d+)u?\s*&&\s*saved_regs\(RegGroup::kVec\)\s*!=\s*0u?\)\)\s*\{\s*return\s+make_error\(Error::(\w+)\)", strip_comments(func_cpp))
    if not m:
        raise TranslateError("AArch64 refusal of FuncFrame::finalize not found")
    a64_vec_max, a64_err = int(m.group(1)), errors[m.group(2)]
    imm = re.findall(r"if\s*\(adj\s*<=\s*(0[xX][0-9a-fA-F]+)u\)", a64emit)
    if len(imm) < 4 or len(set(imm[0::2])) != 1 or len(set(imm[1::2])) != 1:
        raise TranslateError("AArch64 sub/add sp immediates not found: %r" % (imm,))
    imm1, imm2 = int(imm[0], 0), int(imm[1], 0)
    m = re.search(r"min_dynamic_alignment\s*=\s*Support::max<uint32_t>\(natural_stack_alignment,\s*(\d+)\)", func_cpp)
    if not m:
        raise TranslateError("minimum dynamic alignment not found")
    mindyn = int(m.group(1))
    return coq_text(rows, limit, limit_err, a64_vec_max, a64_err, imm1, imm2, mindyn, env_rows)


def coq_text(rows, limit, limit_err, a64_vec_max, a64_err, imm1, imm2, mindyn, env_rows):
    q = lambda l: "(mkq %d %d %d %d)" % tuple(l)
    lines = []
    for (arch, plat, cid, cc) in rows:
        if cc is None:
            lines.append("  (%s, %d, %d, None)" % (arch, plat, cid))
        else:
            lines.append("  (%s, %d, %d, Some (mkcc %d %d %d %s %s %s %s))" % (arch, plat, cid, cc[0], cc[1], cc[2], "true" if cc[3] else "false",
                                                                           q(cc[4]), q(cc[5]), q(cc[6])))
    return """(* GENERATED by tools/c07_translate.py from the C++ SOURCE of the tree under test - do not edit.
   x86/a64 FuncInternal::init_call_conv interpreted for every (architecture, platform, convention id) + FuncFrame::init's removal of SP;
   constants of FuncFrame::finalize / FuncFrame::init / the AArch64 emitters / the Error enum.
   The theorems state that the MODEL (Frame/FrameModel.v) equals this data. *)
From Coq Require Import ZArith List Bool.
From Verif Require Import Frame.FrameModel.
Import ListNotations.
Local Open Scope Z_scope.

Definition src_frame_size_limit : Z := %d.
Definition src_err_too_large : Z := %d.
Definition src_a64_vec_save_max : Z := %d.
Definition src_err_a64_refusal : Z := %d.
Definition src_a64_imm_one : Z := %d.
Definition src_a64_imm_two : Z := %d.
Definition src_min_dynamic_floor : Z := %d.

(* (architecture, platform 0 Linux | 1 Windows | 2 macOS, CallConvId, what init_call_conv + FuncFrame::init produce; None = error) *)
Definition src_cc_table : list (arch * Z * Z * option callconv) := [
%s
].

Definition src_row_agrees (r : arch * Z * Z * option callconv) : Prop := let '(a, p, c, o) := r in cc_init a p c = o.

(* the model's calling conventions are exactly what the source says, for every row *)
Theorem src_cc_table_agrees : Forall src_row_agrees src_cc_table.
Proof. repeat (constructor; [vm_compute; reflexivity|]). constructor. Qed.

(* non-vacuity: the table covers at least 100 (architecture, platform, id) triples, with accepting and refusing rows *)
Theorem src_cc_table_nonvacuous :
  (length src_cc_table >= 100)%%nat /\\ (exists o, In (X64, 1, 33, Some o) src_cc_table) /\\ In (X86, 0, 32, None) src_cc_table.
Proof. split; [vm_compute; repeat constructor|]. split; [eexists|]; vm_compute; tauto. Qed.

(* Environment::stack_alignment() for every (architecture, platform): the Compiler raises the natural alignment of the convention to it *)
Definition src_env_stack_alignment : list (arch * Z * Z) := [
ENVROWS
].
Theorem src_env_stack_alignment_agrees : Forall (fun r => let '(a, p, v) := r in env_stack_alignment a p = v) src_env_stack_alignment.
Proof. repeat (constructor; [reflexivity|]). constructor. Qed.
(* ... so the Compiler's convention is the source's: natural alignment = max of the convention's and the environment's *)
Theorem src_compiler_cc_natural : forall a p cc, In a [X86; X64; A64] -> In p [0; 1; 2] ->
  exists v, In (a, p, v) src_env_stack_alignment /\\ cc_natural (compiler_cc a p cc) = Z.max (cc_natural cc) v.
Proof.
  intros a p cc Ha Hp. exists (env_stack_alignment a p). split.
  - destruct Ha as [<-|[<-|[<-|[]]]]; destruct Hp as [<-|[<-|[<-|[]]]]; vm_compute; tauto.
  - unfold compiler_cc, cc_with_natural. destruct (Z.ltb_spec (cc_natural cc) (env_stack_alignment a p)); cbn [cc_natural];
      [rewrite Z.max_r | rewrite Z.max_l]; auto; apply Z.lt_le_incl || idtac; auto.
Qed.

(* finalize_error: limit and both error codes; a64_realisable: the vector save width; a64_adjust: both immediates; FuncFrame::init *)
Theorem src_constants_agree :
  frame_size_limit = src_frame_size_limit /\\
  (forall f, frame_size_limit < fi_call_size f + fi_local_size f -> finalize_error f = src_err_too_large) /\\
  (forall f, fi_call_size f + fi_local_size f <= frame_size_limit -> fi_arch f = A64 -> a64_realisable f = false -> finalize_error f = src_err_a64_refusal) /\\
  (forall f, a64_realisable f = negb (fin_has_da f) && ((qget (cc_srsize (fi_cc f)) 1 <=? src_a64_vec_save_max) || (fin_saved f 1 =? 0))) /\\
  (forall sub, snd (a64_adjust sub src_a64_imm_one) = true /\\ length (fst (a64_adjust sub src_a64_imm_one)) = 1%%nat /\\
               length (fst (a64_adjust sub (src_a64_imm_one + 1))) = 2%%nat /\\
               snd (a64_adjust sub src_a64_imm_two) = true /\\ snd (a64_adjust sub (src_a64_imm_two + 1)) = false) /\\
  (forall n, min_dynamic_alignment n = let m := Z.max n src_min_dynamic_floor in if m =? n then 2 * m else m).
Proof.
  split; [reflexivity|]. split.
  { intros f H. unfold finalize_error. destruct (Z.ltb_spec frame_size_limit (fi_call_size f + fi_local_size f)) as [_|H']; [reflexivity|].
    exfalso. apply (Z.lt_irrefl (fi_call_size f + fi_local_size f)). eapply Z.le_lt_trans; eassumption. }
  split.
  { intros f H HA HR. unfold finalize_error. destruct (Z.ltb_spec frame_size_limit (fi_call_size f + fi_local_size f)) as [H'|_].
    - exfalso. apply (Z.lt_irrefl (fi_call_size f + fi_local_size f)). eapply Z.le_lt_trans; eassumption.
    - rewrite HA, HR. reflexivity. }
  split; [intros f; reflexivity|]. split; [intros sub; destruct sub; vm_compute; repeat split; reflexivity|].
  intros n. reflexivity.
Qed.
""".replace("ENVROWS", ";\n".join("  (%s, %d, %d)" % r for r in env_rows)) % (limit, limit_err, a64_vec_max, a64_err, imm1, imm2, mindyn, ";\n".join(lines))


if __name__ == "__main__":
    import sys
    sys.stdout.write(translate(sys.argv[1] if len(sys.argv) > 1 else "/repo"))

// C20: dumps the instruction forms of /repo/db/isa_x86.json (asmjit's own ISA database, read-only) as JSON lines for the
// generator of really-emitted instructions. usage: node c20_isa.js <repo>
const fs = require('fs');
const path = require('path');
const repo = process.argv[2] || '/repo';
const db = require(path.join(repo, 'db'));
const isa = new db.x86.ISA(JSON.parse(fs.readFileSync(path.join(repo, 'db', 'isa_x86.json'))));
for (const inst of isa.instructions) {
  const ops = inst.operands.map(o => ({reg: o.reg || '', mem: o.mem || '', memSize: o.memSize, imm: o.imm || 0, rel: o.rel || 0, implicit: !!o.implicit}));
  console.log(JSON.stringify({name: inst.name, arch: inst.arch, ops: ops, kmask: !!inst.kmask, zmask: !!inst.zmask, er: !!inst.er, sae: !!inst.sae,
                              broadcast: !!inst.broadcast, elementSize: inst.elementSize}));
}

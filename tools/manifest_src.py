"""Source of MANIFEST.json (run tools/mkmanifest.py after editing)."""
HOOKS = {
    "guard": "ASMJIT_VERIF",
    "enable": "checks compile /repo's working tree themselves (tools/vlib.py: g++ -std=c++17 -O1 -DNDEBUG -DASMJIT_STATIC -DASMJIT_VERIF -I/repo, static archive per sanitizer variant); "
              "the only hook is H1 (arena fault point, weak symbol asmjit_verif_fault) used by C15",
    "baseline_off_cmd": "cmake -G Ninja -S /repo -B /repo/_build -DASMJIT_TEST=ON -DCMAKE_BUILD_TYPE=RelWithDebInfo && cmake --build /repo/_build && ctest --test-dir /repo/_build -j8 --timeout 900",
    "source_commits": ["a9874c0"],
    "add_only": True,
}
NOTES = ("Single entry point ./check <Cxx> --tier quick|thorough [--replay f]. Every check rebuilds /repo's working tree, "
         "re-checks the Coq theorems of the property (full .vo), runs the correspondence between the extracted model and the "
         "implementation, and writes evidence/<Cxx>.json. known_findings.jsonl lists recorded defects. See DESIGN.md.")
NOT_CLAIMED = {}
PROOF_NOTE = ("Trusted: Coq 8.16.1 kernel (vm_compute, no native_compute), no axioms (Print Assumptions of every property theorem is recorded in the "
              "evidence), extraction via ExtrOcamlBasic + OCaml glue in ml/, the C++ harness and python generator/differ/oracle of the check. "
              "Theorems speak about the Gallina model; the model is tied to /repo by the correspondence run of this check (and generated tables where used).")
CHECKS = {
    "C17": {
        "category": "proof",
        "technique": "Coq theorems over a Gallina model of the codecs + differential correspondence (extracted OCaml model vs. real functions) + independent architectural oracle",
        "text": "Round-trip and refusal theorems for every offset (all 64-bit values, any bit count/shift/discard) of the contiguous signed/unsigned formats and ADR/ADRP, "
                "write_offset bit preservation, exhaustive-by-reflection completeness of logical immediates (both widths) and fp8 (both directions, every value), add/sub exactness, H:L:M; "
                "the model is run against CodeWriterUtils/arm::Utils/a64 helpers of the working tree on whole-field sweeps. Mov-wide sequences, A32/T32 formats and logical-immediate "
                "soundness are covered by correspondence + python architectural oracle only (stated partial in DESIGN.md).",
        "note": PROOF_NOTE,
    },
}

# per-property entries contributed as tools/manifest.d/Cxx.json: {"category","technique","text","note"(optional)}
import glob as _glob, json as _json, os as _os
for _p in sorted(_glob.glob(_os.path.join(_os.path.dirname(_os.path.abspath(__file__)), "manifest.d", "C*.json"))):
    _e = _json.load(open(_p))
    _e.setdefault("note", PROOF_NOTE)
    CHECKS[_os.path.basename(_p)[:-5]] = _e

"""Source of MANIFEST.json (run tools/mkmanifest.py after editing)."""
HOOKS = {
    "guard": "ASMJIT_VERIF",
    "enable": "checks compile /repo's working tree themselves (g++ -std=c++17 -O1 -DNDEBUG -DASMJIT_STATIC -DASMJIT_VERIF -I/repo); no hook is committed in /repo yet",
    "baseline_off_cmd": "cmake -G Ninja -S /repo -B /repo/_build -DASMJIT_TEST=ON && cmake --build /repo/_build && ctest --test-dir /repo/_build -j8 --timeout 900",
    "source_commits": [],
    "add_only": True,
}
NOTES = ("Single entry point ./check <Cxx> --tier quick|thorough [--replay f]. Every check rebuilds /repo's working tree, "
         "re-checks the Coq theorems of the property (full .vo), runs the correspondence between the extracted model and the "
         "implementation, and writes evidence/<Cxx>.json. known_findings.jsonl lists recorded defects. See DESIGN.md.")
NOT_CLAIMED = {}
CHECKS = {}

#!/bin/bash
# Coordinator tool: confirm a seeded change: applies patch in a scratch worktree, builds, runs the existing suite, runs the demo with/without.
# usage: tools/verify_seed.sh /work/seedout/C19-1   -> prints SUITE=pass|fail DEMO_WITH=<rc> DEMO_WITHOUT=<rc>
set -u
D=$1; N=$(basename $D); W=/tmp/vseed-$N
git -C /repo worktree remove --force $W 2>/dev/null; rm -rf $W
git -C /repo worktree add -q $W HEAD || exit 2
( cd $W && git apply $D/patch.diff ) || { echo "PATCH-DOES-NOT-APPLY"; git -C /repo worktree remove --force $W; exit 2; }
( cd $W && cmake -G Ninja -B _build -DASMJIT_TEST=ON -DCMAKE_BUILD_TYPE=RelWithDebInfo >/dev/null && nice cmake --build _build -j8 >/dev/null 2>&1 ) || { echo "BUILD-FAILED"; git -C /repo worktree remove --force $W; exit 2; }
if ( cd $W && nice ctest --test-dir _build -j6 --timeout 900 2>&1 | tail -3 | tee $D/ctest_tail.txt | grep -q "100% tests passed" ); then SUITE=pass; else SUITE=fail; fi
mkdir -p $W/_demo_with $W/_demo_without
( cd $W/_demo_with && bash $D/build_demo.sh $W >/dev/null 2>&1 && ./demo >/dev/null 2>&1 ); RW=$?
( cd $W/_demo_without && bash $D/build_demo.sh /repo >/dev/null 2>&1 && ./demo >/dev/null 2>&1 ); RO=$?
echo "SEED $N SUITE=$SUITE DEMO_WITH=$RW DEMO_WITHOUT=$RO"
git -C /repo worktree remove --force $W; rm -rf $W

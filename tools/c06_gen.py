"""C06 generators: signatures x conventions x environments (part A) and argument assignments (part B)."""
import itertools

INTS = [34, 35, 36, 37, 38, 39, 40, 41]
ABSTRACT = [32, 33]
FLOATS = [42, 43]
F80 = [44]
MASKS = [45, 46, 47, 48]
MMX = [49, 50]
VEC32 = [51, 52, 53, 54, 55, 56, 59]
VEC64 = list(range(61, 71))
VEC128 = list(range(71, 81))
VEC256 = list(range(81, 91))
VEC512 = list(range(91, 101))
ALL_VALID = INTS + ABSTRACT + FLOATS + F80 + MASKS + MMX + VEC32 + VEC64 + VEC128 + VEC256 + VEC512
WEIRD = [0, 1, 31, 57, 58, 60, 101, 200, 255]
# one representative per class (the 14 "type classes" of the exhaustive sweep)
CLASS_REPS = [34, 37, 38, 41, 42, 43, 44, 46, 50, 53, 66, 79, 85, 99]

# (arch, platform, abi): arch 0 x86, 1 x64, 2 aarch64; platform 0 linux 1 windows 2 macos; abi 0 gnu 1 msvc 2 darwin
ENVS = [(0, 0, 0), (0, 1, 1), (0, 1, 0), (1, 0, 0), (1, 1, 1), (1, 1, 0), (1, 0, 1), (1, 2, 2), (2, 0, 0), (2, 2, 2), (2, 1, 1)]
CCIDS = [0, 1, 2, 3, 4, 5, 6, 7, 16, 17, 18, 32, 33]
BAD_CCIDS = [8, 15, 19, 30, 31, 34, 99]


def type_class(t):
    if 32 <= t <= 41: return "int"
    if 42 <= t <= 43: return "float"
    if t == 44: return "f80"
    if 45 <= t <= 48: return "mask"
    if 49 <= t <= 50: return "mmx"
    if 51 <= t <= 60: return "vec32"
    if 61 <= t <= 70: return "vec64"
    if 71 <= t <= 80: return "vec128"
    if 81 <= t <= 90: return "vec256"
    if 91 <= t <= 100: return "vec512"
    return "other"


def fcmd(env, cc, va, ret, args):
    return "F %d %d %d %d %d %d %d %s" % (env[0], env[1], env[2], cc, va, ret, len(args), " ".join(map(str, args)))


def pick_type(rng, profile):
    r = rng.random()
    if profile == "int":
        return rng.choice(INTS) if r < 0.9 else rng.choice(ALL_VALID)
    if profile == "fp":
        return rng.choice(FLOATS) if r < 0.7 else rng.choice(VEC128 + VEC64 + INTS)
    if profile == "vec":
        return rng.choice(VEC128 + VEC256 + VEC512 + VEC64) if r < 0.7 else rng.choice(INTS + FLOATS)
    if profile == "abi":      # only types every ABI defines
        return rng.choice(INTS + FLOATS + VEC128 + VEC64) if r < 0.97 else rng.choice(ALL_VALID)
    if profile == "all":
        return rng.choice(ALL_VALID) if r < 0.97 else rng.choice(WEIRD)
    return rng.choice(INTS + FLOATS)


def gen_signatures(rng, tier):
    """yields F command lines"""
    out = []
    # 1. constants of every convention x environment (no arguments), valid and invalid ids
    for env in ENVS:
        for cc in CCIDS + BAD_CCIDS:
            out.append(fcmd(env, cc, 255, 0, []))
    # 2. every return type on every environment family
    for env in ENVS:
        for cc in (0, 2, 3, 16, 32, 33):
            for t in ALL_VALID + WEIRD:
                out.append(fcmd(env, cc, 255, t, [38]))
    # 3. exhaustive: all signatures of length <= L over the class representatives, main conventions
    L = 2 if tier == "quick" else 3
    main = [((1, 0, 0), 0), ((1, 1, 1), 0), ((1, 1, 1), 3), ((0, 0, 0), 0), ((0, 1, 1), 1), ((0, 1, 1), 2), ((0, 0, 0), 7), ((2, 0, 0), 0), ((2, 2, 2), 0),
            ((1, 0, 0), 17), ((0, 0, 0), 16)]
    for env, cc in main:
        for n in range(1, L + 1):
            for ts in itertools.product(CLASS_REPS, repeat=n):
                out.append(fcmd(env, cc, 255, 0, list(ts)))
    # 4. random, biased to the register exhaustion boundaries and to 16..32 arguments
    nrand = 12000 if tier == "quick" else 400000
    lens = [0, 1, 2, 3, 4, 5, 6, 7, 8, 9, 10, 12, 14, 15, 16, 17, 18, 20, 24, 28, 31, 32, 32]
    # (environment, convention) pairs that denote an ABI with a specification (theorem / oracle): most random signatures go there
    with_abi = [((1, 0, 0), 0), ((1, 0, 0), 32), ((1, 2, 2), 0), ((1, 1, 1), 0), ((1, 1, 1), 33), ((1, 1, 0), 1), ((1, 0, 0), 33), ((1, 1, 1), 32), ((1, 1, 1), 3),
                ((0, 0, 0), 0), ((0, 0, 0), 1), ((0, 1, 1), 2), ((0, 0, 0), 2), ((0, 1, 1), 4), ((0, 0, 0), 4), ((2, 0, 0), 0), ((2, 2, 2), 0), ((2, 0, 0), 2), ((2, 2, 2), 4)]
    for _ in range(nrand):
        if rng.random() < 0.6:
            env, cc = rng.choice(with_abi)
        else:
            env = rng.choice(ENVS)
            cc = rng.choice(CCIDS) if rng.random() < 0.97 else rng.choice(BAD_CCIDS)
        n = rng.choice(lens)
        profile = rng.choice(["int", "fp", "vec", "abi", "abi", "abi", "all", "mix"])
        args = [pick_type(rng, profile) for _ in range(n)]
        va = 255 if rng.random() < 0.8 else rng.randrange(0, n + 1)
        ret = 0 if rng.random() < 0.5 else pick_type(rng, "all")
        out.append(fcmd(env, cc, va, ret, args))
    # 5. Win64 / vectorcall: vectors at positions 16..31 (the out-of-bounds look-up of DESIGN 7.4) and at 0..5
    for _ in range(600 if tier == "quick" else 6000):
        env = rng.choice([(1, 1, 1), (1, 1, 0), (1, 0, 1)])
        cc = rng.choice([0, 33, 3])
        n = rng.randrange(17, 33)
        args = [rng.choice(INTS + FLOATS) for _ in range(n)]
        for _k in range(rng.randrange(1, 6)):
            args[rng.randrange(0, n)] = rng.choice(VEC128 + VEC256 + VEC64)
        out.append(fcmd(env, cc, 255, 0, args))
    # 6. too many arguments
    for env in ENVS[:4]:
        out.append(fcmd(env, 0, 255, 0, [38] * 32))
        out.append("F %d %d %d 0 255 0 33" % env)
        out.append("F %d %d %d 0 255 0 40" % env)
    return out

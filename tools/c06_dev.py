#!/usr/bin/env python3
"""developer helper: build harness + model driver through vlib and print their paths (used while developing C06)."""
import os, sys
sys.path.insert(0, os.path.dirname(os.path.abspath(__file__)))
import vlib
ck = vlib.Check("C06")
impl = ck.build_harness("c06", ["c06_harness.cpp"])
model = ck.ocaml_model("Extract_CallConv.v", ["zconv.ml", "c06_driver.ml"], name="c06")
print(impl)
print(model)

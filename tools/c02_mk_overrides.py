"""One-off helper (kept for reproducibility): writes corpus/C02/db_overrides.json — the explicit list of rows of
/repo/db/isa_aarch64.json that are defective (llvm-mc and a64::Assembler agree with each other and disagree with the row) together
with their corrected operand text / opcode bits (from the ARM ARM). Each entry is keyed by the exact row text, so a repaired
database row is simply no longer overridden."""
import json, os, re, sys
sys.path.insert(0, os.path.dirname(os.path.abspath(__file__)))
import c02_rows, vlib

rows = c02_rows.load_rows()
out = []

def add(r, why, ops=None, xor=None):
    o = {"inst": r["inst"], "op": r["opstr"], "key": "C02/db-row-defect/%s | %s" % (r["inst"], r["opstr"]), "why": why}
    if ops is not None:
        o["ops"] = ops
    if xor is not None:
        o["value"] = "0x%08X" % (r["value"] ^ xor)
    out.append(o)

seen = set()
for r in rows:
    if not (set(r["cat"]) & {"GP", "ASIMD"}):
        continue
    if "ASIMD" in r["cat"] and not (r["name"] in ("ldr", "str") and re.match(r"^\[Xn\|SP, #offS\*\d+\](@|!)$", r["ops"][-1])):
        continue
    k = (r["inst"], r["opstr"])
    if k in seen:
        continue
    n, ops, inst = r["name"], r["ops"], r["inst"]
    def rep(i, new):
        x = list(ops); x[i] = new; return x
    if n in ("adds", "subs") and len(ops) == 4 and ops[3] == "{lsl #n=0|12}" and "|" in ops[0]:
        add(r, "DB row `%s`: Rd of ADDS/SUBS (immediate) is Rd|ZR, not Rd|SP (ARM ARM C6.2; llvm-mc and AsmJit agree)" % inst, ops=rep(0, ops[0].split("|")[0]))
    elif n in ("and", "ands") and ops[-1] == "{sop #n}" and "|" in ops[0]:
        add(r, "DB row `%s`: Rd of AND/ANDS (shifted register) is Rd|ZR, not Rd|SP" % inst, ops=rep(0, ops[0].split("|")[0]))
    elif n == "ands" and ops[-1] == "#imm" and "|" in ops[0]:
        add(r, "DB row `%s`: Rd of ANDS (immediate) is Rd|ZR, not Rd|SP" % inst, ops=rep(0, ops[0].split("|")[0]))
    elif n == "cbz":
        add(r, "DB row `%s` carries the opcode of CBNZ (bit 24 must be 0)" % inst, xor=0x01000000)
    elif n == "ret" and ops == ["Xn"]:
        add(r, "DB row `%s` has opcode bits 1101010 0010 (must be 1101011 0010: RET is D65F0000|Rn<<5)" % inst, xor=0x02000000)
    elif n in ("cas", "casa", "casal", "casl"):
        add(r, "DB row `%s`: bit 23 of CAS must be 1 (the row encodes the LDXP/STXP space)" % inst, xor=0x00800000)
    elif n in ("ldr", "str", "ldrh", "strh", "ldrsh", "ldrsw") and re.match(r"^\[Xn\|SP, #offS\*\d+\](@|!)$", ops[-1]):
        add(r, "DB row `%s`: the pre/post-indexed immediate of LDR/STR is the unscaled simm9 (no *size scaling)" % inst, ops=rep(len(ops) - 1, re.sub(r"\*\d+", "", ops[-1])))
    elif n in ("ldursb", "ldursh", "ldtrsb", "ldtrsh") and ops[0] in ("Wd", "Xd"):
        add(r, "DB row `%s`: W and X destination rows are swapped (opc = 11 is the 32-bit variant, 10 the 64-bit one)" % inst, ops=rep(0, "Xd" if ops[0] == "Wd" else "Wd"))
    elif n == "ldaxrh" and ops[0] == "Xd":
        add(r, "DB row `%s`: LDAXRH loads into a W register" % inst, ops=rep(0, "Wd"))
    elif n in ("stlxrh", "stxrh") and ops[1] == "Xs":
        add(r, "DB row `%s`: the stored register of STXRH/STLXRH is a W register" % inst, ops=rep(1, "Ws"))
    elif n in ("addg", "subg") and ops[2] == "#imm1":
        add(r, "DB row `%s`: the first immediate of ADDG/SUBG is uimm6 * 16" % inst, ops=rep(2, "#imm1*16"))
    elif n == "ror" and ops == ["Xd", "Xn", "#n"]:
        add(r, "DB row `%s`: ROR (immediate) is EXTR Xd, Xn, Xn, #n = 10010011|110|..., the row has 111 (bit 21 must be 0)" % inst, xor=0x00200000)
    elif n == "prfm" and ops[-1] == "[Xn|SP, #offZ]":
        add(r, "DB row `%s`: the unsigned offset of PRFM (immediate) is scaled by 8 like LDR Xt" % inst, ops=rep(len(ops) - 1, "[Xn|SP, #offZ*8]"))
    elif n == "subps":
        add(r, "DB row `%s` carries the opcode of SUBP (SUBPS sets bit 29)" % inst, xor=0x20000000)
    elif n in ("ldset", "ldseta", "ldsetal", "ldsetl") and ops[0] == "Xs" and ops[1] == "Wd":
        add(r, "DB row `%s`: the 64-bit LDSET loads into an X register" % inst, ops=rep(1, "Xd"))
    else:
        continue
    seen.add(k)
os.makedirs(os.path.join(vlib.VERIF, "corpus", "C02"), exist_ok=True)
json.dump(out, open(os.path.join(vlib.VERIF, "corpus", "C02", "db_overrides.json"), "w"), indent=1)
print(len(out), "overrides")

"""C01 translator, stage 2: rows of the expanded ISA database (tools/c01_isa.js output) -> Coq records (coq/gen/IsaX86Db.v)
and python dictionaries for the call generator.  A row the Coq decoder does not support yet is NOT dropped silently:
it gets `unsupported = <reason>` and is counted/named in the evidence."""
import json
import os
import re
import vlib

CLS = {"r8": 1, "r16": 2, "r32": 3, "r64": 4, "mm": 5, "xmm": 6, "ymm": 7, "zmm": 8, "k": 9, "sreg": 10, "creg": 11,
       "dreg": 12, "st": 13, "bnd": 14, "tmm": 15, "r8hi": 16}
TT = {"": 0, "none": 0, "fv": 1, "hv": 2, "fvm": 3, "t1s": 4, "t1f": 5, "t2": 6, "t4": 7, "t8": 8, "hvm": 9, "qvm": 10,
      "ovm": 11, "m128": 12, "movddup": 13, "qv": 14, "fm": 15, "t1": 16}
LEG_MAP = {"": 0, "0F": 1, "0F38": 2, "0F3A": 3}
VEX_MAP = {"0F": 1, "0F38": 2, "0F3A": 3, "MAP5": 5, "MAP6": 6, "MAP7": 7, "MAP8": 8, "MAP9": 9, "MAPA": 10}
IMM_TOK = {"ib": 1, "iw": 2, "id": 4, "iq": 8}


def load_rows(repo):
    rc, out, err = vlib.sh(["node", os.path.join(vlib.VERIF, "tools", "c01_isa.js"), repo], timeout=120)
    if rc != 0:
        raise RuntimeError("c01_isa.js failed: %s" % err[-2000:])
    return json.loads(out)


def classify(j, idx, name_ids):
    """Returns a dict row (with 'unsupported' = reason or None)."""
    r = {"id": idx, "name": j["name"], "name_id": name_ids[j["name"]], "src": j, "unsupported": None, "repaired": None}

    def bad(why):
        r["unsupported"] = why
        return r
    if j["apx"]:
        return bad("apx (not implemented by the pinned assembler)")
    pfx = j["prefix"]
    suffix = -1
    if pfx == "3DNOW":
        # 0F 0F /r xx: db/x86.js keeps xx as opcode.byte; structurally the opcode is 0F (map 0F) and xx a trailing byte
        j = dict(j)
        suffix = int(j["byte"], 16)
        j["byte"] = "0F"; j["prefix"] = ""; j["mm"] = "0F"
        pfx = ""
    if pfx not in ("", "VEX", "XOP", "EVEX"):
        return bad("prefix " + pfx)
    kind = {"": 0, "VEX": 1, "XOP": 2, "EVEX": 3}[pfx]
    mm = j["mm"]
    byte_modrm = None
    toks0 = j["opcodeString"].split()
    wait_form = False
    if kind == 0 and toks0 == ["9B"]:
        # fwait itself: db/x86.js reads the lone byte as a prefix
        j = dict(j); j["pp"] = ""; j["byte"] = "9B"; j["mm"] = ""
        mm = ""
    elif kind == 0 and toks0 and toks0[0] == "9B":
        # x87 wait form: FWAIT (9B) followed by the no-wait form; translated as a row of the separate wait buckets (X86Denote.denote2)
        toks0 = toks0[1:]
        j = dict(j); j["opcodeString"] = " ".join(toks0); j["pp"] = ""
        wait_form = True
    if kind == 0 and toks0 and re.fullmatch(r"D[89A-F]", toks0[0]) and len(toks0) >= 2:
        # x87: escape opcode D8..DF followed by /digit (memory form) or by a fixed ModRM byte C0..FF (+i = st(i) in ModRM.rm).
        # db/x86.js stores the escape byte in opcode.mm and mis-reads bytes such as F3 as a mandatory prefix: re-parse the string.
        j = dict(j)
        j["mm"] = ""; j["byte"] = toks0[0]; j["pp"] = ""; j["ri"] = False
        t1 = toks0[1]
        m1 = re.fullmatch(r"([0-9A-F]{2})(\+i)?", t1)
        if re.fullmatch(r"/[0-7]", t1):
            j["mod"] = "xx"; j["modr"] = t1[1]; j["modrm"] = ""
        elif m1 and int(m1.group(1), 16) >= 0xC0:
            b = int(m1.group(1), 16)
            j["mod"] = "11"; j["modr"] = str((b >> 3) & 7); j["modrm"] = "" if m1.group(2) else str(b & 7)
            byte_modrm = b
        else:
            return bad("x87 (unparsed opcode string)")
        if len(toks0) > 2:
            return bad("x87 (unparsed opcode string)")
        mm = ""
    if kind == 0 and mm == "0F01" and j["byte"] and not (j["mod"] or j["modr"] or j["modrm"]):
        # "0F 01 XX": opcode 0F 01 with a completely fixed ModRM byte XX (mod = 11)
        b = int(j["byte"], 16)
        if b < 0xC0:
            return bad("0F 01 with a non-register ModRM byte")
        byte_modrm = b
        j = dict(j); j["mm"] = "0F"; j["byte"] = "01"; j["mod"] = "11"; j["modr"] = str((b >> 3) & 7); j["modrm"] = str(b & 7)
        mm = "0F"
    if kind == 0:
        if mm not in LEG_MAP:
            return bad("x87 (escape opcode D8..DF)" if re.match(r"^D[89A-F]$", mm) else "map " + mm)
        mp = LEG_MAP[mm]
    else:
        if mm not in VEX_MAP:
            return bad("map " + mm)
        mp = VEX_MAP[mm]
    if j["pp"] == "9B":
        return bad("x87 (9B prefix)")
    if not j["byte"]:
        return bad("no opcode byte")
    opc = int(j["byte"], 16)
    if kind == 0:
        # "0F AE F8": db/x86.js keeps the LAST hex byte as opcode.byte and decodes it as a fixed ModRM byte; the opcode is the one before
        hx = [t for t in j["opcodeString"].split() if re.fullmatch(r"[0-9A-Fa-f]{2}", t)]
        if (len(hx) >= 2 and j["mod"] == "11" and j["modr"] not in ("", "r") and j["modrm"] not in ("", "b")
                and int(hx[-1], 16) == opc == (0xC0 | int(j["modr"]) << 3 | int(j["modrm"])) and byte_modrm is None):
            opc = int(hx[-2], 16)
        if mp == 0 and 0xD8 <= opc <= 0xDF and not re.fullmatch(r"D[89A-F]", toks0[0] if toks0 else ""):
            return bad("x87 (escape opcode D8..DF)")
    moffs = bool(j["moff"] or any(o["memOff"] for o in j["ops"]))
    # far pointers in memory (m16:16 / m16:32 / m16:64) are ordinary memory operands of 4 / 6 / 10 bytes
    FIXBASE = {"zax": 0, "zcx": 1, "zdx": 2, "zbx": 3, "zsi": 6, "zdi": 7, "rax": 0, "rcx": 1, "rdx": 2, "rbx": 3, "rsi": 6, "rdi": 7}
    far_imm = j["name"] in ("lcall", "ljmp") and len([o for o in j["ops"] if o["imm"]]) == 2
    if j["tsib"]:
        # AMX tile memory ("sibmem"): ModRM.rm is always 100 (a SIB byte is always present); translated as an ordinary memory
        # operand -- that a SIB byte is present is not modelled (llvm-mc rejects the SIB-less encodings)
        j = dict(j); j["modrm"] = ""; j["mod"] = "!(11)"
    # prefixes / sizes
    if kind == 0:
        pp = {"": 0, "NP": 1, "66": 2, "F3": 3, "F2": 4, "66F2": 5}.get(j["pp"])
        if pp is None:
            return bad("pp " + j["pp"])
        o16 = (j["gp"] == "rv" and j["gi"] == 0)
        w = 1 if (j["w"] == "W1" or (j["gp"] == "rv" and j["gi"] == 2) or (j["gp"] == "ry" and j["gi"] == 1)) else 0
        ll = 0
    else:
        pp = {"": 0, "NP": 0, "66": 1, "F3": 2, "F2": 3}.get(j["pp"])
        if pp is None:
            return bad("pp " + j["pp"])
        o16 = False
        w = {"W0": 0, "W1": 1, "WIG": 2, "": 0}[j["w"]]
        l = j["l"]
        if l in ("xyz", "xy"):
            ll = j["gi"]
        else:
            ll = {"128": 0, "256": 1, "512": 2, "LIG": 3, "": 0}[l]
    # immediates (in byte order)
    imm_fields = []
    is4 = False
    for tok in j["opcodeString"].split():
        if tok == "iv":
            tok = ["iw", "id", "id"][j["gi"]] if j["gp"] == "rv" else "id"
        if tok in IMM_TOK:
            imm_fields.append(IMM_TOK[tok])
        elif tok == "/is4":
            imm_fields.append(1)
            is4 = True
        elif tok in ("cb", "cw", "cd"):
            imm_fields.append({"cb": 1, "cw": 2, "cd": 4}[tok])
        elif tok in ("if",):
            return bad("far immediate")
    # modrm
    enc = j["encoding"].replace("_", "")
    letters_have_modrm = enc not in ("NONE", "OP") and any(c in enc for c in "RM")
    has_modrm = bool(j["mod"] or j["modr"] or j["modrm"]) or letters_have_modrm
    mod = {"": 0, "xx": 0, "11": 1, "!(11)": 2}[j["mod"]]
    digit = int(j["modr"]) if j["modr"] not in ("", "r") else -1
    rmfix = int(j["modrm"]) if j["modrm"] not in ("", "b") else -1
    # operands
    ops = []
    free = []
    rm_reg_form = False
    vsib = 0
    msz = 0
    bcst = 0
    for k, o in enumerate(j["ops"]):
        d = {"kind": None, "cls": 0, "fixed": -1, "slot": 0, "msz": 0, "immoff": 0, "immsz": 0, "immval": -1,
             "implicit": o["implicit"], "data": o["data"], "immsign": o["immSign"], "immbits": o["imm"]}
        if o["rel"]:
            d["kind"] = 3
            d["slot"] = 10
            d["immsz"] = o["rel"] // 8
        elif o["imm"]:
            d["kind"] = 3
            if o["immValue"] >= 0:
                d["immval"] = o["immValue"]
            else:
                d["slot"] = 6
        elif o["reg"] or o["mem"]:
            if o["reg"] and o["regType"] not in CLS:
                return bad("register type " + o["regType"])
            if o["reg"]:
                d["cls"] = CLS[o["regType"]]
            d["kind"] = 2 if (o["reg"] and o["mem"]) else (0 if o["reg"] else 1)
            if o["fixed"] == -2:
                return bad("fixed register " + o["reg"])
            if o["fixed"] >= 0:
                if o["mem"]:
                    return bad("fixed register or memory")
                d["fixed"] = o["fixed"]
            else:
                if not o["memOff"]:
                    free.append(k)
            if o["memOff"]:
                d["slot"] = 8
            if o["regIndexRel"]:
                d["slot"] = 12                      # k+1: the register after the one in ModRM.reg
                if free and free[-1] == k:
                    free.pop()
            if o["memSegment"] and o["memRegOnly"] not in FIXBASE and j["name"] == "umonitor":
                d["slot"] = 13                      # addressed by the register in ModRM.rm of the register form
                rm_reg_form = True
                if free and free[-1] == k:
                    free.pop()
            elif o["memSegment"] and o["memRegOnly"] not in FIXBASE:
                d["slot"] = 11                      # addressed by the register in ModRM.reg
                if free and free[-1] == k:
                    free.pop()
            elif o["memSegment"]:
                d["slot"] = 9
                d["fixed"] = FIXBASE[o["memRegOnly"]]
                d["immval"] = 1 if o["memSegment"] == "ds" else 0
                if free and free[-1] == k:
                    free.pop()
            if o["mem"]:
                if o["implicit"] and not o["memSegment"]:
                    return bad("implicit memory operand")
                d["msz"] = max(o["memSize"], 0) // 8
                msz = d["msz"]
                if o["vsibReg"]:
                    vsib = CLS[o["vsibReg"]]
                if o["bcstSize"] and o["bcstSize"] > 0:
                    bcst = o["bcstSize"] // 8
        else:
            return bad("operand " + o["data"])
        ops.append(d)
    # slots
    if enc in ("NONE", "OP"):
        if j["ri"]:
            letters = "O" if free else ""
        elif has_modrm:
            letters = "M" * len(free) if len(free) <= 1 else None
        else:
            letters = ""
        if letters is None:
            return bad("encoding %s with %d free operands" % (enc, len(free)))
    else:
        letters = enc
        if letters == "R" and digit >= 0:
            letters = "M"
    if rm_reg_form:
        mod = 1
        letters = letters.replace("M", "", 1)
    if any(d["slot"] == 11 for d in ops):
        letters = letters.replace("R", "", 1)      # the register-addressed memory operand occupies ModRM.reg
    if j["ri"] and "O" not in letters:
        return bad("opcode+r without a register operand")
    # rows whose `encoding` field contradicts their own operand list (database defects, named in the evidence): the slots are
    # REPAIRED from the operand shapes -- the only reading the ISA admits for that operand count -- and the row is marked
    repaired = None
    kinds = [ops[k]["kind"] for k in free]
    if len(letters) != len(free) and enc not in ("NONE", "OP") and kind in (1, 3):
        if len(free) == 2 and kinds[0] == 0:
            repaired, letters = letters, "RM"
        elif len(free) == 2 and kinds[1] == 0:
            repaired, letters = letters, "MR"
        elif len(free) == 3 and kinds[0] == 0 and kinds[1] == 0:
            repaired, letters = letters, "RVM"
    elif len(letters) == 2 == len(free) and set(letters) == {"R", "M"} and kinds[letters.index("R")] == 1 and kinds[letters.index("M")] == 0:
        repaired, letters = letters, letters[::-1]       # [RM] written for a store (memory, register) or [MR] for a load
    if len(letters) != len(free):
        return bad("encoding letters %s do not match %d free operands" % (letters, len(free)))
    r["repaired"] = repaired
    SL = {"R": 1, "M": 2, "V": 3, "S": 4, "O": 5}
    for c, k in zip(letters, free):
        if c not in SL:
            return bad("encoding letter " + c)
        ops[k]["slot"] = SL[c]
        if c in "RVSO" and ops[k]["kind"] != 0:
            return bad("memory operand in a register-only slot")
    if len(set(letters)) != len(letters):
        return bad("duplicate slot")
    if ("S" in letters) != is4 and ("S" in letters):
        return bad("is4 slot without /is4")
    # immediate operands <-> immediate bytes
    immops = [d for d in ops if d["slot"] in (6, 10)]
    if far_imm:
        immops = immops[::-1]          # ptr16:16/32 -- the offset bytes come first, the selector last
    fields = list(imm_fields)
    off = 0
    if is4:
        # the is4 byte is the last immediate byte; an imm4 operand lives in its low nibble
        for d in immops:
            if d["immbits"] == 4:
                d["slot"] = 7
        immops = [d for d in immops if d["slot"] == 6]
        if immops:
            return bad("is4 with a further immediate")
    else:
        if len(immops) != len(fields):
            return bad("immediate operands (%d) do not match immediate bytes %s" % (len(immops), fields))
        for d, f in zip(immops, fields):
            if d["slot"] == 10:
                if d["immsz"] != f:
                    return bad("rel operand size does not match the displacement bytes")
                d["immoff"] = off
                off += f
                continue
            if d["immbits"] != 8 * f:
                return bad("immediate operand of %d bits in a %d-byte field" % (d["immbits"], f))
            d["immoff"] = off
            d["immsz"] = f
            off += f
    if (has_modrm and not j["ri"]) is False and any(d["slot"] in (1, 2) for d in ops):
        return bad("ModRM slot without ModRM byte")
    if has_modrm and j["ri"]:
        return bad("opcode+r with ModRM")
    if j["tt"] not in TT:
        return bad("tuple type " + j["tt"])
    if TT[j["tt"]] == 4 and msz > 8:
        # tuple1-scalar with a vector-sized memory operand (compress / expand family): N is the ELEMENT size, which the database
        # does not state; it is taken from the mnemonic suffix (b w d q / ps pd)
        nm = j["name"]
        msz = 8 if nm.endswith(("q", "pd")) else 4 if nm.endswith(("d", "ps")) else 2 if nm.endswith("w") else 1 if nm.endswith("b") else msz
    if suffix >= 0:
        if imm_fields:
            return bad("3dnow with immediate")
        imm_fields = [1]
    r.update({"arch": {"ANY": 0, "X86": 1, "X64": 2}[j["arch"]], "kind": kind, "map": mp, "opc": opc, "ri": j["ri"],
              "pp": pp, "o16": o16, "w": w, "l": ll, "modrm": has_modrm, "mod": mod, "digit": digit, "rmfix": rmfix,
              "imm": sum(imm_fields), "moffs": moffs, "suffix": suffix, "f23": bool(set(j["prefixes"]) & {"rep", "repne", "xacquire", "xrelease", "bnd", "repIgnore", "lock", "ilock"}), "a67": bool(j["h67"]), "tt": TT[j["tt"]], "msz": msz, "bcst": bcst if j["bcst"] else 0,
              "k": j["k"], "z": j["z"], "er": j["er"], "sae": j["sae"], "vsib": vsib, "ops": ops, "wait": wait_form})
    return r


def build(repo):
    raw = load_rows(repo)
    names = sorted(set(j["name"] for j in raw))
    name_ids = {n: i for i, n in enumerate(names)}
    rows = [classify(j, i, name_ids) for i, j in enumerate(raw)]
    return rows, names


def zb(b):
    return "true" if b else "false"


def zz(v):
    return "(%d)" % v if v < 0 else "%d" % v


def coq_examples(names):
    """Concrete witnesses evaluated by the kernel on the regenerated database (vm_compute): accepted encodings the judge
    maps back to their call, and the encodings of the defects found in the pinned tree, which it does not."""
    nid = {n: i for i, n in enumerate(names)}
    if not all(n in nid for n in ("add", "vaddps", "mov", "vpabsq", "lods")):
        return ""
    d0 = "(mkD false false false 0 0 false (-1))"
    out = ["(* ---- witnesses (re-evaluated on every regeneration) *)"]
    for n in ("add", "vaddps", "mov", "vpabsq", "lods"):
        out.append("Definition id_%s : Z := %d." % (n, nid[n]))
    nid = {n: "id_" + n for n in ("add", "vaddps", "mov", "vpabsq", "lods")}
    out.append("Lemma ex_add_rax_rcx : fst (judge bucket wbucket row_of M64 %s [OReg 4 0; OReg 4 1] %s [72; 1; 200]) = 0.\nProof. vm_compute. reflexivity. Qed.\n" % (nid["add"], d0))
    out.append("Lemma ex_vaddps_k1_zmm18 : fst (judge bucket wbucket row_of M64 %s [OReg 8 1; OReg 8 18; OReg 8 3] (mkD false false false 0 1 false (-1)) [98; 241; 108; 65; 88; 203]) = 0.\nProof. vm_compute. reflexivity. Qed.\n" % nid["vaddps"])
    out.append("Lemma ex_mov_ecx_bp_fixed : fst (judge bucket wbucket row_of M32 %s [OReg 3 1; OMem 4 0 2 5 0 0 0 0 0] %s [103; 139; 78; 0]) = 0.\nProof. vm_compute. reflexivity. Qed.\n" % (nid["mov"], d0))
    out.append("(* DESIGN 7.17: the pinned assembler emitted 67 8B 0E for mov ecx,[bp]: no denotation on its own, and followed by\n   further bytes it denotes mov ecx,[disp16] and swallows two of them *)")
    out.append("Lemma ex_mov_ecx_bp_pinned_refuted : denote bucket M32 [103; 139; 14] = [] /\\\n  fst (judge bucket wbucket row_of M32 %s [OReg 3 1; OMem 4 0 2 5 0 0 0 0 0] %s [103; 139; 14; 144; 144]) = 2.\nProof. vm_compute. auto. Qed.\n" % (nid["mov"], d0))
    out.append("(* DESIGN 7.2: {k9} spilled into EVEX.V': the bytes denote vaddps zmm1{k1},zmm18,zmm3, not the call zmm1{k9},zmm2,zmm3 *)")
    out.append("Lemma ex_vaddps_k9_refuted : fst (judge bucket wbucket row_of M64 %s [OReg 8 1; OReg 8 2; OReg 8 3] (mkD false false false 0 9 false (-1)) [98; 241; 108; 65; 88; 203]) = 2.\nProof. vm_compute. reflexivity. Qed.\n" % nid["vaddps"])
    out.append("(* finding: EVEX + 16-bit addressing: the emitted disp8 = 1 of vpabsq xmm0,[bx+si+1] denotes +16 (disp8*N) *)")
    out.append("Lemma ex_evex_a16_disp8_refuted :\n  fst (judge bucket wbucket row_of M32 %s [OReg 6 0; OMem 16 0 2 3 2 6 0 1 0] %s [103; 98; 242; 253; 8; 31; 64; 1]) = 2 /\\\n  fst (judge bucket wbucket row_of M32 %s [OReg 6 0; OMem 16 0 2 3 2 6 0 16 0] %s [103; 98; 242; 253; 8; 31; 64; 1]) = 0.\nProof. vm_compute. auto. Qed.\n" % (nid["vpabsq"], d0, nid["vpabsq"], d0))
    out.append("(* REX emitted before the segment / address-size overrides is not a prefix of the opcode any more: 48 36 67 AD has no\n   denotation (a CPU ignores the REX: lodsd); the repaired order 36 67 48 AD is lods rax, ss:[esi] *)")
    out.append("Lemma ex_rex_order_refuted : denote bucket M64 [72; 54; 103; 173] = [] /\\\n  fst (judge bucket wbucket row_of M64 %s [OReg 4 0; OMem 8 3 3 6 0 0 0 0 0] %s [54; 103; 72; 173]) = 0.\nProof. vm_compute. auto. Qed.\n" % (nid["lods"], d0))
    out.append("(* mov [0x1000], ah took the moffs shortcut of AL: A2 00 10 00 00 is mov [0x1000], al *)")
    out.append("Lemma ex_mov_ah_moffs_refuted :\n  fst (judge bucket wbucket row_of M32 %s [OMem 1 0 0 0 0 0 0 4096 0; OReg 16 0] %s [162; 0; 16; 0; 0]) = 2 /\\\n  fst (judge bucket wbucket row_of M32 %s [OMem 1 0 0 0 0 0 0 4096 0; OReg 1 0] %s [162; 0; 16; 0; 0]) = 0.\nProof. vm_compute. auto. Qed.\n" % (nid["mov"], d0, nid["mov"], d0))
    out.append("(* frame: the reading of 48 01 C8 is unchanged by whatever follows it in the buffer (also by bytes that are prefixes, VEX lead bytes or FWAIT) *)")
    out.append("Lemma ex_frame_add : map (fun c => match c with (rid, _, _, len) => (rid, len) end) (denote2 bucket wbucket M64 [72; 1; 200]) =\n"
               "  map (fun c => match c with (rid, _, _, len) => (rid, len) end) (denote2 bucket wbucket M64 [72; 1; 200; 196; 98; 155; 240; 102]) /\\\n"
               "  length (denote2 bucket wbucket M64 [72; 1; 200]) = 1%nat.\nProof. vm_compute. split; reflexivity. Qed.\n")
    if "fstsw" in names:
        out.append("Definition id_fstsw : Z := %d." % names.index("fstsw"))
        out.append("(* x87 wait forms: fstsw [eax] = 9B DD 38 (FWAIT + fnstsw); a segment override belongs AFTER the 9B (before it, it is FWAIT's) *)")
        out.append("Lemma ex_fstsw_wait : fst (judge bucket wbucket row_of M32 id_fstsw [OMem 2 0 3 0 0 0 0 0 0] %s [155; 221; 56]) = 0.\nProof. vm_compute. reflexivity. Qed.\n" % d0)
        out.append("Lemma ex_fstsw_wait_prefix_order :\n  fst (judge bucket wbucket row_of M32 id_fstsw [OMem 2 1 3 0 0 0 0 0 0] %s [38; 155; 221; 56]) = 2 /\\\n"
                   "  fst (judge bucket wbucket row_of M32 id_fstsw [OMem 2 1 3 0 0 0 0 0 0] %s [155; 38; 221; 56]) = 0.\nProof. vm_compute. split; reflexivity. Qed.\n" % (d0, d0))
    if "fwait" in names:
        out.append("Definition id_fwait : Z := %d." % names.index("fwait"))
        out.append("(* the one-instruction reading of bytes that start with 9B is FWAIT alone, one byte long (X86JudgeProofs.denote_9b_is_bucket_9b) *)")
        out.append("Lemma ex_fwait_alone : map (fun c => match c with (_, _, _, len) => len end) (denote2 bucket wbucket M32 [155]) = [1%nat] /\\\n  map (fun c => match c with (_, _, _, len) => len end) (denote2 bucket wbucket M32 [155; 221; 56]) = [1%nat; 3%nat].\nProof. vm_compute. split; reflexivity. Qed.\n")
        out.append("Lemma db_bucket_9b : forallb (fun r => negb ((r_map r =? 0) && (r_kind r =? 0)) || ((r_name r =? id_fwait) && plain_op_row r)) (bucket 155) = true.\nProof. vm_cast_no_check (eq_refl true). Qed.\n")
    return "\n".join(out)


def coq_text(rows, names=None):
    sup = [r for r in rows if not r["unsupported"]]
    out = []
    out.append("(* GENERATED by tools/c01_db.py from db/isa_x86.json (expanded by the repository's db/index.js). Do not edit.\n"
               "   %d expanded forms, %d supported by the structural decoder (the others are counted in the evidence). *)" % (len(rows), len(sup)))
    out.append("From Coq Require Import ZArith List Bool.\nFrom Verif Require Import X86.X86Model X86.X86Denote X86.X86DbCheck X86.X86Unique X86.X86UniqueProofs X86.X86JudgeProofs X86.X86FrameProofs.\nImport ListNotations.\nLocal Open Scope Z_scope.\n")
    for r in sup:
        ops = "; ".join("mkO %d %d %s %d %d %d %d %s %s %s" % (d["kind"], d["cls"], zz(d["fixed"]), d["slot"], d["msz"], d["immoff"],
                                                             d["immsz"], zz(d["immval"]), zb(d["immsign"] == "signed"), zb(d["implicit"])) for d in r["ops"])
        out.append("Definition r%d : row := mkRow %d %d %d %d %d %d %s %d %s %d %d %s %d %s %s %d %s %s %s %s %d %d %d %s %s %s %s %d [%s]." % (
            r["id"], r["id"], r["name_id"], r["arch"], r["kind"], r["map"], r["opc"], zb(r["ri"]), r["pp"], zb(r["o16"]), r["w"], r["l"],
            zb(r["modrm"]), r["mod"], zz(r["digit"]), zz(r["rmfix"]), r["imm"], zb(r["moffs"]), zz(r["suffix"]), zb(r["f23"]), zb(r["a67"]), r["tt"], r["msz"], r["bcst"],
            zb(r["k"]), zb(r["z"]), zb(r["er"]), zb(r["sae"]), r["vsib"], ops))
    out.append("")
    allsup = sup
    wait = [r for r in sup if r.get("wait")]
    sup = [r for r in sup if not r.get("wait")]
    out.append("Definition db_rows : list row := [%s]." % "; ".join("r%d" % r["id"] for r in sup))
    out.append("(* the x87 wait forms (9B + no-wait form): rows of the separate wait buckets, indexed by the opcode after the 9B *)")
    out.append("Definition db_wait_rows : list row := [%s]." % "; ".join("r%d" % r["id"] for r in wait))
    wb = {}
    for r in wait:
        wb.setdefault(r["opc"], []).append(r["id"])
    out.append("Definition wbucket_raw (opc : Z) : list row :=\n  match opc with")
    for o in sorted(wb):
        out.append("  | %d => [%s]" % (o, "; ".join("r%d" % i for i in wb[o])))
    out.append("  | _ => []\n  end.\n")
    out.append("Definition wbucket (opc : Z) : list row := if zin 0 opc 256 then wbucket_raw opc else [].\n")
    buckets = {}
    for r in sup:
        lo = r["opc"] & ~7 if r["ri"] else r["opc"]
        for o in (range(lo, lo + 8) if r["ri"] else [lo]):
            buckets.setdefault(o, []).append(r["id"])
    out.append("Definition bucket_raw (opc : Z) : list row :=\n  match opc with")
    for o in sorted(buckets):
        out.append("  | %d => [%s]" % (o, "; ".join("r%d" % i for i in buckets[o])))
    out.append("  | _ => []\n  end.\n")
    out.append("Definition bucket (opc : Z) : list row := if zin 0 opc 256 then bucket_raw opc else [].\n")
    # row lookup by id: binary search tree keyed on id to keep lookups logarithmic
    ids = [r["id"] for r in allsup]

    def tree(lo, hi, ind):
        if lo >= hi:
            return "None"
        mid = (lo + hi) // 2
        i = ids[mid]
        return "(if i =? %d then Some r%d else if i <? %d then\n%s%s else\n%s%s)" % (
            i, i, i, ind, tree(lo, mid, ind + " "), ind, tree(mid + 1, hi, ind + " "))
    out.append("Definition row_of (i : Z) : option row :=\n %s." % tree(0, len(ids), "  "))
    out.append("")
    out.append("(* well-formedness of the database, checked by the kernel on every regeneration *)")
    out.append("Lemma db_wf : forallb row_wf db_rows = true.\nProof. vm_cast_no_check (eq_refl true). Qed.\n")
    out.append("Lemma db_bucket_ok : forallb (fun r => existsb (fun r' => r_id r' =? r_id r) (bucket (r_opc r))) db_rows = true.\nProof. vm_cast_no_check (eq_refl true). Qed.\n")
    out.append("Lemma db_row_of_ok : forallb (fun r => match row_of (r_id r) with Some r' => r_id r' =? r_id r | None => false end) db_rows = true.\nProof. vm_cast_no_check (eq_refl true). Qed.\n")
    out.append("Lemma db_bucket_sound : forallb (fun o => forallb (fun r => bucket_row_ok o r) (bucket o)) (zrange256) = true.\nProof. vm_cast_no_check (eq_refl true). Qed.\n")
    out.append("Lemma db_wait_wf : forallb row_wf db_wait_rows = true.\nProof. vm_cast_no_check (eq_refl true). Qed.\n")
    out.append("Lemma db_wait_bucket_ok : forallb (fun r => existsb (fun r' => r_id r' =? r_id r) (wbucket (r_opc r))) db_wait_rows = true.\nProof. vm_cast_no_check (eq_refl true). Qed.\n")
    out.append("Lemma db_wait_row_of_ok : forallb (fun r => match row_of (r_id r) with Some r' => r_id r' =? r_id r | None => false end) db_wait_rows = true.\nProof. vm_cast_no_check (eq_refl true). Qed.\n")
    out.append("Lemma db_wait_bucket_sound : forallb (fun o => forallb (fun r => bucket_row_ok o r && existsb (fun r' => r_id r' =? r_id r) db_wait_rows) (wbucket o)) (zrange256) = true.\nProof. vm_cast_no_check (eq_refl true). Qed.\n")
    out.append("(* frame: every legacy map-0 row with opcode C4 / C5 / 62 / 8F consumes a ModRM byte or an immediate, so no reading depends on a byte it does not consume (X86FrameProofs.denote2_frame_all) *)")
    out.append("Lemma db_lookahead_safe : lookahead_safe bucket && lookahead_safe wbucket = true.\nProof. vm_cast_no_check (eq_refl true). Qed.\n")
    out.append("Definition db_count : Z := %d.\nLemma db_count_ok : Z.of_nat (length db_rows) = db_count.\nProof. vm_compute. reflexivity. Qed.\n" % len(sup))
    if names:
        nid = {n: i for i, n in enumerate(names)}
        pairs = []
        for fn in ("C01_db_alias.txt", "C01_db_ambiguous.txt"):
            pth = os.path.join(vlib.VERIF, "corpus", fn)
            if os.path.exists(pth):
                for l in open(pth):
                    l = l.split("#")[0].split()
                    if len(l) == 2 and l[0] in nid and l[1] in nid:
                        pairs.append((nid[l[0]], nid[l[1]]))
        out.append("(* reviewed mnemonic aliases (corpus/C01_db_alias.txt) and known ambiguities of the database (corpus/C01_db_ambiguous.txt, findings) *)")
        out.append("Definition db_aliases : list (Z * Z) := [%s].\n" % "; ".join("(%d, %d)" % p for p in pairs))
        out.append("(* uniqueness: rows of one opcode bucket that can accept the same bytes (X86Unique.may_overlap) name the same mnemonic or a listed pair *)")
        out.append("Lemma db_unique_raw : forallb (fun o => bucket_unique db_aliases (bucket_raw o)) (zrange 256) = true.\nProof. vm_cast_no_check (eq_refl true). Qed.\n")
        out.append("Lemma db_unique : forall o, bucket_unique db_aliases (bucket o) = true.\nProof. exact (guarded_all bucket_raw db_aliases db_unique_raw). Qed.\n")
        exs = []
        pth = os.path.join(vlib.VERIF, "corpus", "C01_same_ops_exceptions.txt")
        if os.path.exists(pth):
            for l in open(pth):
                l = l.split("#")[0].split()
                if len(l) == 1 and l[0] in nid:
                    exs.append(nid[l[0]])
        out.append("(* same-mnemonic rows that may overlap (X86Unique.may_overlap and extra_overlap) have equal operand specifications, except the reviewed mnemonics of corpus/C01_same_ops_exceptions.txt *)")
        out.append("Definition db_same_ops_exceptions : list Z := [%s]." % "; ".join(str(x) for x in exs))
        out.append("Lemma db_same_ops_raw : forallb (fun o => bucket_same_ops db_same_ops_exceptions (bucket_raw o)) (zrange 256) = true.\nProof. vm_cast_no_check (eq_refl true). Qed.\n")
        out.append("Lemma db_same_ops : forall o, bucket_same_ops db_same_ops_exceptions (bucket o) = true.\nProof. exact (guarded_same_ops bucket_raw db_same_ops_exceptions db_same_ops_raw). Qed.\n")
        out.append("(* non-vacuity: some same-mnemonic pair passes both overlap relations (and has equal operand specifications); some same-mnemonic pair passes the old relation but not the sharper one (the 128/256/512-bit EVEX variants) *)")
        out.append("Definition same_name_pair (f : row -> row -> bool) : bool :=\n  existsb (fun o => existsb (fun r1 => existsb (fun r2 => (r_id r1 <? r_id r2) && (r_name r1 =? r_name r2) && f r1 r2) (bucket_raw o)) (bucket_raw o)) (zrange 256).")
        out.append("Lemma db_same_ops_nonvacuous :\n  same_name_pair (fun r1 r2 => may_overlap r1 r2 && extra_overlap r1 r2 && ops_eqb (r_ops r1) (r_ops r2)) &&\n  same_name_pair (fun r1 r2 => may_overlap r1 r2 && negb (extra_overlap r1 r2) && negb (ops_eqb (r_ops r1) (r_ops r2))) = true.\nProof. vm_cast_no_check (eq_refl true). Qed.\n")
        out.append("Lemma db_wait_same_ops_raw : forallb (fun o => bucket_same_ops db_same_ops_exceptions (wbucket_raw o)) (zrange 256) = true.\nProof. vm_cast_no_check (eq_refl true). Qed.\n")
        out.append("Lemma db_wait_unique_raw : forallb (fun o => bucket_unique db_aliases (wbucket_raw o)) (zrange 256) = true.\nProof. vm_cast_no_check (eq_refl true). Qed.\n")
        out.append("Lemma db_wait_unique : forall o, bucket_unique db_aliases (wbucket o) = true.\nProof. exact (guarded_all wbucket_raw db_aliases db_wait_unique_raw). Qed.\n")
        out.append("Lemma db_wait_bucket_row_of_raw : forallb (fun o => bucket_row_of_ok row_of (wbucket_raw o)) (zrange 256) = true.\nProof. vm_cast_no_check (eq_refl true). Qed.\n")
        out.append("Lemma db_wait_bucket_row_of : forall o, bucket_row_of_ok row_of (wbucket o) = true.\nProof. exact (guarded_row_of wbucket_raw row_of db_wait_bucket_row_of_raw). Qed.\n")
        out.append("(* the row the judge looks up by id reads names and decorations like the bucket's row of that id *)")
        out.append("Lemma db_bucket_row_of_raw : forallb (fun o => bucket_row_of_ok row_of (bucket_raw o)) (zrange 256) = true.\nProof. vm_cast_no_check (eq_refl true). Qed.\n")
        out.append("Lemma db_bucket_row_of : forall o, bucket_row_of_ok row_of (bucket o) = true.\nProof. exact (guarded_row_of bucket_raw row_of db_bucket_row_of_raw). Qed.\n")
        out.append(coq_examples(names))
    return "\n".join(out) + "\n"


if __name__ == "__main__":
    import sys
    rows, names = build(sys.argv[1] if len(sys.argv) > 1 else vlib.REPO)
    import collections
    c = collections.Counter(r["unsupported"] or "supported" for r in rows)
    for k, v in c.most_common():
        print("%5d  %s" % (v, k))
    if len(sys.argv) > 2:
        open(sys.argv[2], "w").write(coq_text(rows, names))

"""C01 translator for AsmJit's OWN tables: runs harness/c01_dump.cpp (built against /repo's working tree) and prints
coq/gen/X86Tables.v: the static encoder tables of x86assembler.cpp, the per-instruction opcode words of x86instdb.cpp and
the reflection lemmas that compare them with their specifications (X86TablesSpec.v) and with the ISA database."""
import os
import re
import vlib

CORPUS = os.path.join(vlib.VERIF, "corpus")


def read_list(fn):
    out = []
    p = os.path.join(CORPUS, fn)
    if os.path.exists(p):
        for l in open(p):
            l = l.split("#")[0].split()
            if l:
                out.append(l[0])
    return out


def dump(exe):
    rc, out, err = vlib.sh([exe], timeout=120)
    if rc != 0:
        raise RuntimeError("c01_dump failed: %s" % err[-1000:])
    tables, insts = {}, []
    for line in out.split("\n"):
        t = line.split()
        if not t:
            continue
        if t[0] == "INST":
            insts.append({"id": int(t[1]), "name": t[2], "enc": int(t[3]), "main": int(t[4]), "alt": int(t[5]), "flags": int(t[6]),
                          "aflags": int(t[7]), "bcst": int(t[8])})
        elif t[0] == "SIG":
            n = int(t[4])
            tables.setdefault("_sigs", []).append({"id": int(t[1]), "name": t[2], "mode": int(t[3]),
                                                   "ops": [(int(t[5 + 2 * j]), int(t[6 + 2 * j])) for j in range(n)]})
        else:
            tables[t[0]] = [int(x) for x in t[1:]]
    return tables, insts


def encoding_ids(repo):
    """EncodingId enum of x86instdb_p.h of the working tree: name (without the kEncoding prefix) -> value."""
    hdr = open(os.path.join(repo, "asmjit", "x86", "x86instdb_p.h")).read()
    m = re.search(r"enum EncodingId[^{]*\{(.*?)\n\s*kEncodingCount", hdr, re.S)
    if not m:
        return {}
    body = re.sub(r"//[^\n]*", "", m.group(1))
    names = [x.strip().split("=")[0].strip() for x in body.split(",") if x.strip()]
    return {n.replace("kEncoding", "", 1): i for i, n in enumerate(names)}


def class_list(fn, enc):
    """A corpus list of encoding classes BY NAME, mapped to the ids of the working tree's enum; unknown names are returned too."""
    ids, unknown = [], []
    for n in read_list(fn):
        if n in enc:
            ids.append(enc[n])
        else:
            unknown.append(n)
    return sorted(ids), unknown


def handler_literals(repo):
    """The opcode literals hard-coded in the handlers of x86assembler.cpp whose instruction-table words are empty (mov, movabs, pushw)
    or incomplete (register forms of fld/fst/fstp), read from the source text.  Returns dict name -> list; {} entries mean the
    source no longer has the expected shape (reported by the check)."""
    src = open(os.path.join(repo, "asmjit", "x86", "x86assembler.cpp")).read()

    def block(start, end):
        i = src.find("case InstDB::kEncoding%s:" % start)
        j = src.find("case InstDB::kEncoding%s:" % end, i + 1)
        return src[i:j] if 0 <= i < j else ""

    def lits(text, deltas=True):
        out = set()
        for line in text.split("\n"):
            code = line.split("//")[0]
            if not deltas and re.search(r"\bopcode\s*[-+]=", code):
                continue
            if re.search(r"\bopcode\s*([-+|]?=|\.add\()", code) is None or "opcode.add_" in code:
                continue
            mp = 1 if re.search(r"k[0-9A-F]{2}0F00", code) else 0
            for h in re.findall(r"\b0x([0-9A-Fa-f]{2})u?\b", code):
                out.add((mp, int(h, 16)))
        return sorted(out)
    def cblock(name):
        """the handler block of one encoding class: from its case label to the first case label after a `break;`"""
        i = src.find("case InstDB::kEncoding%s:" % name)
        if i < 0:
            return ""
        j = src.find("break;", i)
        k = src.find("case InstDB::kEncoding", j if j > 0 else i + 1)
        return src[i:k] if k > i else ""
    res_cls = {n: lits(cblock(n), deltas=False) for n in ("X86Call", "X86Imul", "X86Jmp", "X86M_Nop", "X86Push", "X86Pop", "X86Test", "X86Xchg", "ExtMovq", "VexMri_Vpextrw")}
    res = {"classes": res_cls, "arith": lits(block("X86Arith", "X86Bswap")), "rot": lits(block("X86Rot", "X86Set")),
           "mov": lits(block("X86Mov", "X86Movabs")), "movabs": lits(block("X86Movabs", "X86MovsxMovzx")),
           "pushw": [(1 if "kPP_66" in l else 0, int(h, 16)) for l in block("X86Pushw", "X86Push").split("\n")
                     for h in re.findall(r"opcode\s*=\s*0x([0-9A-Fa-f]{2})u?\b", l.split("//")[0])],
           "fldfst": [(n.lower(), int(a, 16), int(b2, 16)) for n, a, b2 in re.findall(
               r"inst_id == Inst::kId(\w+)\s*\)\s*\{\s*opcode = \(0x([0-9A-Fa-f]{2}) << Opcode::kFPU_2B_Shift\) \+ 0x([0-9A-Fa-f]{2}) \+ o0\.id\(\);", block("FpuFldFst", "FpuM"))]}
    return res


def zl(xs):
    return "[" + "; ".join(str(x) for x in xs) + "]"


def coq_text(tables, insts, names, rows):
    nid = {n: i for i, n in enumerate(names)}
    known = sorted([i for i in insts if i["name"] in nid], key=lambda i: nid[i["name"]])
    byname = {}
    for r in rows:
        if not r["unsupported"] and not r.get("wait"):
            byname.setdefault(r["name"], []).append(r["id"])
    cd_exc = [n for n in read_list("C01_cd_exceptions.txt") if n in nid]
    op_exc = [n for n in read_list("C01_opcode_exceptions.txt") if n in nid]
    enc = encoding_ids(vlib.REPO)
    verb, unk_verb = class_list("C01_verbatim_classes.txt", enc)
    conv, unk_conv = class_list("C01_converse_classes.txt", enc)
    cov_exc = [n for n in read_list("C01_cover_exceptions.txt") if n in nid]
    fpu_exc = [n for n in read_list("C01_fpu_exceptions.txt") if n in nid]
    s66, unk_s66 = class_list("C01_size66_classes.txt", enc)
    szb, unk_szb = class_list("C01_sizebit_classes.txt", enc)
    rt = tables["reg_types"]
    o = []
    o.append("(* GENERATED by tools/c01_tables.py from harness/c01_dump.cpp run on /repo's working tree. Do not edit.\n"
             "   %d instruction ids, %d of them with a mnemonic of the ISA database. *)" % (len(insts), len(known)))
    o.append("From Coq Require Import ZArith List Bool.\nFrom Verif Require Import X86.X86Model X86.X86Denote X86.X86DbCheck X86.X86TablesSpec.\n"
             "From VerifGen Require Import IsaX86Db.\nImport ListNotations.\nLocal Open Scope Z_scope.\n")
    for k in ("segment_prefix_table", "opcode_pp_table", "opcode_mm_table", "vex_prefix_table", "ll_by_size_div_16_table", "ll_by_reg_type_table",
              "cdisp8_shl_table", "mod16_base_table", "mod16_base_index_table", "mem_info_table", "opcode_layout"):
        o.append("Definition t_%s : list Z := %s." % (k, zl(tables[k])))
    o.append("Definition t_reg_types : regtypes := mkRT %s." % " ".join(str(x) for x in rt))
    o.append("Definition t_vec256 : Z := %d." % (rt[6] + 1))
    o.append("")
    o.append("Definition inst_table : list (inst_entry * list row) := [")
    o.append(";\n".join("  (mkIE %d %d %d %d %d %d %d %d, [%s])" % (i["id"], nid[i["name"]], i["enc"], i["main"], i["alt"], i["flags"], i["aflags"], i["bcst"],
                                                                  "; ".join("r%d" % x for x in sorted(byname.get(i["name"], [])))) for i in known))
    o.append("].\n")
    o.append("Lemma grouping_is_ok : grouping_ok db_rows inst_table = true.\nProof. vm_cast_no_check (eq_refl true). Qed.\n")
    o.append("(* reviewed exceptions (each one is a recorded finding, corpus/C01_cd_exceptions.txt / C01_opcode_exceptions.txt) *)")
    o.append("Definition cd_exceptions : list Z := %s." % zl([nid[n] for n in cd_exc]))
    o.append("Definition opcode_exceptions : list Z := %s." % zl([nid[n] for n in op_exc]))
    o.append("(* encoding classes whose handler uses the stored opcode word as it is (corpus/C01_verbatim_classes.txt) *)")
    o.append("Definition verbatim_classes : list Z := %s.\n" % zl(verb))
    o.append("Definition converse_classes : list Z := %s." % zl(conv))
    o.append("Definition size66_classes : list Z := %s." % zl(s66))
    o.append("Definition sizebit_classes : list Z := %s." % zl(szb))
    o.append("Definition cover_exceptions : list Z := %s." % zl([nid[n] for n in cov_exc]))
    o.append("Definition fpu_exceptions : list Z := %s.\n" % zl([nid[n] for n in fpu_exc]))
    o.append("(* the field positions of the opcode word the extractors of X86TablesSpec.v assume *)")
    o.append("Lemma opcode_layout_ok : t_opcode_layout = [8; 13; 16; 18; 21; 27; 28; 29; 4096].\nProof. vm_compute. reflexivity. Qed.\n")
    o.append("Lemma static_tables_ok :\n  seg_table_ok t_segment_prefix_table && pp_table_ok t_opcode_pp_table && mm_table_ok t_opcode_mm_table &&\n"
             "  vex_prefix_ok t_vex_prefix_table && ll_by_size_ok t_ll_by_size_div_16_table && ll_by_reg_type_ok t_ll_by_reg_type_table t_vec256 (rt_v512 t_reg_types) &&\n"
             "  cdisp8_table_ok t_cdisp8_shl_table && mod16_base_ok t_mod16_base_table && mod16_base_index_ok t_mod16_base_index_table &&\n"
             "  mem_info_ok t_reg_types t_mem_info_table = true.\nProof. vm_cast_no_check (eq_refl true). Qed.\n")
    o.append("Lemma cd_agree_ok :\n  forallb (fun p => zmem (ie_name (fst p)) cd_exceptions || cd_inst_agrees (snd p) (fst p)) inst_table = true.\nProof. vm_cast_no_check (eq_refl true). Qed.\n")
    o.append("Lemma opcode_agree_ok :\n  forallb (fun p => negb (zmem (ie_enc (fst p)) verbatim_classes) || zmem (ie_name (fst p)) opcode_exceptions || opcode_inst_agrees (snd p) (fst p)) inst_table = true.\nProof. vm_cast_no_check (eq_refl true). Qed.\n")
    o.append("Lemma opcode_cover_ok :\n  forallb (fun p => negb (zmem (ie_enc (fst p)) converse_classes) || zmem (ie_name (fst p)) cover_exceptions || opcode_inst_covers (snd p) (fst p)) inst_table = true.\nProof. vm_cast_no_check (eq_refl true). Qed.\n")
    o.append("Lemma size66_agree_ok :\n  forallb (fun p => negb (zmem (ie_enc (fst p)) size66_classes) || size66_inst_agrees (snd p) (fst p)) inst_table = true.\nProof. vm_cast_no_check (eq_refl true). Qed.\n")
    o.append("Lemma sizebit_agree_ok :\n  forallb (fun p => negb (zmem (ie_enc (fst p)) sizebit_classes) || sizebit_inst_agrees (snd p) (fst p)) inst_table = true.\nProof. vm_cast_no_check (eq_refl true). Qed.\n")
    o.append("Lemma fpu_op_agree_ok :\n  forallb (fun p => negb (ie_enc (fst p) =? 66) || zmem (ie_name (fst p)) fpu_exceptions || fpu_op_agrees (snd p) (fst p)) inst_table = true.\nProof. vm_cast_no_check (eq_refl true). Qed.\n")
    hl = handler_literals(vlib.REPO)
    o.append("(* opcode literals of the handlers of x86assembler.cpp (mov, movabs, pushw; register forms of fld/fst/fstp), read from the source text *)")
    o.append("Definition hl_fldfst : list (Z * Z * Z) := [%s]." % "; ".join("(%d, %d, %d)" % (nid[n], a, b) for n, a, b in hl["fldfst"] if n in nid))
    for k in ("arith", "rot"):
        o.append("Definition hl_%s : list (Z * Z) := [%s]." % (k, "; ".join("(%d, %d)" % t for t in hl[k])))
    o.append("(* X86Arith / X86Rot: derived forms (X86TablesSpec.arith_row_ok / rot_row_ok); the literals 0x80 and 0x10 the specification assumes are in the handler text *)")
    o.append("Lemma arith_rot_agree_ok :\n  forallb (fun p => negb (ie_enc (fst p) =? 25) || derived_inst_agrees arith_row_ok (snd p) (fst p)) inst_table &&\n"
             "  forallb (fun p => negb (ie_enc (fst p) =? 55) || derived_inst_agrees rot_row_ok (snd p) (fst p)) inst_table &&\n"
             "  existsb (fun l => (fst l =? 0) && (snd l =? 128)) hl_arith && existsb (fun l => (fst l =? 0) && (snd l =? 16)) hl_rot = true.\nProof. vm_cast_no_check (eq_refl true). Qed.\n")
    sreg = lambda t: sorted(set((1 if ((w >> 8) & 31) == 1 else 0, w & 255) for w in tables.get(t, []) if w))
    cl = dict(hl["classes"])
    cl["X86Push"] = sorted(set(cl.get("X86Push", []) + sreg("opcode_push_sreg_table")))
    cl["X86Pop"] = sorted(set(cl.get("X86Pop", []) + sreg("opcode_pop_sreg_table")))
    o.append("(* further legacy classes: opcode literals of the handler block (and the segment-register push / pop tables), by class id *)")
    o.append("Definition hl_classes : list (Z * list (Z * Z)) := [%s]." % "; ".join(
        "(%d, [%s])" % (enc[n], "; ".join("(%d, %d)" % t for t in v)) for n, v in sorted(cl.items()) if n in enc))
    o.append("Lemma class_lits_ok : forallb (fun cl => class_lits_agree inst_table (fst cl) (snd cl)) hl_classes && (Z.of_nat (length hl_classes) =? %d) = true.\nProof. vm_cast_no_check (eq_refl true). Qed.\n" % len(cl))
    for k in ("mov", "movabs", "pushw"):
        o.append("Definition hl_%s : list (Z * Z) := [%s]." % (k, "; ".join("(%d, %d)" % t for t in hl[k])))
        o.append("Definition id_%s : Z := %d." % (k, nid.get(k, -1)))
    o.append("Lemma fpu_derived_agree_ok :\n  forallb (fun p => negb (zmem (ie_enc (fst p)) fpu_derived_classes) || zmem (ie_name (fst p)) fpu_exceptions || fpu_derived_agrees hl_fldfst (snd p) (fst p)) inst_table = true.\nProof. vm_cast_no_check (eq_refl true). Qed.\n")
    o.append("Lemma handler_lits_ok :\n  inst_has inst_table id_mov (handler_lits_agree id_mov hl_mov) && inst_has inst_table id_movabs (handler_lits_agree id_movabs hl_movabs) &&\n"
             "  inst_has inst_table id_pushw (pushw_lits_agree id_pushw hl_pushw) && (Z.of_nat (length hl_fldfst) =? 3) = true.\nProof. vm_cast_no_check (eq_refl true). Qed.\n")
    key = ("X86Arith", "X86Rot", "FpuOp", "FpuArith", "FpuCom", "FpuFldFst", "FpuM", "FpuR", "FpuRDef", "FpuStsw")
    o.append("(* the EncodingId enum of x86instdb_p.h of the working tree: the classes that X86TablesSpec.v names by number have these numbers, and every class name of the corpus lists exists *)")
    o.append("Definition enc_ids_of_tree : list Z := %s.  (* %s *)" % (zl([enc.get(k, -1) for k in key]), " ".join(key)))
    o.append("Definition unknown_class_names : Z := %d." % len(unk_verb + unk_conv + unk_s66 + unk_szb))
    o.append("Lemma class_ids_ok : enc_ids_of_tree = [25; 55; 66; 67; 68; 69; 70; 71; 72; 73] /\\ unknown_class_names = 0.\nProof. vm_compute. split; reflexivity. Qed.\n")
    o.append("Definition inst_count : Z := %d.\nLemma inst_count_ok : Z.of_nat (length inst_table) = inst_count.\nProof. vm_compute. reflexivity. Qed." % len(known))
    return "\n".join(o) + "\n", {"inst_ids": len(insts), "inst_ids_with_db_mnemonic": len(known),
                                 "mnemonics_not_in_db": sorted(i["name"] for i in insts if i["name"] not in nid)[:80],
                                 "cd_exceptions": cd_exc, "opcode_exceptions": op_exc, "verbatim_classes": verb, "converse_classes": conv, "cover_exceptions": cov_exc, "fpu_exceptions": fpu_exc, "size66_classes": s66, "sizebit_classes": szb, "unknown_class_names": unk_verb + unk_conv + unk_s66 + unk_szb,
                                 "class_ids": {k: enc.get(k, -1) for k in ("X86Arith", "X86Rot", "FpuOp", "FpuArith", "FpuCom", "FpuFldFst", "FpuM", "FpuR", "FpuRDef", "FpuStsw")}, "handler_literals": {k: len(v) for k, v in hl.items()},
                                 "inst_ids_in_converse_classes": len([i for i in known if i["enc"] in conv]),
                                 "inst_ids_in_verbatim_classes": len([i for i in known if i["enc"] in verb])}


if __name__ == "__main__":
    import sys
    import c01_db
    ck = vlib.Check("C01")
    exe = ck.build_harness("c01dump", ["c01_dump.cpp"])
    rows, names = c01_db.build(vlib.REPO)
    tables, insts = dump(exe)
    text, info = coq_text(tables, insts, names, rows)
    if len(sys.argv) > 1:
        open(sys.argv[1], "w").write(text)
    print({k: (v if not isinstance(v, list) else len(v)) for k, v in info.items()})

"""C17 — Displacement and immediate field codecs are exact for every value.

S2 theorems  : coq/theories/Properties/Properties_C17.v (re-checked by coqc on every run)
S3 tie       : harness/c17_harness.cpp (real CodeWriterUtils / arm::Utils / a64 helpers of /repo's working tree)
               vs. the extracted model (coq/extract/Extract_Codec.v + ml/c17_driver.ml), same command stream
S4 search    : an independent python oracle (architectural decoders written from the manuals) judges every single-case
               answer of the implementation; a disagreement model/implementation is localised to single inputs and judged too
"""
import os
import random
import re
import sys
import vlib
sys.path.insert(0, os.path.dirname(os.path.dirname(os.path.abspath(__file__))))
import c17_layouts  # noqa: E402  (translator: field layouts of encode_offset32 from the source text)
import c17_transcribed  # noqa: E402  (the C++ regions the models were transcribed from, as normalised text)
from concurrent.futures import ThreadPoolExecutor

# Thumb-2 branch formats: the tree is probed on every run (probe_t32). "pinned" = the defective packers of the pinned tree
# (known findings C17/thumb32-*), "fixed" = fixes/C17-thumb32-branch-formats.patch applied. The model variant is chosen
# accordingly (ml/c17_driver.ml argv[1]); the python oracle below always judges against the architecture, so as soon as
# the known_findings lines are flipped to kind=fixed a returning defect is a VIOLATION with a concrete offset.
LAYOUT_DEPENDENT = ("C17_layouts_current", "C17_fixup_current", "C17_armutils_current")
LAYOUT_TYPE_TO_TY = {"T32_ADR": "t32_adr", "T32_BLX": "t32_blx", "T32_B": "t32_b", "T32_BCond": "t32_bcond",
                     "A32_U23_0To3At0_4To7At8": "a32_u23_split", "A32_1To24At0_0At24": "a32_blx", "A64_ADR": "adr", "A64_ADRP": "adrp"}
TYN_COQ = {"SignedOffset": 0, "UnsignedOffset": 1, "A64_ADR": 2, "A64_ADRP": 3}
T32_VARIANT = {"v": "pp"}    # first letter: B.W/BL/BLX packer, second: B<c>.W packer; p = pinned (defective), f = fixed
X86_MEM_CHECKED = {"v": "u"}   # "c": (Mem, Imm) ALU forms refuse a qword destination with a non-int32 immediate (fixed tree), "u": pinned
X86_TM_CHECKED = {"v": "u"}    # "c": TEST r/m64, imm and MOV m64, imm refuse a non-int32 immediate (fixed tree), "u": pinned (truncates)
X86_OPS = ["add", "or", "adc", "sbb", "and", "sub", "xor", "cmp", "test", "mov", "imul", "push", "shl", "sar", "ror", "rcl", "shld", "shrd"]
NLIST = [2, 7, 8, 9, 12, 14, 16, 19, 21, 24, 25, 26, 31, 32, 33, 48, 63, 64]

M64 = (1 << 64) - 1
TY = {"signed": 0, "unsigned": 1, "adr": 2, "adrp": 3, "t32_adr": 4, "t32_blx": 5, "t32_b": 6, "t32_bcond": 7,
      "a32_adr": 8, "a32_u23": 9, "a32_u23_split": 10, "a32_blx": 11}
TYN = {v: k for k, v in TY.items()}


def sext(v, n):
    v &= (1 << n) - 1
    return v - (1 << n) if v >> (n - 1) else v


# ------------------------------------------------------------------ architectural decoders (independent of AsmJit and of the Coq model)
def decode_field(ty, vs, bits, sh, dl, w):
    """Returns the displacement denoted by word w for format (ty, ...), per the architecture manuals."""
    name = TYN[ty]
    if name == "signed":
        return sext((w >> sh), bits) << dl
    if name == "unsigned":
        return ((w >> sh) & ((1 << bits) - 1)) << dl
    if name in ("adr", "adrp"):
        return sext((((w >> 5) & 0x7FFFF) << 2) | ((w >> 29) & 3), 21) << dl
    if name == "t32_adr":
        imm = (w & 0xFF) | (((w >> 12) & 7) << 8) | (((w >> 26) & 1) << 11)
        return (-imm if ((w >> 21) & 1) and ((w >> 23) & 1) else imm) << dl
    if name in ("t32_b", "t32_blx"):
        s = (w >> 26) & 1; j1 = (w >> 13) & 1; j2 = (w >> 11) & 1
        i1 = 1 - (j1 ^ s); i2 = 1 - (j2 ^ s)
        v = sext((s << 23) | (i1 << 22) | (i2 << 21) | (((w >> 16) & 0x3FF) << 11) | (w & 0x7FF), 24)
        return v << 1   # imm32 = SignExtend(S:I1:I2:imm10:imm11:'0'): the field counts half-words whatever `discard` is
    if name == "t32_bcond":
        s = (w >> 26) & 1; j1 = (w >> 13) & 1; j2 = (w >> 11) & 1
        return sext((s << 19) | (j2 << 18) | (j1 << 17) | (((w >> 16) & 0x3F) << 11) | (w & 0x7FF), 20) << 1
    if name == "a32_adr":
        imm12 = (w >> sh) & 0xFFF
        rot = 2 * (imm12 >> 8); v = imm12 & 0xFF
        v = ((v >> rot) | (v << (32 - rot))) & 0xFFFFFFFF if rot else v
        # ADR A1 (ADD, bit 23) / A2 (SUB, bit 22)
        return -v if (w >> 22) & 1 and not (w >> 23) & 1 else v
    if name == "a32_u23":
        imm = ((w >> sh) & ((1 << bits) - 1)) << dl
        return imm if (w >> 23) & 1 else -imm
    if name == "a32_u23_split":
        imm = ((w & 0xF) | (((w >> 8) & 0xF) << 4)) << dl
        return imm if (w >> 23) & 1 else -imm
    if name == "a32_blx":
        return sext(((w & 0xFFFFFF) << 1) | ((w >> 24) & 1), 25) << dl
    raise ValueError(name)


def field_mask(ty, vs, bits, sh):
    name = TYN[ty]
    if name in ("signed", "unsigned"):
        return ((1 << bits) - 1) << sh
    if name in ("adr", "adrp"):
        return (3 << 29) | (0x7FFFF << 5)
    if name == "t32_adr":
        return 0xFF | (7 << 12) | (1 << 26) | (1 << 21) | (1 << 23)
    if name in ("t32_b", "t32_blx"):
        return 0x7FF | (0x3FF << 16) | (1 << 26) | (1 << 13) | (1 << 11)
    if name == "t32_bcond":
        return 0x7FF | (0x3F << 16) | (1 << 26) | (1 << 13) | (1 << 11)
    if name == "a32_adr":
        return (0xFFF << sh) | (3 << 22)
    if name == "a32_u23":
        return (((1 << bits) - 1) << sh) | (1 << 23)
    if name == "a32_u23_split":
        return 0xF | (0xF << 8) | (1 << 23)
    if name == "a32_blx":
        return 0x1FFFFFF
    raise ValueError(name)


def encodable(ty, vs, bits, sh, dl, off):
    """Does the architecture have a field value for displacement off?"""
    name = TYN[ty]
    if off & ((1 << dl) - 1):
        return False
    v = off >> dl
    if name in ("signed", "adr", "adrp", "a32_blx"):
        return -(1 << (bits - 1)) <= v < (1 << (bits - 1))
    if name == "unsigned":
        if vs == 8:
            # the int64 argument is the two's-complement image of a uint64 displacement (absolute addresses >= 2^63 go through
            # the 8-byte format): the field holds (off mod 2^64) >> discard
            return ((off & M64) >> dl) < (1 << bits)
        return 0 <= v < (1 << bits)
    if name in ("t32_b", "t32_blx", "t32_bcond"):
        # the signed range test is shared with every other signed format and is right in both variants
        return -(1 << (bits - 1)) <= v < (1 << (bits - 1))
    if name == "a32_adr":
        a = abs(off)
        if a >= (1 << bits):
            return None  # the format's own bit count limits |offset|; nothing in the tree builds this format, not judged
        for rot in range(0, 32, 2):
            r = ((a << rot) | (a >> (32 - rot))) & 0xFFFFFFFF if rot else a
            if r <= 0xFF and a <= 0xFFFFFFFF:
                return True
        return False
    if name in ("t32_adr", "a32_u23", "a32_u23_split"):
        return abs(v) < (1 << bits)
    raise ValueError(name)


def decode_bit_masks(n, imms, immr, m):
    x = (n << 6) | ((~imms) & 0x3F)
    ln = x.bit_length() - 1
    if ln < 1 or (1 << ln) > m:
        return None
    levels = (1 << ln) - 1
    s = imms & levels; r = immr & levels
    if s == levels:
        return None
    esize = 1 << ln
    welem = (1 << (s + 1)) - 1
    elem = ((welem >> r) | (welem << (esize - r))) & ((1 << esize) - 1) if r else welem
    v = 0
    for i in range(m // esize):
        v |= elem << (i * esize)
    return v


def all_logical(m):
    out = set()
    for n in range(2):
        for s in range(64):
            for r in range(64):
                v = decode_bit_masks(n, s, r, m)
                if v is not None:
                    out.add(v)
    return out


def vfp_expand(n, imm8):
    e = {16: 5, 32: 8, 64: 11}[n]; f = n - e - 1
    sign = imm8 >> 7; b6 = (imm8 >> 6) & 1
    exp = ((1 - b6) << (e - 1)) | (((1 << (e - 3)) - 1) << 2 if b6 else 0) | ((imm8 >> 4) & 3)
    return (sign << (n - 1)) | (exp << f) | ((imm8 & 15) << (f - 4))


def ubfm_pseudocode(size, immr, imms, src):
    """UBFM per the ARM ARM pseudo-code: (wmask, tmask) = DecodeBitMasks(N, imms, immr, FALSE); bot = ROR(src, R) AND wmask; result = bot AND tmask."""
    n = 1 if size == 64 else 0
    x = (n << 6) | ((~imms) & 0x3F)
    ln = x.bit_length() - 1
    if ln < 1:
        return None
    levels = (1 << ln) - 1
    s_ = imms & levels; r_ = immr & levels
    esize = 1 << ln
    d = (s_ - r_) & levels
    welem = (1 << (s_ + 1)) - 1; telem = (1 << (d + 1)) - 1
    em = (1 << esize) - 1
    wrot = ((welem >> r_) | (welem << (esize - r_))) & em if r_ else welem
    wmask = 0; tmask = 0
    for i in range(size // esize):
        wmask |= wrot << (i * esize); tmask |= telem << (i * esize)
    m = (1 << size) - 1
    rot = ((src >> immr) | (src << (size - immr))) & m if immr else src
    return rot & wmask & tmask


def bfm_class_pseudocode(kind, size, immr, imms, dst, src):
    """BFM / SBFM / UBFM per the ARM ARM pseudo-code (python transcription, independent of the Coq one)."""
    n = 1 if size == 64 else 0
    x = (n << 6) | ((~imms) & 0x3F)
    ln = x.bit_length() - 1
    if ln < 1 or (1 << ln) > size:
        return None
    levels = (1 << ln) - 1
    s_ = imms & levels; r_ = immr & levels
    esize = 1 << ln
    d = (s_ - r_) & levels
    welem = (1 << (s_ + 1)) - 1; telem = (1 << (d + 1)) - 1
    em = (1 << esize) - 1
    wrot = ((welem >> r_) | (welem << (esize - r_))) & em if r_ else welem
    wmask = 0; tmask = 0
    for i in range(size // esize):
        wmask |= wrot << (i * esize); tmask |= telem << (i * esize)
    m = (1 << size) - 1
    rr = immr % size
    rot = ((src >> rr) | (src << (size - rr))) & m if rr else src
    if kind == "u":
        return rot & wmask & tmask
    if kind == "s":
        top = m if (src >> imms) & 1 else 0
        return (top & ~tmask & m) | (rot & wmask & tmask)
    bot = (dst & ~wmask & m) | (rot & wmask)
    return (dst & ~tmask & m) | (bot & tmask)


def cross_validate_pseudocode(ck, model, rng, n):
    """The two hand transcriptions of the BFM-class pseudo-code (Coq BfmSemModel.v, extracted; python above) on the same inputs."""
    cmds = []
    for _ in range(n):
        size = rng.choice((32, 64))
        kind = rng.choice("usb")
        immr = rng.randrange(size); imms = rng.randrange(size)
        pick = lambda: rng.choice((0, (1 << size) - 1, rng.getrandbits(size), 1 << rng.randrange(size)))
        cmds.append("Z %s %d %d %d %d %d" % (kind, size, immr, imms, pick(), pick()))
    out = vlib.sh(model_cmd(model), inp="\n".join(cmds) + "\n", timeout=300)[1].split("\n")
    bad = 0
    for c, o in zip(cmds, out):
        t = c.split()
        want = bfm_class_pseudocode(t[1], int(t[2]), int(t[3]), int(t[4]), int(t[5]), int(t[6]))
        if o != "Z %s" % ("-" if want is None else want):
            bad += 1
            if bad <= 3:
                ck.violation("C17/oracle/bfm-pseudocode-transcriptions-differ", "%s: Coq transcription says %r, python transcription says %s" % (c, o, want),
                             {"command": c, "model": o, "python": want, "broken": "BfmSemModel.v vs tools/checks/c17.py bfm_class_pseudocode"}, no_input=True)
    return len(cmds), bad


BF_NAMES = ["bfxil", "sbfx", "ubfx", "bfi", "sbfiz", "ubfiz", "bfc", "bfm", "sbfm", "ubfm", "lsl", "lsr", "asr", "ror"]


def run_movwide(words, init):
    reg = init
    for w in words:
        if (w >> 23) & 0x3F != 0x25:
            return None
        sf = w >> 31; opc = (w >> 29) & 3; hw = (w >> 21) & 3; imm = (w >> 5) & 0xFFFF
        if not sf and hw >= 2:
            return None
        ds = 64 if sf else 32
        if opc == 2:
            reg = imm << (16 * hw)
        elif opc == 0:
            reg = (~(imm << (16 * hw))) & ((1 << ds) - 1)
        elif opc == 3:
            reg = (reg & ((1 << ds) - 1) & ~(0xFFFF << (16 * hw))) | (imm << (16 * hw))
        else:
            return None
    return reg


# ------------------------------------------------------------------ formats
# (ty, vsize, bits, shift, discard) — first the formats the two backends really build (fixup.h reset_to_* callers)
USED_FORMATS = [
    ("x86 rel8", TY["signed"], 1, 8, 0, 0), ("x86 rel32", TY["signed"], 4, 32, 0, 0),
    ("x86/abs 64-bit data", TY["signed"], 8, 64, 0, 0), ("data 16", TY["signed"], 2, 16, 0, 0),
    ("unsigned data/address 16", TY["unsigned"], 2, 16, 0, 0), ("unsigned data/address 32 (x86 abs reloc)", TY["unsigned"], 4, 32, 0, 0),
    ("a64 imm19 (b.cond/cbz/ldr lit)", TY["signed"], 4, 19, 5, 2), ("a64 imm26 (b/bl)", TY["signed"], 4, 26, 0, 2),
    ("a64 imm14 (tbz)", TY["signed"], 4, 14, 5, 2), ("a64 adr", TY["adr"], 4, 21, 5, 0), ("a64 adrp", TY["adrp"], 4, 21, 5, 12),
]
OTHER_FORMATS = [
    ("unsigned 12@10 d3", TY["unsigned"], 4, 12, 10, 3), ("unsigned 8@0", TY["unsigned"], 1, 8, 0, 0),
    ("unsigned 16@0 d1", TY["unsigned"], 2, 16, 0, 1), ("signed 9@12", TY["signed"], 4, 9, 12, 0),
    ("signed 7@15 d3", TY["signed"], 4, 7, 15, 3), ("signed 5@3 (1 byte)", TY["signed"], 1, 5, 3, 0),
    ("signed 11@2 d1 (2 byte)", TY["signed"], 2, 11, 2, 1), ("signed 33@7 (8 byte)", TY["signed"], 8, 33, 7, 2),
    ("unsigned 40@3 (8 byte)", TY["unsigned"], 8, 40, 3, 0),
    ("unsigned 61@0 d3 (8 byte, bits+discard = 64: uint64 reading)", TY["unsigned"], 8, 61, 0, 3),
    ("unsigned 64@0 (8 byte absolute address, uint64 reading)", TY["unsigned"], 8, 64, 0, 0),
    ("unsigned 60@2 d3 (8 byte, bits+discard = 63)", TY["unsigned"], 8, 60, 2, 3),
    ("t32 adr", TY["t32_adr"], 4, 12, 0, 0), ("a32 adr", TY["a32_adr"], 4, 12, 0, 0), ("a32 u23 12", TY["a32_u23"], 4, 12, 0, 0),
    ("a32 u23 8 d2", TY["a32_u23"], 4, 8, 0, 2), ("a32 u23 split", TY["a32_u23_split"], 4, 8, 0, 0),
    ("a32 blx", TY["a32_blx"], 4, 25, 0, 1),
    ("t32 b", TY["t32_b"], 4, 24, 0, 1), ("t32 blx", TY["t32_blx"], 4, 23, 0, 2), ("t32 bcond", TY["t32_bcond"], 4, 20, 0, 1),
    ("bad bits 0", TY["signed"], 4, 0, 0, 0), ("bad bits 40 in 4", TY["signed"], 4, 40, 0, 0), ("bad vsize 3", TY["signed"], 3, 8, 0, 0),
]
KNOWN_BAD_TYPES = {"t32_b": "C17/thumb32-b-j1-at-bit14", "t32_blx": "C17/thumb32-blx-j1-at-bit14", "t32_bcond": "C17/thumb32-bcond-j-bits"}


def gen_stream(rng, tier):
    cmds = ["T"]
    fmts = USED_FORMATS + OTHER_FORMATS
    # R: range sweeps (summary hash) — the whole in-range interval plus a band outside when the field is small; for large
    # fields dense windows centred on BOTH limits and on 0 plus a strided pass.  Every R is cut into pieces of <= RPIECE
    # evaluations so that the 16 shards are balanced (the extracted model does ~25k write_offset/s per process).
    quick = tier == "quick"
    rmax = 1 << (17 if quick else 22)
    win = 8192 if quick else 32768
    RPIECE = 16384 if quick else (1 << 20)

    def emit_r(ty, vs, bits, sh, dl, lo, cnt, step, old):
        i = 0
        while i < cnt:
            n = min(RPIECE, cnt - i)
            cmds.append("R %d %d %d %d %d %d %d %d %d" % (ty, vs, bits, sh, dl, sext(lo + i * step, 64), n, step, old))
            i += n
    for (nm, ty, vs, bits, sh, dl) in fmts:
        if bits == 0 or bits > 8 * vs or vs == 3:
            emit_r(ty, vs, bits, sh, dl, -1000, 2000, 1, 0)
            continue
        span = (1 << min(bits, 40)) << dl
        lo = -span - (4096 << dl)
        cnt = 2 * span + (8192 << dl)
        step = 1
        if cnt > rmax:
            # stratify: dense windows at the limits (+-win/2 offsets around +-limit, whatever the discard) + strided interior
            half = TYN[ty] in ("signed", "adr", "adrp", "a32_blx", "t32_b", "t32_blx", "t32_bcond")
            for centre in (-(span >> (1 if half else 0)), (span >> (1 if half else 0)), 0):
                emit_r(ty, vs, bits, sh, dl, centre - win // 2, win, 1, rng.getrandbits(8 * min(vs, 8)) & ~field_mask(ty, vs, bits, sh))
                if dl:   # also one window in units of 2^discard (every accepted neighbour of the limit)
                    emit_r(ty, vs, bits, sh, dl, centre - ((win // 8) << dl), win // 4, 1 << dl, 0)
            step = (cnt // (rmax // 2)) | 1
            cnt = rmax // 2
        emit_r(ty, vs, bits, sh, dl, lo, cnt, step, 0)
    # V: single values judged by the oracle (limits, misaligned, random, random old bits outside the field)
    nv = 300 if tier == "quick" else 6000
    for (nm, ty, vs, bits, sh, dl) in fmts:
        if bits == 0 or bits > 8 * vs or vs == 3:
            for off in (0, 1, -1):
                cmds.append("V %d %d %d %d %d %d %d" % (ty, vs, bits, sh, dl, off, 0))
            continue
        lim = (1 << bits) << dl
        pts = set()
        for base in (0, lim, -lim, lim >> 1, -(lim >> 1), (1 << 31), -(1 << 31), (1 << 32), (1 << 63) - 1, -(1 << 63)):
            for d in range(-3, 4):
                pts.add(base + (d << dl)); pts.add(base + d)
        for _ in range(nv):
            k = rng.randrange(1, 65)
            pts.add(sext(rng.getrandbits(k), k) if rng.random() < 0.5 else (sext(rng.getrandbits(bits + 1), bits + 1) << dl))
        fm = field_mask(ty, vs, bits, sh) if vs in (1, 2, 4, 8) else 0
        for off in sorted(pts):
            if not (-(1 << 63) <= off < (1 << 63)):
                continue
            old = rng.getrandbits(8 * vs) & ~fm if rng.random() < 0.7 else 0
            cmds.append("V %d %d %d %d %d %d %d" % (ty, vs, bits, sh, dl, off, old))
    # L: logical immediates: every valid value, its one-bit neighbours (sampled in quick), random
    for m in (32, 64):
        vals = sorted(all_logical(m))
        cmds += ["L %d %d" % (v, m) for v in vals]
        nb = vals if tier == "thorough" else rng.sample(vals, 600)
        for v in nb:
            for b in (range(m) if tier == "thorough" else rng.sample(range(m), 6)):
                cmds.append("L %d %d" % (v ^ (1 << b), m))
        for _ in range(2000 if tier == "quick" else 200000):
            cmds.append("L %d %d" % (rng.getrandbits(m), m))
        cmds += ["L 0 %d" % m, "L %d %d" % ((1 << m) - 1, m)]
        if m == 32:
            # uint64 argument with garbage above bit 31 (C17_logical_imm32_upper_bits_ignored): valid and invalid low halves
            for v in rng.sample(vals, 300) + [rng.getrandbits(32) for _ in range(300)] + [0, 0xFFFFFFFF]:
                cmds.append("L %d 32" % (v | (rng.getrandbits(32) << 32)))
                cmds.append("L %d 32" % (v | (0xFFFFFFFF << 32)))
    # A
    for v in [0, 1, 4095, 4096, 4097, 0xFFF000, 0xFFF001, 0x1000000, 0xFFFFFF, M64] + [rng.getrandbits(rng.randrange(1, 65)) for _ in range(500)]:
        cmds.append("A %d" % v)
    for v in range(0, 1 << 24, 4093 if tier == "quick" else 257):
        cmds.append("A %d" % v)
    # F: all 256 imm8 expansions, one-bit neighbours, random
    for n in (16, 32, 64):
        for i in range(256):
            v = vfp_expand(n, i)
            cmds.append("F %d %d" % (n, v))
            for b in rng.sample(range(n), 4 if tier == "quick" else n):
                cmds.append("F %d %d" % (n, v ^ (1 << b)))
        for _ in range(300):
            cmds.append("F %d %d" % (n, rng.getrandbits(n)))
        if n == 16:
            # uint32 argument with garbage above bit 15 (C17_fp16_upper_bits_ignored)
            for i in rng.sample(range(256), 64):
                cmds.append("F 16 %d" % (vfp_expand(16, i) | (rng.getrandbits(16) << 16)))
                cmds.append("F 16 %d" % ((vfp_expand(16, i) ^ (1 << rng.randrange(16))) | (0xFFFF << 16)))
    # B
    for i in range(256):
        v = sum(0xFF << (8 * k) for k in range(8) if (i >> k) & 1)
        cmds.append("B %d" % v)
        cmds.append("B %d" % (v ^ (1 << rng.randrange(64))))
    # I: A32 modified immediates: all 4096 encodings + neighbours + random
    seen = set()
    for imm12 in range(4096):
        rot = 2 * (imm12 >> 8); v = imm12 & 0xFF
        v = ((v >> rot) | (v << (32 - rot))) & 0xFFFFFFFF if rot else v
        seen.add(v)
    for v in sorted(seen):
        cmds.append("I %d" % v)
    for _ in range(2000):
        cmds.append("I %d" % rng.getrandbits(rng.choice([8, 16, 32, 33, 40])))
    # M: move-wide sequences: all 3^4 half-word classes x random fill, both widths, random
    hwc = [0, 0xFFFF, None]
    for a in hwc:
        for b in hwc:
            for c in hwc:
                for d in hwc:
                    for rep in range(3 if tier == "quick" else 40):
                        hs = [h if h is not None else rng.randrange(1, 0xFFFF) for h in (a, b, c, d)]
                        imm = hs[0] | (hs[1] << 16) | (hs[2] << 32) | (hs[3] << 48)
                        cmds.append("M %d %d %d 1" % (imm, rng.randrange(32), rng.randrange(2)))
                        cmds.append("M %d %d %d 0" % (imm & 0xFFFFFFFF, rng.randrange(32), rng.randrange(2)))
    for _ in range(2000 if tier == "quick" else 100000):
        cmds.append("M %d %d %d 1" % (rng.getrandbits(rng.choice([16, 32, 48, 64])), rng.randrange(32), rng.randrange(2)))
    # H
    for sz in range(0, 5):
        for idx in range(0, 20):
            cmds.append("H %d %d" % (sz, idx))
    # X: bit-field aliases through the real a64::Assembler: every (lsb, width) incl. one beyond the register, both sizes
    for x in (0, 1):
        size = 64 if x else 32
        for kind in range(14):
            if kind >= 10:
                for sh in list(range(size + 2)) + [1 << 32, (1 << 32) + 1, M64]:
                    cmds.append("X %d %d %d 0" % (kind, x, sh))
                continue
            full = kind in (2, 5, 6, 9) or tier == "thorough"
            for a in range(size + 2):
                for b in range(size + 2):
                    if full or rng.random() < 0.12 or a + b in (size - 1, size, size + 1) or b in (0, 1) or a == 0:
                        cmds.append("X %d %d %d %d" % (kind, x, a, b))
            for (a, b) in ((1 << 32, 1), (1, 1 << 32), ((1 << 32) + 1, 1), (1, (1 << 32) + 1), (M64, M64), (0, M64)):
                cmds.append("X %d %d %d %d" % (kind, x, a, b))
    # Y: x86 ALU group r/m, imm through the real x86::Assembler, at the int8 / int16 / int32 / uint32 limits (both signs)
    ypts = set()
    for base in (0, 31, 32, 63, 64, 257, 1 << 7, -(1 << 7), 1 << 8, 1 << 15, -(1 << 15), 1 << 16, 1 << 31, -(1 << 31), 1 << 32, -(1 << 32), (1 << 63) - 1, -(1 << 63),
                 0xFFFFFF80, 0xFFFF8000, 0xFF80, 0xFFFFFFFF, 0x7FFFFFFF):
        for d in (-2, -1, 0, 1, 2):
            if -(1 << 63) <= base + d < (1 << 63):
                ypts.add(base + d)
    for _ in range(40 if tier == "quick" else 2000):
        k = rng.randrange(1, 65)
        ypts.add(sext(rng.getrandbits(k), k))
    for imm in sorted(ypts):
        for op in range(10):   # ALU group, test, mov
            for size in (1, 2, 4, 8):
                for acc in (0, 1):
                    for (optsize, longform) in ((0, 0), (1, 0), (0, 1)):
                        if optsize and not (op in (4, 9) and size == 8):
                            continue
                        cmds.append("Y %d 0 %d %d %d %d %d" % (op, size, acc, optsize, longform, imm))
                for longform in (0, 1):
                    cmds.append("Y %d 1 %d 0 0 %d %d" % (op, size, longform, imm))
        for longform in (0, 1):
            for op in (12, 13, 14, 15):
                for size in (1, 2, 4, 8):
                    cmds.append("Y %d %d %d %d 0 %d %d" % (op, rng.randrange(2), size, rng.randrange(2), longform, imm))
        for op in (16, 17):
            for size in (2, 4, 8):
                cmds.append("Y %d %d %d %d 0 0 %d" % (op, rng.randrange(2), size, rng.randrange(2), imm))
        for longform in (0, 1):
            cmds.append("Y 11 0 8 0 0 %d %d" % (longform, imm))
            for size in (2, 4, 8):
                for form in (0, 1):
                    cmds.append("Y 10 %d %d %d 0 %d %d" % (form, size, rng.randrange(2), longform, imm))
    # E: is_encodable_offset_32/64 at exactly the limits of every bit count (both signs, +-2 around), plus random
    for w in (32, 64):
        for nb in range(1, w + 1):
            lim = 1 << (nb - 1)
            for base in (lim, -lim, 0):
                for d in (-2, -1, 0, 1, 2):
                    off = base + d
                    if -(1 << (w - 1)) <= off < (1 << (w - 1)):
                        cmds.append("E %d %d %d" % (w, off, nb))
            for _ in range(4 if tier == "quick" else 60):
                k = rng.randrange(1, w + 1)
                cmds.append("E %d %d %d" % (w, sext(rng.getrandbits(k), k), nb))
    # N: Support::is_int_n / is_uint_n for the instantiated N, at the limits (both signs) and random
    for kind in range(6):
        signed = kind in (0, 2, 4, 5)
        tw = 32 if kind in (4, 5) else 64
        lo_t, hi_t = (-(1 << (tw - 1)), (1 << (tw - 1)) - 1) if signed else (0, (1 << tw) - 1)
        for n in NLIST:
            pts = set([lo_t, hi_t, 0, 1, -1])
            for base in ((1 << (n - 1)), -(1 << (n - 1)), (1 << n), -(1 << n)):
                for d in (-1, 0, 1):
                    pts.add(base + d)
            for _ in range(6 if tier == "quick" else 100):
                k = rng.randrange(1, tw + 1)
                pts.add(sext(rng.getrandbits(k), k) if signed else rng.getrandbits(k))
            for x in sorted(pts):
                if lo_t <= x <= hi_t:
                    cmds.append("N %d %d %d" % (kind, n, x))
    return cmds


def limit_coverage(cmds):
    """Explicit coverage counters: for every signed-range format of the stream, is the LAST accepted value and the FIRST
    refused value present on both sides (the classical off-by-one places)?  Returns (counters, missing)."""
    have = set()
    for c in cmds:
        if c[0] == "V":
            t = c.split()
            have.add(tuple(map(int, t[1:7])))
    counters = {}; missing = []
    for (nm, ty, vs, bits, sh, dl) in USED_FORMATS + OTHER_FORMATS:
        if bits == 0 or bits > 8 * vs or vs == 3:
            continue
        name = TYN[ty]
        if name in ("signed", "adr", "adrp", "a32_blx", "t32_b", "t32_blx", "t32_bcond"):
            lim = (1 << (bits - 1)) << dl
            want = {"+limit (first refused)": lim, "+limit-1 (last accepted)": lim - (1 << dl),
                    "-limit (last accepted)": -lim, "-limit-1 (first refused)": -lim - (1 << dl)}
        elif name == "unsigned":
            lim = (1 << bits) << dl
            want = {"+limit (first refused)": lim, "+limit-1 (last accepted)": lim - (1 << dl), "0": 0, "-1 unit (refused)": -(1 << dl)}
        else:
            lim = (1 << bits) << dl
            want = {"+limit (first refused)": lim, "+limit-1": lim - (1 << dl), "-limit (first refused)": -lim, "-limit+1": -lim + (1 << dl)}
        for k, off in want.items():
            if not (-(1 << 63) <= off < (1 << 63)):
                continue
            ok = (ty, vs, bits, sh, dl, off) in have
            counters["%s: %s" % (nm, k)] = int(ok)
            if not ok:
                missing.append("%s: %s (offset %d)" % (nm, k, off))
    return counters, missing


def probe_t32(impl):
    """Which Thumb-2 branch packers does the tree have?  b.w +2 is 0x2801 architecturally (J1 at bit 13), 0x4801 in the pinned tree."""
    out = vlib.sh([impl], inp="V %d 4 24 0 1 2 0\nV %d 4 20 0 1 262144 0\n" % (TY["t32_b"], TY["t32_bcond"]))[1].split("\n")
    b = out[0].split(); bc = out[1].split()
    fb = b[:2] == ["V", "1"] and int(b[2]) == 0x2801
    fc = bc[:2] == ["V", "1"] and int(bc[2]) == 0x2000
    return ("f" if fb else "p") + ("f" if fc else "p")


def llvm_mc_t32_reference():
    """Independent validation of the oracle's Thumb-2 decoders (and of the fix): offsets assembled by llvm-mc
    (-triple=thumbv7) must decode, with decode_field, to the offset asked for.  Returns (n_checked, errors)."""
    cases = []
    offs_b = [2, -2, 4094, 4096, 1 << 21, 1 << 22, -(1 << 22), (1 << 23) - 2, (1 << 24) - 2, -(1 << 24)] + [1 << k for k in range(1, 24)] + [-(1 << k) for k in range(1, 25)]
    offs_x = [4, -4, 1 << 22, (1 << 24) - 4, -(1 << 24)] + [1 << k for k in range(2, 24)] + [-(1 << k) for k in range(2, 25)]
    offs_c = [2, -2, 1 << 17, 1 << 18, 1 << 19, (1 << 20) - 2, -(1 << 20), -(1 << 18)] + [1 << k for k in range(1, 20)] + [-(1 << k) for k in range(1, 21)]
    for o in offs_b:
        cases.append(("b.w", "t32_b", 24, 1, o)); cases.append(("bl", "t32_b", 24, 1, o))
    for o in offs_x:
        cases.append(("blx", "t32_blx", 23, 2, o))
    for o in offs_c:
        cases.append(("bne.w", "t32_bcond", 20, 1, o))
    src = "".join("%s #%d\n" % (c[0], c[4]) for c in cases)
    rc, out, err = vlib.sh(["llvm-mc", "-triple=thumbv7", "-show-encoding"], inp=src, timeout=60)
    encs = re.findall(r"encoding: \[([^\]]+)\]", out)
    if rc != 0 or len(encs) != len(cases):
        return 0, ["llvm-mc unavailable or rejected the reference input (rc=%s, %d/%d encodings)" % (rc, len(encs), len(cases))], []
    errors = []; ref = []
    for c, e in zip(cases, encs):
        by = [int(x, 16) for x in e.split(",")]
        w = ((by[0] | (by[1] << 8)) << 16) | (by[2] | (by[3] << 8))      # hw1:hw2, the layout of OffsetType::kThumb32_*
        got = decode_field(TY[c[1]], 4, c[2], 0, c[3], w)
        if got != c[4]:
            errors.append("%s #%d assembled by llvm-mc to %#010x, oracle decodes %d" % (c[0], c[4], w, got))
        ref.append((c[1], c[2], c[3], c[4], w & field_mask(TY[c[1]], 4, c[2], 0)))
    return len(cases), errors, ref


def judge(cmd, ans, logical_sets):
    """Independent judgement of ONE implementation answer. Returns None if the property holds on this input, else
    (key, description)."""
    c = cmd.split(); a = ans.split()
    if not a or a[0] != c[0]:
        return ("C17/protocol", "harness answered %r to %r" % (ans, cmd))
    if c[0] == "V":
        ty, vs, bits, sh, dl, off, old = map(int, c[1:8])
        ok, w = int(a[1]), int(a[2])
        name = TYN.get(ty)
        if bits == 0 or bits > 8 * vs or vs not in (1, 2, 4, 8):
            return None if not ok and w == old else ("C17/malformed-format-accepted", "%s accepted/changed" % cmd)
        fm = field_mask(ty, vs, bits, sh) & ((1 << (8 * vs)) - 1)
        if ok:
            if (w & ~fm) != (old & ~fm):
                return (KNOWN_BAD_TYPES.get(name) or "C17/%s/outside-bits-changed" % name, "%s -> word %#x changed bits outside the field (old %#x)" % (cmd, w, old))
            if old & fm == 0:
                got = decode_field(ty, vs, bits, sh, dl, w)
                want_off = (off & M64) if (name == "unsigned" and vs == 8) else off      # uint64 reading of 8-byte unsigned fields
                if got != want_off:
                    key = KNOWN_BAD_TYPES.get(name) or "C17/%s/wrong-field" % name
                    return (key, "%s (%s) stored %#x which denotes displacement %d, not %d" % (cmd, name, w, got, off))
            return None
        else:
            if w != old:
                return ("C17/%s/refused-but-wrote" % name, "%s refused but word changed" % cmd)
            e = encodable(ty, vs, bits, sh, dl, off)
            if e is True and not (vs < 8 and not (-(1 << 31) <= (off >> dl) < (1 << 31))):
                # the 32-bit encoder legitimately needs the discarded value to fit 32 bits; a field that fits always does
                return ("C17/%s/spurious-refusal" % name, "%s refused although the displacement is encodable" % cmd)
            return None
    if c[0] == "L":
        imm, m = int(c[1]), int(c[2])
        ok = int(a[1])
        v = imm & ((1 << m) - 1)
        if ok:
            n, s, r = int(a[2]), int(a[3]), int(a[4])
            d = decode_bit_masks(n, s, r, m) if 0 <= n < 2 and 0 <= s < 64 and 0 <= r < 64 else None
            if d != v:
                return ("C17/logical-imm/wrong-fields", "%s -> N=%d imms=%d immr=%d decodes to %s" % (cmd, n, s, r, d))
        elif v in logical_sets[m]:
            return ("C17/logical-imm/spurious-refusal", "%s refused but is a valid bitmask immediate" % cmd)
        return None
    if c[0] == "A":
        imm = int(c[1]); ok = int(a[1])
        exp = imm < 4096 or (imm & 0xFFF == 0 and (imm >> 12) < 4096)
        return None if bool(ok) == exp else ("C17/add-sub-imm", "%s -> %d" % (cmd, ok))
    if c[0] == "F":
        n, v = int(c[1]), int(c[2]); ok, e = int(a[1]), int(a[2])
        if n == 16:
            v &= 0xFFFF      # the half-precision functions take a uint32 and read the value from its low 16 bits
        valid = {vfp_expand(n, i): i for i in range(256)}
        if ok:
            if valid.get(v) != e:
                return ("C17/fp-imm8", "%s accepted -> imm8 %d (expected %s)" % (cmd, e, valid.get(v)))
        elif v in valid:
            return ("C17/fp-imm8", "%s refused but is VFPExpandImm(%d)" % (cmd, valid[v]))
        return None
    if c[0] == "B":
        v = int(c[1]); ok, e = int(a[1]), int(a[2])
        bm = all(((v >> (8 * k)) & 0xFF) in (0, 0xFF) for k in range(8))
        if bool(ok) != bm:
            return ("C17/byte-mask", "%s -> %d" % (cmd, ok))
        if ok and e != sum(1 << k for k in range(8) if (v >> (8 * k)) & 1):
            return ("C17/byte-mask", "%s -> imm8 %d" % (cmd, e))
        return None
    if c[0] == "I":
        v = int(c[1]); ok, e = int(a[1]), int(a[2])
        enc = False
        for rot in range(0, 32, 2):
            if v <= 0xFFFFFFFF and ((((v << rot) | (v >> (32 - rot))) & 0xFFFFFFFF) if rot else v) <= 0xFF:
                enc = True
        if bool(ok) != enc:
            return ("C17/a32-imm", "%s -> %d" % (cmd, ok))
        if ok:
            rot = 2 * (e >> 8); b = e & 0xFF
            d = ((b >> rot) | (b << (32 - rot))) & 0xFFFFFFFF if rot else b
            if d != v or e > 0xFFF:
                return ("C17/a32-imm", "%s -> %#x expands to %#x" % (cmd, e, d))
        return None
    if c[0] == "M":
        imm, rd, x, is64 = map(int, c[1:5])
        n = int(a[1]); ws = list(map(int, a[2:2 + n]))
        if not (1 <= n <= (4 if is64 else 2)):
            return ("C17/mov-seq", "%s -> %d words" % (cmd, n))
        if any((w & 31) != rd for w in ws):
            return ("C17/mov-seq", "%s -> wrong Rd" % cmd)
        for init in (0, M64, 0x123456789ABCDEF0):
            r = run_movwide(ws, init)
            want = imm if (is64 or x) else imm & 0xFFFFFFFF
            if r is None or r != want:
                return ("C17/mov-seq", "%s -> words %s leave %s in the register" % (cmd, [hex(w) for w in ws], None if r is None else hex(r)))
        return None
    if c[0] == "X":
        kind, x, va, vb = int(c[1]), int(c[2]), int(c[3]), int(c[4])
        ok, sf, nbit, immr, imms = map(int, a[1:6])
        size = 64 if x else 32; m = (1 << size) - 1
        nm = BF_NAMES[kind]
        if kind <= 6:
            valid = va < size and 1 <= vb <= size - va
        elif kind <= 9:
            valid = va < size and vb < size
        else:
            valid = va < size
        if not ok:
            return ("C17/bitfield/spurious-refusal", "%s (%s) refused although the operands are encodable" % (cmd, nm)) if valid else None
        if sf != x or nbit != x:
            return ("C17/bitfield/sf-N", "%s (%s) -> sf=%d N=%d" % (cmd, nm, sf, nbit))
        if not valid:
            key = "C17/bitfield/insert-overflows-register" if 3 <= kind <= 6 and va < size and 1 <= vb <= size else "C17/bitfield/invalid-operands-accepted"
            return (key, "%s (%s) accepted operands that have no encoding (immr=%d imms=%d)" % (cmd, nm, immr, imms))
        if kind == 13:
            # EXTR Rd, Rn, Rm, #lsb with Rm = Rn (= register 5 in the harness): result = (Rn:Rm)<lsb+size-1:lsb> = ROR(Rn, lsb)
            if immr != 5 or imms != va:
                return ("C17/bitfield/ror-fields", "%s (ror) -> Rm=%d imms=%d" % (cmd, immr, imms))
            for src in (m, 0x0123456789ABCDEF & m, 1, 1 << (size - 1)):
                got = (((src << size) | src) >> imms) & m
                want = ((src >> va) | (src << (size - va))) & m if va else src
                if got != want:
                    return ("C17/bitfield/wrong-fields", "%s (ror) -> EXTR lsb=%d of %#x gives %#x, the rotation is %#x" % (cmd, imms, src, got, want))
            return None
        if 7 <= kind <= 9:
            return None if (immr, imms) == (va, vb) else ("C17/bitfield/raw-fields", "%s -> immr=%d imms=%d" % (cmd, immr, imms))
        for src in (m, 0x0123456789ABCDEF & m, 0xF0E1D2C3B4A59687 & m, 1, 1 << (size - 1), 0xAAAAAAAAAAAAAAAA & m):
            got = ubfm_pseudocode(size, immr, imms, src)
            if kind <= 2:
                want = (src >> va) & ((1 << vb) - 1)
            elif kind <= 6:
                want = (src & ((1 << vb) - 1)) << va
            elif kind == 10:
                want = (src << va) & m
            else:
                want = src >> va
            if got != want:
                return ("C17/bitfield/wrong-fields", "%s (%s) -> immr=%d imms=%d: UBFM of %#x gives %s, the alias means %#x" % (cmd, nm, immr, imms, src, None if got is None else hex(got), want))
        return None
    if c[0] == "Y":
        op, form, size, acc, optsize, longform, imm = map(int, c[1:8])
        ok, has66, rexw, short, opc, immsize, field = map(int, a[1:8])
        nm = "%s %s, %d" % (X86_OPS[op], ("acc" if acc else "reg") + str(8 * size) if form == 0 else "m%d" % (8 * size), imm)
        int32 = -(1 << 31) <= imm < (1 << 31)
        and32 = op == 4 and form == 0 and 0 <= imm < (1 << 32)
        if op >= 8:
            return judge_test_mov(cmd, nm, op, form, size, acc, optsize, longform, imm, ok, has66, rexw, short, opc, immsize, field)
        if not ok:
            if size < 8 or int32 or and32:
                return ("C17/x86-arith/spurious-refusal", "%s (%s) refused although an encoding exists" % (cmd, nm))
            return None
        opsize = 8 if rexw else (2 if has66 else (1 if (opc == 0x80 or (short and opc & 1 == 0)) else 4))
        if opsize != size and not (size == 8 and opsize == 4 and and32):
            return ("C17/x86-arith/operand-size", "%s (%s) -> operand size %d" % (cmd, nm, opsize))
        if short:
            if not acc or form != 0 or opc != op * 8 + (4 if size == 1 else 5) or longform:
                return ("C17/x86-arith/short-form", "%s (%s) -> opcode %#x" % (cmd, nm, opc))
            want_sizes = (min(opsize, 4),)
        else:
            if opc not in (0x80, 0x81, 0x83) or (opc == 0x80) != (opsize == 1):
                return ("C17/x86-arith/opcode", "%s (%s) -> opcode %#x" % (cmd, nm, opc))
            want_sizes = (1,) if opc in (0x80, 0x83) else (min(opsize, 4),)
        if immsize not in want_sizes:
            return ("C17/x86-arith/imm-size", "%s (%s) -> opcode %#x with %d immediate bytes" % (cmd, nm, opc, immsize))
        eff = sext(field, 8 * immsize) & ((1 << (8 * opsize)) - 1)      # SDM: imm8/imm32 sign-extended to the operand size
        if eff != imm & ((1 << (8 * opsize)) - 1) or (size == 8 and opsize == 8 and not int32):
            key = "C17/x86-arith/mem64-imm-truncated" if form == 1 and size == 8 and not int32 else "C17/x86-arith/wrong-immediate"
            return (key, "%s (%s) -> opcode %#x imm%d = %#x: the CPU adds %#x, not %#x" % (cmd, nm, opc, 8 * immsize, field, eff, imm & ((1 << (8 * opsize)) - 1)))
        if not longform and not short and immsize != 1 and opsize > 1 and opsize == size and -128 <= (sext(imm, 32) if opsize == 4 else imm) < 128:
            return ("C17/x86-arith/imm8-not-used", "%s (%s) -> imm%d although imm8 suffices" % (cmd, nm, 8 * immsize))
        return None
    if c[0] == "E":
        w, off, nb = int(c[1]), int(c[2]), int(c[3]); ok = int(a[1])
        exp = -(1 << (nb - 1)) <= off < (1 << (nb - 1))
        return None if bool(ok) == exp else ("C17/is-encodable-offset-%d" % w, "%s -> %d (a signed %d-bit field %s hold %d)" % (cmd, ok, nb, "can" if exp else "cannot", off))
    if c[0] == "N":
        kind, n, x = int(c[1]), int(c[2]), int(c[3]); ok = int(a[1])
        if kind in (4, 5):
            x = sext(x, 32)
        exp = (-(1 << (n - 1)) <= x < (1 << (n - 1))) if kind in (0, 1, 4) else (0 <= x < (1 << n))
        return None if ok == int(exp) else ("C17/is-%sint-n" % ("" if kind in (0, 1, 4) else "u"), "%s -> %d (expected %d)" % (cmd, ok, int(exp)))
    if c[0] == "H":
        sz, idx = int(c[1]), int(c[2]); ok = int(a[1])
        exp = sz in (1, 2) and idx <= (15 >> sz)
        if bool(ok) != exp:
            return ("C17/lmh", "%s -> %d" % (cmd, ok))
        if ok:
            lm, h = int(a[2]), int(a[3])
            back = (h << 2 | lm) if sz == 1 else (h << 1 | lm >> 1)
            if back != idx or (sz == 2 and lm & 1):
                return ("C17/lmh", "%s -> lm=%d h=%d" % (cmd, lm, h))
        return None
    return None


def model_cmd(model):
    return [model, T32_VARIANT["v"], X86_MEM_CHECKED["v"], X86_TM_CHECKED["v"]]


def targeted_layout_search(impl, logical_sets):
    """The layout tie broke (translator cannot read the source / extracted table differs): search the formats of the table for
    a concrete failing displacement -- every single-bit offset of both signs, the limits, with zero and all-ones old bits outside
    the field -- judged by the architectural oracle.  Returns (cmd, answer, (key, what)) or None."""
    cmds = []
    for (nm, ty, vs, bits, sh, dl) in USED_FORMATS + OTHER_FORMATS:
        if TYN[ty] not in LAYOUT_TYPE_TO_TY.values() or vs != 4:
            continue
        fm = field_mask(ty, vs, bits, sh)
        offs = set([0])
        for k in range(0, bits + dl + 1):
            for sgn in (1, -1):
                for d in (-1, 0, 1):
                    offs.add(sgn * (1 << k) + (d << dl))
        for off in sorted(offs):
            for old in (0, 0xFFFFFFFF & ~fm):
                cmds.append("V %d %d %d %d %d %d %d" % (ty, vs, bits, sh, dl, off, old))
    outs = vlib.sh([impl], inp="\n".join(cmds) + "\n", timeout=300)[1].split("\n")
    for c, a in zip(cmds, outs):
        j = judge(c, a, logical_sets)
        if j is not None:
            return (c, a, j)
    return None


def probe_x86_test_mov(impl):
    """Are `test rax, 0x100000000`, `test qword ptr [rcx], 0x100000000`, `mov qword ptr [rcx], 0x100000000` refused (fixed) or truncated (pinned)?"""
    out = vlib.sh([impl], inp="Y 8 0 8 1 0 0 4294967296\nY 8 1 8 0 0 0 4294967296\nY 9 1 8 0 0 0 4294967296\n"
                               "Y 10 0 8 1 0 0 4294967296\nY 10 1 8 1 0 0 4294967296\nY 11 0 8 0 0 0 4294967296\n")[1].split("\n")
    return "c" if all(o.split()[:2] == ["Y", "0"] for o in out[:6]) else "u"


def probe_x86_mem(impl):
    """Does `add qword ptr [rcx], 0x100000000` get refused (fixed) or truncated to imm32 = 0 (pinned)?"""
    out = vlib.sh([impl], inp="Y 0 1 8 0 0 0 4294967296\n")[1].split()
    return "c" if out[:2] == ["Y", "0"] else "u"


def judge_test_mov(cmd, nm, op, form, size, acc, optsize, longform, imm, ok, has66, rexw, short, opc, immsize, field):
    """TEST r/m, imm (A8/A9, F6/F7 /0) and MOV r/m, imm (B0+r, B8+r, C6/C7 /0) per the SDM."""
    int32 = -(1 << 31) <= imm < (1 << 31)
    mask = lambda n: (1 << (8 * n)) - 1
    if op >= 12:
        # shifts / rotates / double shifts: the CPU masks the count to 5 bits (6 with REX.W); the requested count is imm
        if not ok:
            return ("C17/x86-imm/spurious-refusal", "%s (%s) refused although an encoding exists" % (cmd, nm))
        byteop = opc in (0xC0, 0xD0)
        opsize = 8 if rexw else (2 if has66 else (1 if byteop else 4))
        cmask = 63 if size == 8 else 31
        if op >= 16:
            good = opc == (0x0FA4 if op == 16 else 0x0FAC) and immsize == 1 and not short
            count = field & cmask
        else:
            good = not short and ((opc in (0xD0, 0xD1) and immsize == 0 and not longform) or (opc in (0xC0, 0xC1) and immsize == 1)) and \
                (opc in (0xC0, 0xD0)) == (size == 1)
            count = 1 if immsize == 0 else field & cmask
        if not good or opsize != size:
            return ("C17/x86-imm/shift-opcode", "%s (%s) -> 66=%d REX.W=%d opcode %#x with %d immediate bytes" % (cmd, nm, has66, rexw, opc, immsize))
        if count != imm % (cmask + 1):
            return ("C17/x86-imm/shift-count", "%s (%s) -> opcode %#x ib = %#x: the CPU shifts by %d, the requested count masks to %d" % (cmd, nm, opc, field, count, imm % (cmask + 1)))
        return None
    if op in (10, 11):
        if op == 11:
            size = 8
        if not ok:
            return None if (size == 8 and not int32) else ("C17/x86-imm/spurious-refusal", "%s (%s) refused although an encoding exists" % (cmd, nm))
        if op == 11:
            good_opc = opc in (0x68, 0x6A) and short and not has66 and immsize == (1 if opc == 0x6A else 4)
            opsize = 8
        else:
            opsize = 8 if rexw else (2 if has66 else 4)
            good_opc = opc in (0x69, 0x6B) and not short and opsize == size and immsize == (1 if opc == 0x6B else min(size, 4))
        if not good_opc or (longform and immsize == 1):
            return ("C17/x86-imm/opcode", "%s (%s) -> 66=%d REX.W=%d opcode %#x with %d immediate bytes" % (cmd, nm, has66, rexw, opc, immsize))
        eff = sext(field, 8 * immsize) & mask(opsize)
        if eff != imm & mask(opsize):
            key = "C17/x86-imm/%s-imm64-truncated" % X86_OPS[op] if size == 8 and not int32 else "C17/x86-imm/wrong-immediate"
            return (key, "%s (%s) -> opcode %#x imm%d = %#x: the CPU uses %#x, not %#x" % (cmd, nm, opc, 8 * immsize, field, eff, imm & mask(opsize)))
        return None
    if op == 8 or form == 1:
        if not ok:
            return None if (size == 8 and not int32) else ("C17/x86-imm/spurious-refusal", "%s (%s) refused although an encoding exists" % (cmd, nm))
        byteop = opc in (0xA8, 0xF6, 0xC6)
        opsize = 8 if rexw else (2 if has66 else (1 if byteop else 4))
        if opsize != size:
            return ("C17/x86-imm/operand-size", "%s (%s) -> operand size %d" % (cmd, nm, opsize))
        if op == 8:
            want = (0xA8 if size == 1 else 0xA9) if short else (0xF6 if size == 1 else 0xF7)
            if short and (not acc or form != 0 or longform):
                return ("C17/x86-imm/short-form", "%s (%s) -> opcode %#x" % (cmd, nm, opc))
        else:
            want = 0xC6 if size == 1 else 0xC7
            if short:
                return ("C17/x86-imm/short-form", "%s (%s) -> opcode %#x" % (cmd, nm, opc))
        if opc != want or immsize != min(size, 4):
            return ("C17/x86-imm/opcode", "%s (%s) -> opcode %#x with %d immediate bytes" % (cmd, nm, opc, immsize))
        eff = sext(field, 8 * immsize) & mask(size)
        if eff != imm & mask(size):
            key = "C17/x86-imm/%s-imm64-truncated" % ("test" if op == 8 else "mov-m64") if size == 8 and not int32 else "C17/x86-imm/wrong-immediate"
            return (key, "%s (%s) -> opcode %#x imm%d = %#x: the CPU uses %#x, not %#x" % (cmd, nm, opc, 8 * immsize, field, eff, imm & mask(size)))
        return None
    # MOV reg, imm: always encodable
    if not ok:
        return ("C17/x86-imm/spurious-refusal", "%s (%s) refused although an encoding exists" % (cmd, nm))
    rid = 0 if acc else 1
    if 0xB0 <= opc <= 0xB7:
        good = size == 1 and immsize == 1 and opc == 0xB0 + rid and field == imm & 0xFF and not rexw and not has66
    elif 0xB8 <= opc <= 0xBF:
        opsize = 8 if rexw else (2 if has66 else 4)
        good = opc == 0xB8 + rid and immsize == opsize and (
            (opsize == size and field == imm & mask(size)) or (size == 8 and opsize == 4 and not longform and 0 <= imm < (1 << 32) and field == imm))
    elif opc == 0xC7:
        good = size == 8 and rexw and immsize == 4 and not short and not longform and (sext(field, 32) & mask(8)) == imm & mask(8)
    else:
        good = False
    if not good:
        return ("C17/x86-imm/mov-reg-wrong", "%s (%s) -> 66=%d REX.W=%d opcode %#x imm%d = %#x does not load %#x" % (cmd, nm, has66, rexw, opc, 8 * immsize, field, imm & mask(size)))
    return None


def run_pair(ck, impl, model, cmds, shards=16):
    """Run the same commands through implementation and model (sharded); returns (impl_lines, model_lines)."""
    chunks = [cmds[i::shards] for i in range(shards)]

    def one(args):
        exe, chunk = args
        rc, out, err = vlib.sh(exe if isinstance(exe, list) else [exe], inp="\n".join(chunk) + "\n", timeout=3000)
        lines = out.split("\n")[:-1]
        if rc != 0 or len(lines) != len(chunk) or "GUARD-BROKEN" in out:
            return ("ERR", rc, (out[-500:] + err[-500:]))
        return lines
    with ThreadPoolExecutor(max_workers=2 * shards) as ex:
        fi = [ex.submit(one, (impl, c)) for c in chunks]
        fm = [ex.submit(one, (model_cmd(model), c)) for c in chunks]
        ri = [f.result() for f in fi]
        rm = [f.result() for f in fm]

    def merge(rs):
        out = [None] * len(cmds)
        for i, r in enumerate(rs):
            if isinstance(r, tuple):
                return r
            out[i::shards] = r
        return out
    return merge(ri), merge(rm)


def localise(ck, impl, model, cmd):
    """An R summary differs: expand into single V commands and return the differing ones."""
    c = cmd.split()
    ty, vs, bits, sh, dl, lo, cnt, step, old = map(int, c[1:10])
    out = []
    lo_i, n = lo, cnt
    # bisect on halves using R, then enumerate <= 4096 singles
    while n > 4096:
        half = n // 2
        a = "R %d %d %d %d %d %d %d %d %d" % (ty, vs, bits, sh, dl, lo_i, half, step, old)
        ri = vlib.sh([impl], inp=a + "\n")[1].strip(); rm = vlib.sh(model_cmd(model), inp=a + "\n")[1].strip()
        if ri != rm:
            n = half
        else:
            lo_i = sext(lo_i + half * step, 64); n = n - half
    singles = ["V %d %d %d %d %d %d %d" % (ty, vs, bits, sh, dl, sext(lo_i + i * step, 64), old) for i in range(n)]
    ri = vlib.sh([impl], inp="\n".join(singles) + "\n")[1].split("\n")
    rm = vlib.sh(model_cmd(model), inp="\n".join(singles) + "\n")[1].split("\n")
    for s, x, y in zip(singles, ri, rm):
        if x != y:
            out.append((s, x, y))
    return out


def run(ck):
    rng = random.Random(ck.seed)
    # ---- translator tie: the field layouts of encode_offset32, re-extracted from the source text of the working tree
    gen_dir = None; layout_broken = None; layout_info = {"status": "same as committed snapshot"}
    broken_theorems = {}      # theorem name -> why
    layouts = fixup = arm = None
    try:
        layouts, text_changes = c17_layouts.extract(vlib.REPO)
    except c17_layouts.TranslatorError as e:
        layout_broken = "tools/c17_layouts.py cannot read encode_offset32 any more: %s" % e
        broken_theorems["C17_layouts_current"] = layout_broken
        text_changes = []
    try:
        fixup = c17_layouts.extract_fixup(vlib.REPO)
    except c17_layouts.TranslatorError as e:
        broken_theorems["C17_fixup_current"] = "tools/c17_layouts.py cannot read fixup.h any more: %s" % e
    try:
        arm = c17_layouts.extract_armutils(vlib.REPO)
    except c17_layouts.TranslatorError as e:
        broken_theorems["C17_armutils_current"] = "tools/c17_layouts.py cannot read armutils.h any more: %s" % e
    used = None
    try:
        used = c17_layouts.extract_used_formats(vlib.REPO)
        # the formats the stream sweeps as "used by the backends" must contain every extracted one
        have = set((TYN_COQ[u[0]],) + tuple(u[1:]) for u in used)
        swept = set((ty, vs, bits, sh, dl) for (nm, ty, vs, bits, sh, dl) in USED_FORMATS + OTHER_FORMATS)
        for u in sorted(have - swept):
            ck.violation("C17/generator/used-format-not-swept", "the backends build the format %s, which the stream does not sweep" % (u,),
                         {"format": list(u), "broken": "USED_FORMATS of tools/checks/c17.py"}, no_input=True)
    except c17_layouts.TranslatorError as e:
        broken_theorems["C17_used_formats_current"] = "tools/c17_layouts.py cannot read the reset_to_* call sites any more: %s" % e
    bfr = None
    try:
        bfr = c17_layouts.extract_bf_rules(vlib.REPO)
    except c17_layouts.TranslatorError as e:
        broken_theorems["C17_bf_rules_current"] = "tools/c17_layouts.py cannot read the bit-field alias cases of a64assembler.cpp any more: %s" % e
    if layouts is not None and fixup is not None and arm is not None and used is not None and bfr is not None:
        regen = ck.coq_regen({"C17Layouts.v": c17_layouts.render(layouts, fixup, arm, used, bfr)}, order=["C17Layouts.v"])
        if regen is not None:
            gen_dir, failed, rlog = regen
            layout_info["status"] = "differs from committed snapshot, recompiled"
            if failed:
                gen_dir = None
                # which of the three reflexivity lemmas is it?  compare each rendered part with the committed text
                committed = open(os.path.join(vlib.COQ, "gen", "C17Layouts.v")).read()
                parts = {"C17_layouts_current": c17_layouts.render(layouts).split("Definition gen_layouts", 1)[1],
                         "C17_fixup_current": c17_layouts.render(layouts, fixup).split("Definition gen_otype_order", 1)[1],
                         "C17_armutils_current": c17_layouts.render(layouts, fixup, arm).split("Definition gen_fp_params", 1)[1],
                         "C17_used_formats_current": c17_layouts.render(layouts, fixup, arm, used).split("Definition gen_used_formats", 1)[1].split("(* asmjit/arm/a64assembler.cpp")[0],
                         "C17_bf_rules_current": c17_layouts.render(layouts, fixup, arm, used, bfr).split("Definition gen_bf_rules", 1)[1]}
                for k_ in ("C17_layouts_current", "C17_fixup_current", "C17_armutils_current"):
                    parts[k_] = parts[k_].split("\n(* ")[0]
                for thm, part in parts.items():
                    if part not in committed:
                        broken_theorems[thm] = "the data extracted from the source are not the ones the theorems are about: " + rlog[-500:]
                if "C17_layouts_current" in broken_theorems:
                    layout_broken = broken_theorems["C17_layouts_current"]
    for (key, got, want) in text_changes:
        ck.violation("C17/translator/case-text-changed/" + key, "encode_offset32 case %s reads %r; the model was transcribed from %r" % (key, got, want),
                     {"case": key, "now": got, "transcribed_from": want, "broken": "hand transcription of the case in OffsetModel.v"}, no_input=True)
    if layouts is not None:
        # the masks the source implies must be the masks the python oracle judges with (two independent descriptions)
        for tname, m in c17_layouts.masks(layouts).items():
            tyn = LAYOUT_TYPE_TO_TY[tname]
            bits = {"t32_adr": 12, "t32_blx": 23, "t32_b": 24, "t32_bcond": 20, "a32_u23_split": 8, "a32_blx": 25, "adr": 21, "adrp": 21}[tyn]
            om = field_mask(TY[tyn], 4, bits, 5 if tyn in ("adr", "adrp") else 0)
            if om != m:
                ck.violation("C17/translator/mask-vs-oracle/" + tyn, "the source text of case %s sets bits %#x, the architectural field mask is %#x" % (tname, m, om),
                             {"type": tname, "source_mask": m, "oracle_mask": om, "broken": "field layout of " + tname}, no_input=True)
        layout_info["masks"] = {k: hex(v) for k, v in c17_layouts.masks(layouts).items()}
    layout_info["extracted"] = {"layout_cases": None if layouts is None else len(layouts),
                                "offset_type_enumerators": None if fixup is None else len(fixup[0]),
                                "sign_bit_types": None if fixup is None else len(fixup[1]),
                                "fp8_parameter_rows": None if arm is None else len(arm[0]),
                                "formats_built_by_the_backends": None if used is None else len(used),
                                "bit_field_alias_rules": None if bfr is None else len(bfr)}
    # ---- which hand transcription is stale?  (names the function and the first differing statement; the verdict on the
    # behaviour comes from the stream and the theorems)
    stale, n_regions = c17_transcribed.compare(vlib.REPO)
    for (name, modelfile, desc) in stale:
        ck.violation("C17/transcription-stale/" + name.replace(" ", "-"),
                     "the C++ of %s changed since %s was transcribed from it: %s" % (name, modelfile, desc),
                     {"region": name, "model": modelfile, "detail": desc, "broken": "hand transcription " + modelfile}, no_input=True)
    obl = ck.coq_properties(gen_dir=gen_dir)
    if broken_theorems:
        layout_info["status"] = "BROKEN: " + ", ".join(sorted(broken_theorems))
        for o in obl:
            if o["name"] in broken_theorems:
                o["ok"] = False
    ck.log("layout translator: %s; theorems: %d, failed: %d" % (layout_info["status"], len(obl), len([o for o in obl if not o["ok"]])))
    impl = ck.build_harness("c17", ["c17_harness.cpp"])
    model = ck.ocaml_model("Extract_Codec.v", ["zconv.ml", "c17_driver.ml"], name="c17")
    logical_sets = {32: all_logical(32), 64: all_logical(64)}
    T32_VARIANT["v"] = probe_t32(impl)
    X86_MEM_CHECKED["v"] = probe_x86_mem(impl)
    X86_TM_CHECKED["v"] = probe_x86_test_mov(impl)
    ck.log("Thumb-2 branch packers of the tree: %s; x86 ALU (Mem, Imm) qword int32 test: %s; TEST r/m64 / MOV m64 / IMUL / PUSH int32 test: %s" % (
        T32_VARIANT["v"], {"c": "present", "u": "absent"}[X86_MEM_CHECKED["v"]], {"c": "present", "u": "absent"}[X86_TM_CHECKED["v"]]))

    if ck.replay:
        import json
        rp = json.load(open(ck.replay))
        cmds = rp["replay"].get("commands") or [rp["replay"]["command"]]
        for c in cmds:
            print("input:", c); print(" impl :", vlib.sh([impl], inp=c + "\n")[1].strip()); print(" model:", vlib.sh(model_cmd(model), inp=c + "\n")[1].strip())
            j = judge(c, vlib.sh([impl], inp=c + "\n")[1].strip(), logical_sets)
            print(" oracle:", "property holds" if j is None else j)
        return 0

    cmds = gen_stream(rng, ck.tier)
    # corpus first
    corpus = os.path.join(vlib.VERIF, "corpus", "C17.txt")
    if os.path.exists(corpus):
        cmds = [l.strip() for l in open(corpus) if l.strip() and not l.startswith("#")] + cmds
    ck.log("stream: %d commands" % len(cmds))
    lim_counters, lim_missing = limit_coverage(cmds)
    if lim_missing:
        ck.violation("C17/generator/limits-not-covered", "the generated stream misses limit cases: %s" % lim_missing[:5],
                     {"broken": "generator coverage of the field limits", "missing": lim_missing[:20]}, no_input=True)
    # independent reference for the Thumb-2 decoders of the oracle (and, in a fixed tree, for the implementation): llvm-mc
    n_ref, ref_errors, ref = llvm_mc_t32_reference()
    for e in ref_errors[:5]:
        ck.violation("C17/oracle/t32-decoder-vs-llvm-mc", e, {"broken": "python oracle decode_field (Thumb-2) vs llvm-mc"}, no_input=True)
    ref_cmds = ["V %d 4 %d 0 %d %d 0" % (TY[t], bits, dl, off) for (t, bits, dl, off, w) in ref]
    if ref_cmds:
        outs = vlib.sh([impl], inp="\n".join(ref_cmds) + "\n")[1].split("\n")
        for (t, bits, dl, off, w), c, o in zip(ref, ref_cmds, outs):
            a = o.split()
            if a[:2] == ["V", "1"] and int(a[2]) != w:
                key = KNOWN_BAD_TYPES.get(t) or "C17/%s/wrong-field" % t
                ck.violation(key, "%s (%s) stored %#x, llvm-mc -triple=thumbv7 encodes the same displacement as %#x" % (c, t, int(a[2]), w),
                             {"command": c, "impl": o, "llvm_mc_field": w})
            elif a[:2] != ["V", "1"]:
                ck.violation("C17/%s/spurious-refusal" % t, "%s refused, llvm-mc encodes it as %#x" % (c, w), {"command": c, "impl": o})
    n_z, bad_z = cross_validate_pseudocode(ck, model, rng, 3000 if ck.tier == "quick" else 100000)
    ri, rm = run_pair(ck, impl, model, cmds)
    if isinstance(ri, tuple) or isinstance(rm, tuple):
        bad = ri if isinstance(ri, tuple) else rm
        ck.violation("C17/harness-crash", "harness or model driver failed: %s" % (bad,), {"commands": cmds[:5], "detail": str(bad)}, no_input=True)
        ri = rm = []
    kinds = {}
    n_single = 0; evaluations = 0; disagreements = 0; nontrivial = set()
    for cmd, x, y in zip(cmds, ri, rm):
        k = cmd[0]
        kinds[k] = kinds.get(k, 0) + 1
        if k == "R":
            evaluations += int(cmd.split()[7])
            if int(x.split()[1]) > 0:
                nontrivial.add(cmd)
        else:
            evaluations += 1
            if x.split()[1:2] != ["0"]:
                nontrivial.add(cmd)
        if x != y:
            disagreements += 1
            if k == "T":
                ck.violation("C17/enum-order", "OffsetType enumerators renumbered: impl %s model %s (model constructor order no longer matches)" % (x, y),
                             {"command": cmd, "impl": x, "model": y, "broken": "correspondence C17 stream (enum order)"}, no_input=True)
                continue
            singles = localise(ck, impl, model, cmd) if k == "R" else [(cmd, x, y)]
            found = False
            for (s, xi, yi) in singles[:50]:
                j = judge(s, xi, logical_sets)
                if j is not None:
                    found = True
                    ck.violation(j[0], j[1] + " [model says: %s]" % yi, {"command": s, "impl": xi, "model": yi})
            if not found:
                s, xi, yi = singles[0] if singles else (cmd, x, y)
                ck.violation("C17/correspondence/" + k, "implementation and proven model disagree on %r (impl %r, model %r); the independent oracle found "
                             "no violated input among %d differing cases" % (s, xi, yi, len(singles)),
                             {"command": s, "impl": xi, "model": yi, "broken": "correspondence of Codec model (coq/theories/Codec) with /repo"}, no_input=True)
        if k not in ("R", "T"):
            n_single += 1
            j = judge(cmd, x, logical_sets)
            if j is not None:
                ck.violation(j[0], j[1], {"command": cmd, "impl": x, "model": y})
    layout_witness = None
    if layout_broken or any(x[0] == "encode_offset32" for x in stale):
        layout_witness = targeted_layout_search(impl, logical_sets)
    for o in ck.proof_failures():
        if o["name"] == "C17_layouts_current" and layout_broken and layout_witness is not None:
            c_, a_, j_ = layout_witness
            ck.violation("C17/proof/" + o["name"], "theorem %s no longer checks (%s); concrete failing input found by the targeted search: %s" % (o["name"], layout_broken[-300:], j_[1]),
                         {"broken": "theorem " + o["name"], "command": c_, "impl": a_, "oracle": list(j_)})
            continue
        ck.violation("C17/proof/" + o["name"], "theorem %s no longer checks (%s)" % (o["name"], (broken_theorems.get(o["name"]) or getattr(ck, "coq_log", ""))[-800:]),
                     {"broken": "theorem " + o["name"], "file": "coq/theories/Properties/Properties_C17.v"}, no_input=True)
    samples = [{"cmd": c, "impl": x, "model": y} for c, x, y in list(zip(cmds, ri, rm))[:3] + list(zip(cmds, ri, rm))[len(cmds) // 2: len(cmds) // 2 + 3]]
    return ck.finish(
        "proof",
        {"evaluations": evaluations, "distinct_nontrivial": len(nontrivial),
         "rule": "commands T/R/V/L/A/F/B/I/M/H/X/Y/E/N generated from VERIF_SEED (ranges enumerate whole fields up to 2^17 offsets (quick; larger fields: dense 8192-offset windows at both limits and 0, a window in discard units, and a strided pass) / 2^22 (thorough) offsets per format, "
                 "dense at the limits; all logical-immediate values, all fp8, all A32 immediates, all 81 half-word classes); a case is non-trivial when the "
                 "encoder accepted at least one value of it (distinct command lines counted)",
         "proved_for_every_value": "Properties_C17.v: every OffsetType round trip / refusal / bits outside the mask (all int64 offsets), logical, fp8, add/sub, "
                                   "byte-mask, A32 modified immediates in both directions, move-wide sequences, is_int_n / is_encodable_offset, bit-field aliases "
                                   "against the UBFM/SBFM/BFM pseudo-code (every register content), x86 ALU/TEST/MOV/IMUL/PUSH immediates (every int64 immediate); "
                                   "the layout table denotes the model's packers (every uint32 value) and equals the table re-extracted from codewriter.cpp",
         "compared_on_stream": "the command counts below are what was COMPARED (real code vs extracted model, and real code vs python oracle) on this run: "
                               "whole fields up to 2^17 (quick) / 2^22 (thorough) offsets, dense windows at every field limit, every logical-immediate value, "
                               "every fp8 / byte-mask / A32 encoding, every (lsb,width) of the bit-field aliases, the x86 immediates at every size limit",
         "samples": samples, "commands_by_kind": kinds, "single_cases_judged_by_oracle": n_single,
         "traces_validated_against_impl": len(cmds), "model_vs_impl_disagreements": disagreements,
         "formats": [f[0] for f in USED_FORMATS + OTHER_FORMATS],
         "limit_cases_present": lim_counters, "limit_cases_total": len(lim_counters), "limit_cases_missing": len(lim_missing),
         "layout_translator": layout_info, "transcribed_regions_compared_with_snapshot": n_regions, "transcribed_regions_changed": [x[0] for x in stale], "t32_variant_of_tree": T32_VARIANT["v"], "x86_mem_imm64_test_of_tree": X86_MEM_CHECKED["v"], "x86_test_mov_imm64_test_of_tree": X86_TM_CHECKED["v"],
         "bfm_pseudocode_cross_validation_cases": n_z, "bfm_pseudocode_cross_validation_mismatches": bad_z, "llvm_mc_t32_reference_cases": n_ref, "llvm_mc_t32_reference_errors": len(ref_errors)},
        assumptions=["the C++ harness calls the real functions of /repo's working tree (CodeWriterUtils::write_offset, arm::Utils::*, "
                     "a64 encode_mov_sequence_*/encode_lmh via #include of a64assembler.cpp)",
                     "theorems are about the Gallina model; the model is tied to the code by the differential run of this check",
                     "architectural decoders (Coq: OffsetModel.v/ImmModel.v; python oracle: tools/checks/c17.py) were written by hand from the ARM ARM / Intel SDM"],
        checker_cmd="coqc (Coq 8.16.1) -Q coq/theories Verif coq/theories/Properties/Properties_C17.v  [full .vo build of its dependencies]",
        trusted_base=["Coq 8.16.1 kernel incl. vm_compute (no native_compute)", "no axioms: every theorem 'Closed under the global context'",
                      "extraction (ExtrOcamlBasic only) + OCaml 4.13.1 + zarith glue in ml/zconv.ml", "harness/c17_harness.cpp, tools/checks/c17.py (generator, differ, python oracle)"])

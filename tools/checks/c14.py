"""C14 — Invalid input is rejected with an error and leaves emitter state untouched.

S2 theorems  : coq/theories/Properties/Properties_C14.v (re-checked by coqc on every run): atomicity of a failed call, one-shot
               state cleared, error reported exactly once (also by a throwing handler), fresh-emitter equivalence of any history,
               bounds of every table look-up indexed by operand fields.
S3 tie       : (translator) tools/c14_tables.py + harness/c14_dump.cpp re-extract the look-up tables / index ranges / instruction
               table indices from the working tree -> coq/gen/C14Tables.v, reflection lemmas re-checked;
               (correspondence) harness/c14_harness.cpp drives the REAL emitters under ASan+UBSan with generated sessions, the extracted
               model (coq/extract/Extract_EmitState.v + ml/c14_driver.ml) consumes the same call stream; outcomes and the state
               after every call are diffed.
S4 search    : independent monitors on the implementation's answers (this file: `monitor`): snapshot before/after every failed call,
               handler call count, exception, one-shot state, fresh-emitter replay (done by the harness on the real code),
               "accepted an instruction naming a register that does not exist", sanitizer aborts (located to the call).
"""
import json
import os
import re
import sys
from concurrent.futures import ProcessPoolExecutor

import vlib
import c14_tables

ARCH = {0: "x86-32", 1: "x86-64", 2: "a64"}
FL = {0: "assembler", 1: "builder", 2: "compiler"}
HK = {0: "none", 1: "return", 2: "record", 3: "throw"}
E_INVALID_DISPLACEMENT = None   # filled from the T line


def strip_hash(s):
    return re.sub(r" h=\w+", "", s)


def field_of(snap, k):
    m = re.search(r"(?:^| )%s=(\S+)" % k, snap)
    return m.group(1) if m else None


def snapshot_diff(impl, model):
    """Which parts of `R ret calls herr thrown | S <snapshot>` differ (for the report of a disagreement)."""
    out = []
    ri, _, si = impl.partition(" | S ")
    rm, _, sm = model.partition(" | S ")
    for name, x, y in zip(("ret", "handler_calls", "handler_error", "thrown"), ri.split()[1:], rm.split()[1:]):
        if x != y:
            out.append("%s impl=%s model=%s" % (name, x, y))
    for k in ("cur", "sz", "lab", "fix", "rel", "adr", "nod", "one"):
        if field_of(si, k) != field_of(sm, k):
            out.append("%s impl=%s model=%s" % (k, field_of(si, k), field_of(sm, k)))
    return out


def one_of(snap):
    m = re.search(r" one=(\S+)", snap)
    return m.group(1)


def persistent_of(snap):
    """snapshot without the one-shot part (hash of section bytes and node contents included)"""
    return re.sub(r" one=\S+", "", snap)


def monitor(hdr, cmd, pre, res, post, info, tconst):
    """Independent judgement of ONE call of the implementation. hdr: dict(fl, arch, h). Returns list of (key, what)."""
    out = []
    ret, calls, herr, thrown = res
    fl, arch, hk = hdr["fl"], hdr["arch"], hdr["h"]
    where = "%s/%s" % (ARCH[arch], FL[fl])
    kind = "I" if cmd[0] in ("J", "K", "V", "PP", "LS", "SH", "V2", "LP", "MV", "LV", "VR") else cmd[0]
    failed = ret != 0 or thrown
    setter = kind in ("O", "X", "M")
    if failed:
        if kind == "B" and fl == 0 and ret == tconst["kInvalidDisplacement"] and persistent_of(pre) != persistent_of(post):
            out.append(("C14/bind-invalid-displacement-binds-label",
                        "bind() reported kInvalidDisplacement but the label is bound afterwards (%s)" % where))
        elif persistent_of(pre) != persistent_of(post):
            out.append(("C14/%s/%s/state-changed-by-failed-call" % (where, kind),
                        "a failed call (error %d) changed the emitter/holder state: before [%s] after [%s]" % (ret, pre, post)))
        if kind == "I" and one_of(post) != "0:0:0:0":
            out.append(("C14/%s/one-shot-state-not-cleared" % where, "after a failed instruction the one-shot state is %s" % one_of(post)))
        if kind in ("B", "CP"):
            # bind (also the one inside embed_const_pool) resets the inline comment even when it fails; nothing else may change
            if one_of(post) != one_of(pre) and one_of(post) != one_of(pre)[:-1] + "0":
                out.append(("C14/%s/%s/one-shot-state-touched" % (where, kind), "a failed %s call changed more than the inline comment of the one-shot state" % kind))
        elif kind != "I" and one_of(post) != one_of(pre):
            out.append(("C14/%s/%s/one-shot-state-touched" % (where, kind), "a failed %s call changed the one-shot state" % kind))
        if kind != "NS":
            exp_calls = 0 if hk == 0 else 1
            if calls != exp_calls:
                out.append(("C14/%s/%s/handler-called-%d-times" % (where, kind, calls),
                            "error %d of a failed call reached the error handler %d times (handler kind %s, expected %d)" % (ret, calls, HK[hk], exp_calls)))
            elif hk != 0 and kind not in ("L", "NL") and herr != ret:
                out.append(("C14/%s/%s/handler-got-other-error" % (where, kind), "returned %d, handler saw %d" % (ret, herr)))
            if bool(thrown) != (hk == 3):
                out.append(("C14/%s/%s/throw-mismatch" % (where, kind), "handler kind %s, exception observed: %d" % (HK[hk], thrown)))
        elif calls != 0:
            out.append(("C14/new_section/handler-called", "CodeHolder::new_section reported through an emitter's handler"))
    else:
        if calls != 0 or thrown:
            out.append(("C14/%s/%s/handler-called-on-success" % (where, kind), "successful call invoked the error handler %d times" % calls))
        if kind == "I" and one_of(post) != "0:0:0:0":
            out.append(("C14/%s/one-shot-state-not-consumed" % where, "after an accepted instruction the one-shot state is %s" % one_of(post)))
        if fl == 0 and cmd[0] in ("K", "V", "V2", "VR", "PP", "SH", "MV", "LS", "LP", "LV"):
            # an accepted instruction without a label operand appends bytes to the current section and may create one relocation;
            # labels, fixups, address table, nodes, current section and the other sections stay as they are (independent of the model)
            def fld(t, k):
                return t.split(k + "=")[1].split()[0]
            sz0, sz1 = fld(pre, "sz").split(","), fld(post, "sz").split(",")
            cur = int(fld(pre, "cur"))
            same = all(fld(pre, k) == fld(post, k) for k in ("cur", "lab", "fix", "adr", "nod"))
            others = len(sz0) == len(sz1) and all(a0 == b0 for i, (a0, b0) in enumerate(zip(sz0, sz1)) if i != cur)
            grew = len(sz0) == len(sz1) and cur < len(sz0) and (int(sz1[cur]) - int(sz0[cur]) == 4 if arch == 2 else 1 <= int(sz1[cur]) - int(sz0[cur]) <= 15)
            drel = int(fld(post, "rel")) - int(fld(pre, "rel"))
            if not (same and others and grew and 0 <= drel <= 1):
                out.append(("C14/%s/accepted-instruction-side-effect" % where, "an accepted instruction without a label operand changed more than the size of the current section "
                            "(by an instruction length) and at most one relocation: before [%s] after [%s]" % (pre, post)))
        if kind == "I" and "badreg" in info:
            m = re.search(r"badreg enc=(\d+)((?: \S+)*?) inst", info)
            enc = int(m.group(1)); ops = m.group(2).split()
            for op in ops:
                if op.endswith(".segment"):
                    out.append(("C14/x86-invalid-segment-accepted/%s" % op, "x86: a memory operand whose segment field is 7 (names no segment register) was accepted under "
                                "strict validation and emitted without a prefix (%s)" % info.strip()))
                elif op == "extra.k":
                    out.append(("C14/kreg-id-ge-8", "x86: {k} extra register with id >= 8 accepted under strict validation (%s)" % info.strip()))
                elif arch == 2:
                    out.append(("C14/a64-invalid-reg-id-accepted/%s/%s" % (tconst["a64_enc_names"].get(enc, str(enc)), op),
                                "AArch64: register id outside 0..31/63 accepted and emitted (%s)" % info.strip()))
                else:
                    out.append(("C14/x86-invalid-reg-id-accepted/%d/%s" % (enc, op), "x86: register id >= 32 accepted under strict validation (%s)" % info.strip()))
    # binding is final and labels are never removed (C14_bound_label_final / C14_label_count_monotone), judged on the real emitter
    l0 = field_of(pre, "lab"); l1 = field_of(post, "lab")
    if l0 is not None and l1 is not None:
        a0 = [] if l0 == "-" else l0.split(","); a1 = [] if l1 == "-" else l1.split(",")
        if len(a1) < len(a0):
            out.append(("C14/%s/%s/label-removed" % (where, kind), "a call removed labels: %s -> %s" % (l0, l1)))
        else:
            for i, x in enumerate(a0):
                if x.startswith("b:") and a1[i] != x:
                    out.append(("C14/%s/%s/bound-label-changed" % (where, kind), "label %d was bound (%s) and is %s after the call" % (i, x, a1[i])))
                    break
    # emitted bytes are never taken back, sections never disappear (C14_sizes_never_shrink), judged on the real emitter
    z0 = field_of(pre, "sz"); z1 = field_of(post, "sz")
    if z0 is not None and z1 is not None:
        b0 = [int(x) for x in z0.split(",")]; b1 = [int(x) for x in z1.split(",")]
        if len(b1) < len(b0) or any(y < x for x, y in zip(b0, b1)):
            out.append(("C14/%s/%s/section-shrank" % (where, kind), "a call shrank a section or removed one: sz %s -> %s" % (z0, z1)))
    if setter and failed:
        out.append(("C14/setter-failed", "one-shot setter failed"))
    return out


def parse_res(s):
    p = s.split()
    return int(p[1]), int(p[2]), int(p[3]), int(p[4])


def run_shard(args):
    """Runs sessions [first, first+n) on implementation and model; returns a summary dict (executed in a worker process)."""
    impl, model, seed, first, n, a64_names = args
    res = {"calls": 0, "sessions": 0, "failed_calls": 0, "ok_insts": 0, "disagree": [], "viol": [], "crash": [], "by_kind": {}, "by_cfg": {},
           "fresh_checked": 0, "samples": [], "err_codes": {}, "nontrivial": 0, "thrown": 0, "classes": {}}
    cur = first
    end = first + n
    tconst = None
    while cur < end:
        rc, out, err = vlib.sh([impl, str(seed), str(cur), str(end - cur)], timeout=3000)
        lines = out.split("\n")
        complete = rc == 0 and "END" in lines[-2:]
        # sessions fully printed
        nF = sum(1 for l in lines if l.startswith("F "))
        feed = [l for l in lines if l[:2] in ("T ", "N ", "P ") or (l[:2] == "C " and " | R " in l and " | S " in l and " #" in l)]
        if not complete:
            # drop the lines of the unfinished session
            lastN = max([i for i, l in enumerate(feed) if l.startswith("N ")] + [0])
            if sum(1 for l in feed if l.startswith("N ")) > nF:
                feed = feed[:lastN]
        if feed:
            rcm, outm, errm = vlib.sh([model], inp="\n".join(feed) + "\n", timeout=3000)
        else:
            rcm, outm, errm = 0, "", ""
        mlines = outm.split("\n")[:-1] if outm else []
        if rcm != 0 or len(mlines) != len(feed):
            res["crash"].append({"what": "model driver failed", "detail": (outm[-300:] + errm[-300:]), "session": cur})
            mlines = mlines + ["?"] * (len(feed) - len(mlines))
        hdr = None; pre = None; sess = None; idx = 0; sess_hdr = {}
        for a, b in zip(feed, mlines):
            if a[0] == "T":
                tv = [int(x) for x in a.split()[1:]]
                tconst = {"kInvalidDisplacement": tv[10], "a64_enc_names": a64_names}
                if a != b:
                    res["disagree"].append({"session": cur, "call": -1, "cmd": "T", "impl": a, "model": b})
                continue
            if a[0] == "P":
                res["probes"] = a[2:]
                if "bind_atomic=1" not in a:
                    res["viol"].append({"key": "C14/bind-invalid-displacement-binds-label", "what": "probe: bind() of a label with a pending rel8 fixup 200 bytes away "
                                        "reports kInvalidDisplacement but leaves the label bound (bind_label no longer checks the displacements before it binds): " + a,
                                        "session": -1, "call": -1, "cmd": "P", "info": "short jmp L; 200 bytes; bind L"})
                if a != b:
                    res["disagree"].append({"session": cur, "call": -1, "cmd": "P", "impl": a, "model": b})
                continue
            if a[0] == "N":
                t = a.split()
                sess = int(t[1]); idx = 0
                kv = dict(x.split("=", 1) for x in t[2:t.index("|")])
                hdr = {"fl": int(kv["fl"]), "arch": int(kv["arch"]), "h": int(kv["h"]), "hloc": int(kv.get("hloc", 0)), "fm": int(kv.get("fm", 0))}
                sess_hdr[sess] = hdr
                pre = a.split("| S ")[1]
                cfg = "%s/%s/%s" % (ARCH[hdr["arch"]], FL[hdr["fl"]], HK[hdr["h"]])
                if hdr["hloc"]:
                    res["classes"]["session: handler attached to the CodeHolder"] = res["classes"].get("session: handler attached to the CodeHolder", 0) + 1
                if hdr["fm"]:
                    res["classes"]["session: Compiler function body with virtual registers"] = res["classes"].get("session: Compiler function body with virtual registers", 0) + 1
                res["by_cfg"][cfg] = res["by_cfg"].get(cfg, 0) + 1
                res["sessions"] += 1
                if "S " + strip_hash(pre) != b:
                    res["disagree"].append({"session": sess, "call": -1, "cmd": "N", "impl": pre, "model": b})
                continue
            parts = a.split(" | ")
            cmd = parts[0][2:].split()
            rtxt = parts[1]
            stxt, _, info = parts[2].partition(" #")
            post = stxt[2:]
            r = parse_res(rtxt)
            res["calls"] += 1
            res["by_kind"][cmd[0]] = res["by_kind"].get(cmd[0], 0) + 1
            failed = r[0] != 0 or r[3]
            if failed:
                res["failed_calls"] += 1
                res["err_codes"][r[0]] = res["err_codes"].get(r[0], 0) + 1
                if r[3]:
                    res["thrown"] += 1
            if cmd[0] == "I":
                cls = info.split()[0] if info.split() else "?"
                key = cls + ("/ok" if not failed else "/err")
                res["classes"][key] = res["classes"].get(key, 0) + 1
                if not failed:
                    res["ok_insts"] += 1
            if "xsec-fixup" in info:
                res["classes"]["cross-section reference to a bound label (holder-level fixup)"] = res["classes"].get("cross-section reference to a bound label (holder-level fixup)", 0) + 1
            if cmd[0] == "B" and r[0] == tconst["kInvalidDisplacement"]:
                kb = "bind refused: a pending displacement does not fit (computed by the model from the fixup formats)"
                res["classes"][kb] = res["classes"].get(kb, 0) + 1
            if cmd[0] == "PP":
                key = "push/pop sreg path/%s" % ("err %d" % r[0] if failed else "ok")
                res["classes"][key] = res["classes"].get(key, 0) + 1
            if cmd[0] == "V2":
                key = "evex/vex vsib-path vgatherdps {k}/%s" % ("err %d" % r[0] if failed else "ok %s bytes" % (int(post.split("sz=")[1].split()[0].split(",")[int(post.split("cur=")[1].split()[0])]) - int(pre.split("sz=")[1].split()[0].split(",")[int(pre.split("cur=")[1].split()[0])])))
                res["classes"][key] = res["classes"].get(key, 0) + 1
            if cmd[0] == "SH":
                key = "shift r,imm path/%s" % ("err %d" % r[0] if failed else "ok %s bytes" % (int(post.split("sz=")[1].split()[0].split(",")[int(post.split("cur=")[1].split()[0])]) - int(pre.split("sz=")[1].split()[0].split(",")[int(pre.split("cur=")[1].split()[0])])))
                res["classes"][key] = res["classes"].get(key, 0) + 1
            if cmd[0] == "MV":
                key = "mov r,[mem] / moffs path/%s" % ("err %d" % r[0] if failed else "ok %s bytes" % (int(post.split("sz=")[1].split()[0].split(",")[int(post.split("cur=")[1].split()[0])]) - int(pre.split("sz=")[1].split()[0].split(",")[int(pre.split("cur=")[1].split()[0])])))
                res["classes"][key] = res["classes"].get(key, 0) + 1
            if cmd[0] == "VR":
                key = "vex/evex register path vaddps/%s" % ("err %d" % r[0] if failed else "ok %s bytes" % (int(post.split("sz=")[1].split()[0].split(",")[int(post.split("cur=")[1].split()[0])]) - int(pre.split("sz=")[1].split()[0].split(",")[int(pre.split("cur=")[1].split()[0])])))
                res["classes"][key] = res["classes"].get(key, 0) + 1
            if cmd[0] == "LV":
                key = "a64 simd load/store path/%s" % ("err %d" % r[0] if failed else "ok")
                res["classes"][key] = res["classes"].get(key, 0) + 1
            if cmd[0] == "LP":
                key = "a64 load/store pair path/%s" % ("err %d" % r[0] if failed else "ok")
                res["classes"][key] = res["classes"].get(key, 0) + 1
            if cmd[0] == "LS":
                key = "a64 load/store path/%s" % ("err %d" % r[0] if failed else "ok")
                res["classes"][key] = res["classes"].get(key, 0) + 1
            if cmd[0] == "V":
                key = "vsib-path vgatherdps/%s" % ("err %d" % r[0] if failed else "ok")
                res["classes"][key] = res["classes"].get(key, 0) + 1
            if cmd[0] == "K":
                key = "mem-path add r32,[mem]/%s" % ("err %d" % r[0] if failed else "ok %s bytes" % (int(post.split("sz=")[1].split()[0].split(",")[int(post.split("cur=")[1].split()[0])]) - int(pre.split("sz=")[1].split()[0].split(",")[int(pre.split("cur=")[1].split()[0])])))
                res["classes"][key] = res["classes"].get(key, 0) + 1
            if cmd[0] == "J":
                key = "rel-path kind %s/%s" % (cmd[1], "err %d" % r[0] if failed else "ok")
                res["classes"][key] = res["classes"].get(key, 0) + 1
            if cmd[0] not in ("O", "X", "M", "RS"):
                res["nontrivial"] += 1
            implcanon = rtxt + " | S " + strip_hash(post)
            b, _, fbits = b.partition(" | F ")
            if implcanon != b:
                res["disagree"].append({"session": sess, "call": idx, "cmd": " ".join(cmd), "impl": implcanon, "model": b, "info": info.strip()[:300],
                                        "differs_in": snapshot_diff(implcanon, b)})
            # the proved footprint of the call's kind (theorem C14_call_frame, printed by the extracted model) against the REAL emitter
            if len(fbits) == 7:
                res["frame_checked"] = res.get("frame_checked", 0) + 1
                for bit, fld in zip(fbits, ("sz", "cur", "lab", "fix", "rel", "adr", "nod")):
                    if bit == "0" and field_of(pre, fld) != field_of(post, fld):
                        res["viol"].append({"key": "C14/frame/%s/%s/%s" % (FL[hdr["fl"]], cmd[0], fld),
                                            "what": "a %s call of the %s changed `%s` (%s -> %s), a component outside the proved footprint of its kind (C14_call_frame)"
                                                    % (cmd[0], FL[hdr["fl"]], fld, field_of(pre, fld), field_of(post, fld)),
                                            "session": sess, "call": idx, "cmd": " ".join(cmd), "info": info.strip()[:300]})
            for key, what in monitor(hdr, cmd, pre, r, post, info, tconst):
                res["viol"].append({"key": key, "what": what, "session": sess, "call": idx, "cmd": " ".join(cmd), "info": info.strip()[:300]})
            if len(res["samples"]) < 2 and failed and cmd[0] == "I":
                res["samples"].append({"session": sess, "call": idx, "line": a[:400], "model": b})
            pre = post
            idx += 1
        # fresh-emitter comparison lines
        for i, l in enumerate(lines):
            if l.startswith("F "):
                res["fresh_checked"] += 1
                t = l.split()
                # finalize() of Builder/Compiler (serialization / register allocation): error, exception and handler protocol
                fkv = dict(x.split("=", 1) for x in t[2:])
                h = sess_hdr.get(int(t[1]))
                if h is not None and h["fl"] != 0 and "fcalls" in fkv:
                    e1 = int(fkv["fin"].split("/")[0]); fc1 = int(fkv["fcalls"].split("/")[0])
                    thrown = bool(e1 & 0x10000); err = e1 & 0xFFFF
                    k0 = "finalize/%s" % ("ok" if e1 == 0 else "error thrown" if thrown else "error returned")
                    res["classes"][k0] = res["classes"].get(k0, 0) + 1
                    if fkv.get("fin2", "-1") != "-1":
                        k2 = "finalize again after a failed%s finalize (recycled vs fresh compared)" % (" and thrown-out-of" if thrown else "")
                        res["classes"][k2] = res["classes"].get(k2, 0) + 1
                    where = "%s/%s" % (ARCH[h["arch"]], FL[h["fl"]])
                    if e1 == 0 and fc1 != 0:
                        res["viol"].append({"key": "C14/%s/finalize/handler-called-on-success" % where, "what": "finalize() succeeded but invoked the error handler %d times" % fc1,
                                            "session": int(t[1]), "call": -1, "cmd": "F", "info": l})
                    if e1 != 0:
                        if thrown != (h["h"] == 3 and fc1 > 0):
                            res["viol"].append({"key": "C14/%s/finalize/throw-mismatch" % where, "what": "finalize() failed with error %d: handler kind %s, handler calls %d, exception observed: %s" % (
                                err, HK[h["h"]], fc1, thrown), "session": int(t[1]), "call": -1, "cmd": "F", "info": l})
                        exp = 0 if h["h"] == 0 else 1
                        if h["hloc"] and fc1 != exp:
                            res["viol"].append({"key": "C14/%s/finalize/handler-called-%d-times" % (where, fc1), "what": "finalize() failed with error %d and the handler attached to the "
                                                "CodeHolder was invoked %d times (expected %d)" % (err, fc1, exp), "session": int(t[1]), "call": -1, "cmd": "F", "info": l})
                        if not h["hloc"] and h["h"] != 0 and fc1 != 1:
                            kf = "finalize with emitter-attached handler: error not reported (%d calls)" % fc1
                            res["classes"][kf] = res["classes"].get(kf, 0) + 1
                            res["viol"].append({"key": "C14/finalize/error-bypasses-emitter-handler", "what": "Builder/Compiler finalize() returned error %d but the ErrorHandler attached to the "
                                                "emitter itself was invoked %d times (the internal Assembler only knows the CodeHolder's handler)" % (err, fc1),
                                                "session": int(t[1]), "call": -1, "cmd": "F", "info": l})
                if t[2] != "same=1" or t[3] != "replay_fail=0" or t[4] != "fin_same=1":
                    detail = " / ".join(x for x in lines[i + 1:i + 5] if x.startswith("FD"))
                    res["viol"].append({"key": "C14/fresh-emitter-differs", "what": "after the session's failed calls the recycled emitter differs from a fresh one given only "
                                        "the successful calls: %s %s" % (l, detail[:600]), "session": int(t[1]), "call": -1, "cmd": "F", "info": ""})
        if complete:
            break
        # the process died inside session cur+nF: name the call
        bad = cur + nF
        env2 = dict(os.environ); env2["UBSAN_OPTIONS"] = "print_stacktrace=1"
        rc2, out2, err2 = vlib.sh([impl, str(seed), str(bad), "1", "v"], timeout=600, env=env2)
        runs = [l for l in err2.split("\n") if l.startswith("RUN ")]
        summ = re.findall(r"SUMMARY: (.*)", err2) or re.findall(r"runtime error: (.*)", err2) or ["signal/exit rc=%d" % rc2]
        loc = re.findall(r"(\w+\.(?:cpp|h)):(\d+)", " ".join(re.findall(r"(?:SUMMARY:|runtime error).*|^.*runtime error.*$", err2, re.M)) or err2[-2000:])
        # prefer the first stack frame outside the support headers (bit_test / shifts live there) as the location
        frames = re.findall(r"#\d+ 0x[0-9a-f]+ in .*? (/\S+?):(\d+)", err2)
        frames = [(os.path.basename(f), l) for f, l in frames if os.path.basename(f) not in ("support.h", "support_p.h") and "/harness/" not in f]
        if frames and (not loc or loc[0][0] in ("support.h", "support_p.h")):
            loc = [frames[0]]
        res["crash"].append({"what": "sanitizer/abort", "session": bad, "input": runs[-1] if runs else "?", "summary": summ[0][:300],
                             "where": "%s:%s" % loc[0] if loc else "?", "rc": rc2, "stderr_tail": err2[-1500:] if not runs else ""})
        cur = bad + 1
        if len([c for c in res["crash"] if c["what"] == "sanitizer/abort"]) >= 3:
            res["skipped_sessions"] = res.get("skipped_sessions", 0) + (end - cur)   # bounded effort under a crashing build
            break
    return res


def merge(total, r):
    for k in ("calls", "sessions", "failed_calls", "ok_insts", "fresh_checked", "nontrivial", "thrown"):
        total[k] = total.get(k, 0) + r[k]
    total["skipped_sessions"] = total.get("skipped_sessions", 0) + r.get("skipped_sessions", 0)
    if r.get("probes"):
        total["probes"] = r["probes"]
    total["frame_checked"] = total.get("frame_checked", 0) + r.get("frame_checked", 0)
    for k in ("by_kind", "by_cfg", "err_codes", "classes"):
        d = total.setdefault(k, {})
        for kk, v in r[k].items():
            d[kk] = d.get(kk, 0) + v
    for k in ("disagree", "viol", "crash", "samples"):
        total.setdefault(k, []).extend(r[k])


def failing_sites(ck, text):
    """The regenerated tables no longer pass the reflection lemma: name the sites and the out-of-bounds index values."""
    head = text.split("Lemma sites_in_range")[0]
    q = head + ("\nDefinition bad_sites := map (fun s => (site_name s, site_len s, filter (fun i => negb (hit (site_table s) i)) (site_idx s)))\n"
                "  (filter (fun s => negb (site_ok s)) sites).\nEval vm_compute in bad_sites.\n")
    rc, out = ck.coq_eval(q, name="c14_bad_sites", timeout=600)
    found = re.findall(r'\("([^"]*)",\s*(\d+),\s*\[([^\]]*)\]\)', out.replace("\n", " "))
    return [(n, int(l), [int(x) for x in re.findall(r"-?\d+", idx)][:8]) for n, l, idx in found], out[-1500:]


GEN_MINE = ["X86Sigs.v", "C14Tables.v", "C14TableProofs.v", "C14MemPathModel.v", "C14MemPathProofs.v", "C14SpecProofs.v"]   # dependency order


def regen_mine(ck, files):
    """Like vlib.Check.coq_regen, but recompiles only the coq/gen files Properties_C14 depends on (the shared routine
    recompiles every builder's generated file, minutes of work whenever /repo's tables move). Returns None when the
    regenerated text equals the committed snapshot, else (gen_dir, failed_files, log)."""
    import shutil
    gen = os.path.join(vlib.COQ, "gen")
    if all(os.path.exists(os.path.join(gen, n)) and open(os.path.join(gen, n)).read() == t for n, t in files.items()):
        return None
    # the theories the generated files import must be compiled first (after a merge their .vo may be stale or missing)
    ck.coq_make(["theories/X86Validate/ValidateProofs.vo", "theories/EmitState/EncPathProofs.vo", "theories/EmitState/LookupProofs.vo",
                 "theories/EmitState/EmitStateProofs.vo"])
    wgen = os.path.join(ck.work, "gen")
    shutil.rmtree(wgen, ignore_errors=True)
    os.makedirs(wgen)
    for n in GEN_MINE:
        shutil.copy(os.path.join(gen, n), wgen)
    for n, t in files.items():
        open(os.path.join(wgen, n), "w").write(t)
    args = ["-Q", os.path.join(vlib.COQ, "theories"), "Verif", "-Q", wgen, "VerifGen", "-w", "-all"]
    failed, log = [], ""
    changed = False
    for n in GEN_MINE:
        vo = os.path.join(gen, n + "o")
        if not changed and n not in files and os.path.exists(vo) and os.path.getmtime(vo) >= os.path.getmtime(os.path.join(gen, n)):
            shutil.copy(vo, wgen)          # unchanged and nothing it depends on changed (GEN_MINE is in dependency order): reuse the compiled file
            continue
        changed = True
        rc, out, err = vlib.sh(["coqc"] + args + [os.path.join(wgen, n)], cwd=wgen, timeout=900)
        if rc != 0:
            failed.append(n)
            log += (out + err)[-3000:]
    return wgen, failed, log


def run(ck):
    sys.setrecursionlimit(10000)
    # ---------------------------------------------------------------- translator tie + theorems
    text, tinfo = c14_tables.generate(ck)
    a64_names = {}
    try:
        names, _, _ = c14_tables.a64_encoding_tables(vlib.REPO)
        a64_names = {i: n for i, n in enumerate(names)}
    except Exception:
        pass
    r = regen_mine(ck, {"C14Tables.v": text})
    gen_dir = None
    if r is not None:
        gen_dir, failed_files, log = r
        ck.log("tables differ from the committed snapshot; regenerated files failing: %s" % failed_files)
        if failed_files:
            sites, raw = failing_sites(ck, text)
            if sites:
                for (nm, ln, idx) in sites:
                    tab = re.sub(r"[^A-Za-z0-9_]+", "-", nm.split(":")[0])[:60]
                    ck.violation("C14/lookup-out-of-bounds/" + tab,
                                 "table look-up can read out of bounds: %s — table length %d, reachable index values %s" % (nm, ln, idx),
                                 {"site": nm, "table_length": ln, "index_values": idx, "broken": "C14_lookups_in_range (coq/gen/C14Tables.v sites_in_range)"})
            else:
                ck.violation("C14/tables-regen", "regenerated coq/gen files do not compile: %s %s" % (failed_files, log[-600:]),
                             {"broken": "coq/gen/C14Tables.v / C14TableProofs.v", "files": failed_files, "log": raw}, no_input=True)
    if r is not None and r[1]:
        # the regenerated tables break the reflection lemmas (reported above with the offending site); the remaining
        # theorems are still checked, against the committed snapshot of the tables
        gen_dir = None
    obl = ck.coq_properties(gen_dir=gen_dir)
    ck.log("theorems: %d, failed: %d" % (len(obl), len([o for o in obl if not o["ok"]])))

    # ---------------------------------------------------------------- correspondence + search under ASan/UBSan
    impl = ck.build_harness("c14", ["c14_harness.cpp"], variant="asan")
    model = ck.ocaml_model("Extract_EmitState.v", ["zconv.ml", "c14_driver.ml"], name="c14", gen_dir=gen_dir)

    if ck.replay:
        rp = json.load(open(ck.replay))["replay"]
        seed, sess = rp.get("seed", ck.seed), rp.get("session")
        if sess is None:
            print("replay record has no session (proof/translator violation):", rp); return 0
        rc, out, err = vlib.sh([impl, str(seed), str(sess), "1", "v"], timeout=600)
        feed = [l for l in out.split("\n") if l[:2] in ("T ", "P ", "N ", "C ")]
        rcm, outm, errm = vlib.sh([model], inp="\n".join(feed) + "\n")
        ml = outm.split("\n")
        for i, (a, b) in enumerate(zip(feed, ml)):
            if rp.get("call") in (None, -1) or a[0] != "C" or abs((i - 2) - rp.get("call", 0)) <= 1:
                print("impl :", a[:500]); print("model:", b[:500])
        print("\n".join(l for l in out.split("\n") if l[:1] == "F"))
        print(err[-3000:] if rc != 0 else "(no sanitizer report)")
        return 0

    # deterministic AArch64 register-id sweep (independent of the seed)
    from concurrent.futures import ThreadPoolExecutor
    sweep_pool = ThreadPoolExecutor(max_workers=1)
    sweep_future = sweep_pool.submit(vlib.sh, [impl, "sweep"], 900)     # runs while the sessions are executed
    sweep = {"pairs": 0}
    # Compiler::finalize() again after a failed / successful finalize (separate processes: a crash must not cost coverage)
    refin_ok = True
    for v in range(4):
        rcp, outp, errp = vlib.sh([impl, "probe-refinalize", str(v)], timeout=300)
        if rcp != 0 or "END" not in outp:
            refin_ok = False
            summ = re.findall(r"runtime error: (.*)", errp) or re.findall(r"SUMMARY: (.*)", errp) or ["rc=%d" % rcp]
            ck.violation("C14/compiler-refinalize-crash", "x86 Compiler: finalize() called again after a %s finalize() follows dead register-allocator pointers "
                         "(pass data of nodes / work-reg links are not reset): %s" % (["failed (unknown virtual register)", "failed (jump to an unbound label)",
                                                                                          "failed (serialization error)", "successful"][v], summ[0][:200]),
                         {"command": "c14_harness probe-refinalize %d" % v, "stderr": errp[-600:]})
    if refin_ok:
        os.environ["C14_REFINALIZE"] = "1"      # sessions re-finalize Compiler functions too
    else:
        os.environ.pop("C14_REFINALIZE", None)
    rcp, outp, errp = vlib.sh([impl, "probe-constpool-pad"], timeout=300)
    mpp = re.search(r"PROBE constpoolpad err=(\d+) size=(\d+)/(\d+) bound=(\d)", outp)
    os.environ.pop("C14_POOL_ATOMIC", None)
    if rcp != 0 or not mpp:
        ck.violation("C14/sanitizer/probe-constpool-pad", "the embed_const_pool padding probe aborted: %s" % errp[-300:], {"command": "c14_harness probe-constpool-pad"})
    else:
        pe, p0, p1, pb = [int(x) for x in mpp.groups()]
        if pe != 0 and (p0 != p1 or pb):
            ck.violation("C14/embed-const-pool-pads-before-refused-bind", "embed_const_pool(label, pool) whose bind is refused with error %d (a pending rel8 displacement does not fit) "
                         "left its alignment padding behind: offset %d -> %d, label bound: %d" % (pe, p0, p1, pb), {"command": "c14_harness probe-constpool-pad", "output": outp.strip()})
        elif pe != 0:
            os.environ["C14_POOL_ATOMIC"] = "1"     # sessions may hand labels with pending fixups to embed_const_pool
        else:
            ck.violation("C14/embed-const-pool-bind-not-refused", "embed_const_pool bound a label whose pending rel8 fixup is 203 bytes away: " + outp.strip(), {"command": "c14_harness probe-constpool-pad"})
    # AArch64 Compiler: a jump given register operands must be refused, not run the RA past its two scratch-register slots
    rcj, outj, errj = vlib.sh([impl, "probe-jumpregs"], timeout=300)
    mj = re.search(r"PROBE jumpregs (\d+) (\d+)", outj)
    if rcj != 0 or not mj:
        summ = re.findall(r"runtime error: (.*)", errj) or re.findall(r"SUMMARY: (.*)", errj) or ["rc=%d" % rcj]
        ck.violation("C14/a64-jump-with-register-operands-ra-oob", "AArch64 Compiler: `b w0, w1, w2` (virtual registers instead of a label; a64 validation is a no-op) is accepted and "
                     "finalize() reads _scratch_reg_indexes[2] of a two-element array in RACFGBuilderT::run (racfgbuilder_p.h): %s" % summ[0][:200],
                     {"command": "c14_harness probe-jumpregs", "stderr": errj[-600:]})
    elif int(mj.group(1)) == 0 and int(mj.group(2)) == 0:
        ck.violation("C14/a64-jump-with-register-operands-accepted", "AArch64 Compiler: `b w0, w1, w2` was accepted and finalized without an error: " + outj.strip(),
                     {"command": "c14_harness probe-jumpregs"})
    # deterministic x86 sweep: instructions / operand forms without an EVEX encoding must refuse registers 16..31
    rcv, outv, errv = vlib.sh([impl, "sweep-vexonly"], timeout=600)
    mv = re.search(r"V vexonly insts=(\d+) forms=(\d+) accepted=(\d+)", outv)
    os.environ.pop("C14_VEXONLY", None)
    vexonly = {"ran": bool(mv)}
    if rcv != 0 or not mv:
        ck.violation("C14/sanitizer/sweep-vexonly", "the x86 VEX-only sweep aborted: %s" % errv[-300:], {"command": "c14_harness sweep-vexonly"})
    else:
        wl = [l.split() for l in outv.split("\n") if l.startswith("W ")]
        vexonly.update({"vex_only_instructions": int(mv.group(1)), "accepted_forms": int(mv.group(2)), "positions_accepting_ids_16_31": int(mv.group(3)),
                        "instructions_accepting": len(set(t[1] for t in wl))})
        if wl:
            ex = ["%s %s -> %s" % (t[2], t[3], " ".join(t[4:])) for t in wl[:12]]
            ck.violation("C14/x86-vex-only-accepts-evex-only-register",
                         "x86 Assembler with strict validation: %d instructions without an EVEX encoding (%d register positions in %d accepted forms) accept a vector "
                         "register id of 16..31 and emit their VEX opcode under an EVEX prefix (an undefined or a different instruction), e.g. %s"
                         % (len(set(t[1] for t in wl)), len(wl), int(mv.group(2)), "; ".join(ex[:4])),
                         {"command": "c14_harness sweep-vexonly", "examples": ex})
        else:
            os.environ["C14_VEXONLY"] = "1"     # the VEX gather scenario hands ids 16..31 to the three-operand form (the model refuses them)
    nsess = 4000 if ck.tier == "quick" else 100000
    shards = 16 if ck.tier == "quick" else 64
    per = (nsess + shards - 1) // shards
    jobs = [(impl, model, ck.seed, i * per, min(per, nsess - i * per), a64_names) for i in range(shards) if i * per < nsess]
    total = {}
    with ProcessPoolExecutor(max_workers=min(16, vlib.NPROC)) as ex:
        for rr in ex.map(run_shard, jobs):
            merge(total, rr)
    # dedicated probe (kept out of the sessions because it aborts the process while the defect is present)
    rcp, outp, errp = vlib.sh([impl, "probe-rwsize"], timeout=300)
    if rcp != 0 or "END" not in outp:
        summ = re.findall(r"runtime error: (.*)", errp) or re.findall(r"SUMMARY: (.*)", errp) or ["rc=%d" % rcp]
        ck.violation("C14/compiler-rwinfo-size-shift", "x86 Compiler: `test r32(size field 199), r32` is accepted by the validator and finalize() reaches undefined behaviour in "
                     "query_rw_info (lsb_mask<uint64_t>(size) for a size field > 64): %s" % summ[0][:200], {"command": "c14_harness probe-rwsize", "stderr": errp[-800:]})
    for mode, key, what in (("probe-rwindex", "C14/compiler-a64-rwinfo-index-shift", "a64 Compiler: `add x, x(element index 10, type D), x` is accepted into the function body and finalize() "
                             "reaches undefined behaviour in a64 query_rw_info (`<< (element_index * element_size)` >= 64)"),
                            ("probe-raphys", "C14/compiler-a64-phys-id-ge-32", "a64 Compiler: a physical register id 40 is accepted into the function body (AArch64 has no operand validator) and "
                             "finalize() reaches undefined behaviour in the register allocator's 32-bit register sets")):
        rcp, outp, errp = vlib.sh([impl, mode], timeout=300)
        if rcp != 0 or "END" not in outp:
            summ = re.findall(r"runtime error: (.*)", errp) or re.findall(r"SUMMARY: (.*)", errp) or ["rc=%d" % rcp]
            ck.violation(key, "%s: %s" % (what, summ[0][:200]), {"command": "c14_harness " + mode, "stderr": errp[-800:]})
    rcp, outp, errp = vlib.sh([impl, "probe-constpool"], timeout=300)
    mcp = re.search(r"PROBE constpool asm_err=(\d+) asm_size=(\d+)/(\d+) builder_err=(\d+) builder_nodes=(\d+)/(\d+)", outp)
    if rcp != 0 or not mcp:
        ck.violation("C14/sanitizer/probe-constpool", "the embed_const_pool probe aborted: %s" % (errp[-300:]), {"command": "c14_harness probe-constpool"})
    else:
        ae, a0, a1, be, b0, b1 = [int(x) for x in mcp.groups()]
        if (ae != 0 and a0 != a1) or (be != 0 and b0 != b1):
            ck.violation("C14/embed-const-pool-partial-effect", "embed_const_pool(label, pool) with an already bound label fails (Assembler error %d, Builder error %d) AFTER it "
                         "aligned: Assembler offset %d -> %d, Builder nodes %d -> %d (a failed call with a lasting effect)" % (ae, be, a0, a1, b0, b1),
                         {"command": "c14_harness probe-constpool", "output": outp.strip()})
        elif ae == 0 or be == 0:
            ck.violation("C14/embed-const-pool-accepts-bound-label", "embed_const_pool with an already bound label succeeded: " + outp.strip(), {"command": "c14_harness probe-constpool"})
    rc, outw, errw = sweep_future.result()
    sweep_pool.shutdown()
    if rc != 0 or "END" not in outw[-10:]:
        summ = re.findall(r"SUMMARY: (.*)", errw) or re.findall(r"runtime error: (.*)", errw) or ["rc=%d" % rc]
        ck.violation("C14/sanitizer/a64-sweep", "the AArch64 register-id sweep aborted: %s" % summ[0][:300], {"command": "c14_harness sweep", "stderr": errw[-1500:]})
    for l in outw.split("\n"):
        t = l.split()
        if t[:1] == ["W"]:
            sweep["pairs"] += 1
            ck.violation("C14/a64-invalid-reg-id-accepted/%s/%s" % (a64_names.get(int(t[1]), t[1]), t[2]),
                         "AArch64: instruction id %s accepted register id %s (names no register) in position %s and emitted it masked: operands %s" % (t[3], t[4], t[2], " ".join(t[5:])),
                         {"command": "c14_harness sweep", "inst_id": int(t[3]), "bad_id": int(t[4]), "position": t[2], "operands": t[5:]})
        elif t[:1] == ["WS"]:
            sweep["summary"] = " ".join(t[1:])
    sweep["instructions_without_discovered_form"] = [int(l.split()[1]) for l in outw.split("\n") if l.startswith("WN ")]

    ck.log("sessions %d, calls %d (failed %d, thrown %d), accepted instructions %d, model disagreements %d, monitor hits %d, aborts %d" % (
        total["sessions"], total["calls"], total["failed_calls"], total["thrown"], total["ok_insts"], len(total["disagree"]), len(total["viol"]), len(total["crash"])))

    # sanitizer aborts / crashes: the call is the failing input
    for c in total["crash"]:
        if c["what"] != "sanitizer/abort":
            ck.violation("C14/harness/" + c["what"].replace(" ", "-"), str(c)[:500], {"broken": "harness/model driver", "detail": c}, no_input=True)
            continue
        ck.violation("C14/sanitizer/" + c["where"], "memory-safety / undefined-behaviour report (or abort) inside a public emitter call: %s — input: %s %s" % (
            c["summary"], c["input"], c.get("stderr_tail", "")[-400:]),
            {"seed": ck.seed, "session": c["session"], "input": c["input"], "summary": c["summary"]})
    # monitor hits (independent oracle on the implementation's answers)
    for v in total["viol"]:
        ck.violation(v["key"], v["what"] + " [session %d call %d: %s %s]" % (v["session"], v["call"], v["cmd"], v["info"]),
                     {"seed": ck.seed, "session": v["session"], "call": v["call"], "command": v["cmd"]})
    # model/implementation disagreements: is there a violated input? (monitor already judged every call) else no_input
    viol_at = {(v["session"], v["call"]) for v in total["viol"]}
    for d in total["disagree"][:20]:
        if (d["session"], d["call"]) in viol_at:
            continue
        ck.violation("C14/correspondence/" + d["cmd"].split()[0],
                     "implementation and proven model disagree on session %d call %d `%s` in {%s}: impl [%s] model [%s] %s; the independent monitor found no violated "
                     "invariant on this call" % (d["session"], d["call"], d["cmd"], "; ".join(d.get("differs_in", [])), d["impl"], d["model"], d.get("info", "")),
                     {"seed": ck.seed, "session": d["session"], "call": d["call"], "command": d["cmd"], "impl": d["impl"], "model": d["model"],
                      "broken": "correspondence of EmitStateModel.step with /repo"}, no_input=True)
    for o in ck.proof_failures():
        ck.violation("C14/proof/" + o["name"], "theorem %s no longer checks (%s)" % (o["name"], getattr(ck, "coq_log", "")[-800:]),
                     {"broken": "theorem " + o["name"], "file": "coq/theories/Properties/Properties_C14.v"}, no_input=True)
    # coverage floor: the share of supported a64 encoding sites must not silently fall
    if not tinfo.get("a64_size_op_expression_recognised", True):
        ck.violation("C14/coverage-floor/size-op-expression", "a64assembler.cpp element_type_to_size_op no longer contains either known form of its index expression; "
                     "the transcription in coq/theories/EmitState/LookupModel.v (size_op_index/_guarded) must be redone", {"broken": "tools/c14_tables.py size_op site"}, no_input=True)
    for fam, iid, why in tinfo.get("row_failures", []):
        ck.violation("C14/rows/%s/%d" % (fam.replace(" ", "-"), iid), "%s instruction id %d (%s): %s - emitting it with any operands reads the table out of bounds / leaves the proved "
                     "specification" % (fam, iid, (a64_names.get(iid, "") if fam.startswith("a64") else ""), why), {"instruction_id": iid, "family": fam, "reason": why})
    for st in tinfo.get("stale_site_transcriptions", []):
        ck.violation("C14/coverage-floor/stale-site", "a look-up statement the bounds lemmas were transcribed from is no longer in the source: %s — re-transcribe the site in "
                     "tools/c14_tables.py" % st, {"broken": "tools/c14_tables.py site list", "statement": st}, no_input=True)
    if tinfo["a64_encoding_sites"] < 80:
        ck.violation("C14/coverage-floor", "only %d AArch64 encoding classes mapped to their EncodingData table (claimed: >= 80)" % tinfo["a64_encoding_sites"],
                     {"broken": "tools/c14_tables.py a64_encoding_tables"}, no_input=True)

    return ck.finish(
        "proof",
        {"evaluations": total["calls"], "distinct_nontrivial": total["nontrivial"],
         "rule": "one evaluation = one public emitter call of a generated session executed on the real emitter under ASan+UBSan AND predicted by the extracted "
                 "model; non-trivial = every call except the one-shot setters (instructions valid/perturbed/arbitrary, bind, align, embed, embed_label, "
                 "section, new_section, new_label, new_named_label); distinct because every session/call is drawn independently from VERIF_SEED",
         "example_failed_instruction_calls": total.get("samples", [])[:6],
         "proved_vs_compared": {
             "proved": "every theorem listed under `theorems` is a universally quantified statement about the Gallina model (no enumeration of inputs); the table-bound lemmas are "
                       "decided by reflection over the COMPLETE dumped tables / instruction rows, not over a subset",
             "compared_on_every_call": "return value, handler call count, handler error, thrown flag and the full state snapshot (section sizes, current section, every label, fixup / "
                                       "relocation / address-table / node counts, one-shot state) predicted by the extracted model vs the real emitter; a hash of section bytes and nodes vs the fresh emitter",
             "verdict_computed_by_the_model": {k: (total.get("by_kind") or {}).get(k, 0) for k in ("J", "K", "V", "V2", "PP", "SH", "LS", "LP", "LV", "MV", "VR", "B", "CP", "ELD", "EL", "A", "E", "S", "NS", "L", "NL")},
             "verdict_reported_by_the_implementation": (total.get("by_kind") or {}).get("I", 0),
             "deterministic_exhaustive_sweeps": ["AArch64 register ids per discovered form (sweep)", "x86 instructions / forms without an EVEX encoding against vector ids 16..31 (sweep-vexonly)"]},
         "sessions": total["sessions"], "sessions_skipped_after_repeated_aborts": total.get("skipped_sessions", 0), "failed_calls": total["failed_calls"], "failed_calls_with_throwing_handler": total["thrown"],
         "accepted_instructions": total["ok_insts"], "fresh_emitter_comparisons": total["fresh_checked"], "calls_checked_against_proved_footprint": total.get("frame_checked", 0),
         "calls_by_kind": total.get("by_kind"), "sessions_by_config": total.get("by_cfg"), "instruction_classes": total.get("classes"),
         "error_codes_seen": {str(k): v for k, v in sorted(total.get("err_codes", {}).items())},
         "model_vs_impl_disagreements": len(total["disagree"]), "traces_validated_against_impl": total["calls"],
         "a64_register_id_sweep": sweep, "x86_vex_only_sweep": vexonly, "implementation_probes": total.get("probes"), "compiler_refinalize_in_sessions": refin_ok,
         "lookup_sites": tinfo["sites"], "lookup_tables": tinfo["tables"], "a64_encoding_sites": tinfo["a64_encoding_sites"],
         "unsupported": {"a64_encodings_without_single_EncodingData_table": tinfo["a64_encodings_unsupported"],
                         "x86 opcode_mm_table look-up for x87 rows and for opcodes built from constants inside _emit": "not data-driven; constants have mm < 16 by the Opcode enum",
                         "a64_encodings_without_any_EncodingData_lookup": tinfo.get("a64_encodings_without_table_lookup"),
                         "memory safety outside the instrumented look-ups": "explored by the sanitizer runs only (testing, not proof)"},
         "tables_regenerated_differ_from_snapshot": r is not None},
        assumptions=["theorems are about the Gallina model (EmitStateModel.v: state machine of one call, the instruction encoder's verdict is a parameter); "
                     "the model is tied to the code by the differential run of this check",
                     "the harness reports the encoder's verdict (accepted: bytes/fixups/relocations; refused: error) of the real _emit; what the model PREDICTS is the "
                     "effect of a refused call, of every non-instruction call, the handler protocol and the state equality with a fresh emitter",
                     "look-up index sets are derived from operand-signature field widths / validator masks / instruction tables printed by harness/c14_dump.cpp; "
                     "the index EXPRESSIONS were transcribed by hand from x86assembler.cpp / a64assembler.cpp (tools/c14_tables.py site list)",
                     "for the instruction families J/K/V/V2/PP/SH/LS the verdict (accepted with N bytes / refused with error e) is computed by the model and compared; "
                     "for all other instructions (I lines) it is an input of the model"],
        checker_cmd="coqc (Coq 8.16.1) -Q coq/theories Verif -Q coq/gen VerifGen coq/theories/Properties/Properties_C14.v  [full .vo build of its dependencies]",
        trusted_base=["Coq 8.16.1 kernel incl. vm_compute (no native_compute)", "no axioms: every theorem 'Closed under the global context'",
                      "extraction (ExtrOcamlBasic only) + OCaml 4.13.1 + zarith glue in ml/zconv.ml + ml/c14_driver.ml",
                      "harness/c14_harness.cpp (generator, snapshots, fresh-emitter replay), harness/c14_dump.cpp, tools/c14_tables.py, tools/checks/c14.py (differ, monitor)",
                      "g++ -fsanitize=address,undefined as the memory-safety oracle"])

"""C13 — Validation, encoder and ISA database agree on which instruction forms exist; names map back to ids.

S1 translator  : harness/c13_dump.cpp (#includes x86instdb.cpp / a64instdb.cpp / x86instapi.cpp of /repo's working tree) prints the
                 name tables, signature tables and validator tables; tools/c13_gen.py turns them into coq/gen/{X86Names,A64Names,
                 X86Sigs}.v whose reflection lemmas are re-checked by coqc whenever they differ from the committed snapshot
S2 theorems    : coq/theories/Properties/Properties_C13.v (re-checked by coqc on every run)
S3 tie         : harness/c13_harness.cpp (real InstAPI::inst_id_to_string/string_to_inst_id/validate, x86::Assembler with and without
                 kValidateAssembler) vs the extracted model (coq/extract/Extract_InstNames.v + ml/c13_driver.ml), same command stream
S4 search      : independent python oracles: a direct reading of the dumped name tables (dictionary lookup), the ISA database
                 expanded by /repo/db (node) for the validator / encoder verdicts
"""
import json
import os
import random
import re
import vlib
import c13_gen
import c13_forms
import c13_api_names
from concurrent.futures import ThreadPoolExecutor

ARCH_X86, ARCH_X64, ARCH_A64 = 0, 1, 2


def hexs(s):
    return "".join("%02x" % c for c in s) if s else "-"


def run_sharded(exe, cmds, shards=16, timeout=1500):
    chunks = [cmds[i::shards] for i in range(shards)]

    def one(chunk):
        if not chunk:
            return []
        rc, out, err = vlib.sh([exe], inp="\n".join(chunk) + "\n", timeout=timeout)
        lines = out.split("\n")[:-1]
        if rc != 0 or len(lines) != len(chunk):
            return ("ERR", rc, (out[-300:] + err[-500:]))
        return lines
    with ThreadPoolExecutor(max_workers=shards) as ex:
        rs = list(ex.map(one, chunks))
    out = [None] * len(cmds)
    for i, r in enumerate(rs):
        if isinstance(r, tuple):
            return r
        out[i::shards] = r
    return out


# ------------------------------------------------------------------ names
def gen_name_stream(rng, d, tier):
    cmds = []
    names = {"x86": c13_gen.all_names(d, "x86"), "a64": c13_gen.all_names(d, "a64")}
    aliases = c13_gen.alias_names(d)
    for arch, key in ((ARCH_X64, "x86"), (ARCH_X86, "x86"), (ARCH_A64, "a64")):
        cnt = d[key + ".count"][0]
        if arch != ARCH_X86:
            for i in range(0, cnt + 3):
                cmds.append("NI %d %d" % (arch, i))
                cmds.append("NA %d %d" % (arch, i))
            cmds += ["NI %d %d" % (arch, v) for v in (65535, 65536, 1 << 20, (1 << 31) + 5, (1 << 32) - 1)]
        pool = names[key][1:] + (aliases if key == "x86" else [])
        strs = set(pool) if arch != ARCH_X86 else set(rng.sample(pool, 200))
        # near-names: one edit away from a name, case changes, embedded NUL, over-long, non-letter first character
        alpha = "abcdefghijklmnopqrstuvwxyz0123456789_."
        sample = pool if tier == "thorough" else rng.sample(pool, min(len(pool), 500))
        for n in sample:
            strs.add(n[:-1]); strs.add(n + rng.choice(alpha)); strs.add(n[1:])
            k = rng.randrange(len(n))
            strs.add(n[:k] + rng.choice(alpha) + n[k + 1:])
            strs.add(n.upper()); strs.add(n + "\0"); strs.add(rng.choice(alpha) + n)
            strs.add(n + "_v")
        for _ in range(2000 if tier == "quick" else 100000):
            ln = rng.choice([1, 1, 2, 2, 3, 3, 4, 5, 6, 9, 10, 17, 18, 31, 32, 33, 40])
            strs.add("".join(rng.choice("abcdefgklmprstvx") for _ in range(ln)))
        strs |= {"", "a", "z", "{", "`", "A", "0add", "\xff\xfe", "add ", " add", "y" * 17, "v" * 18, "v" * 64}
        for s in sorted(strs):
            cmds.append("NS %d %s" % (arch, hexs([ord(c) for c in s])))
    return cmds


def judge_names(ck, d, cmds, impl, model, stats):
    """correspondence (impl vs model) + independent oracle (python dictionary over the dumped tables)"""
    names = {"x86": c13_gen.all_names(d, "x86"), "a64": c13_gen.all_names(d, "a64")}
    aliases = dict(zip(c13_gen.alias_names(d), d["x86.alias_ids"]))
    # emitter API methods vs the id they are bound to (python reading of the headers + name tables; the Coq twin is C13_api_methods_name_their_ids_*)
    for arch_ in ("a64", "x86"):
        n_m, bad = c13_api_names.check(vlib.REPO, arch_, names[arch_])
        stats["api_methods_%s" % arch_] = n_m
        for meth, idn, tbl in bad:
            if tbl == "<no such id>" or (arch_ == "x86" and aliases.get(meth.rstrip("_")) is not None and names["x86"][aliases[meth.rstrip("_")]] == tbl):
                continue          # condition-code dispatch macros (cmov/j/set), x86 aliases (sal -> shl)
            ck.violation("C13/api-method-wrong-id/%s/%s" % (arch_, meth), "%s::Emitter::%s() is bound to Inst::kId%s, whose name is %r: the method emits a different instruction than it names"
                         % (arch_, meth, idn, tbl), {"method": meth, "id": idn, "name": tbl})
    # AArch64 cross-check with C02's database rows (coq/gen/IsaA64Db.v, read-only): mnemonics of rows C02 models vs AsmJit's name table
    try:
        t_ = open(os.path.join(vlib.COQ, "gen", "IsaA64Db.v")).read()
        mm = re.search(r"mnemonics: (.*?)\n", t_)
        c02 = set(x.split("=")[1] for x in mm.group(1).split())
        a64n = set(names["a64"][1:])
        stats["a64_names_with_c02_rows"] = len(a64n & c02)
        stats["a64_names_without_c02_row"] = sorted(a64n - c02)
        stats["c02_mnemonics_without_asmjit_id"] = len(c02 - a64n)
        vend = set(read_corpus_lines("a64_names_without_c02_row.txt"))
        for nm in sorted(a64n - c02):
            if nm not in vend:
                ck.violation("C13/a64-name-without-database-row/%s" % nm, "AArch64 instruction name %r has no row in the ISA database as modelled by C02 (coq/gen/IsaA64Db.v) and is not on "
                             "corpus/C13/a64_names_without_c02_row.txt: the 'both accept it' half of C13 for AArch64 (C02's sweep) does not cover it" % nm, {"name": nm})
        if os.environ.get("C13_VENDOR") == "1":
            open(os.path.join(CORPUS, "a64_names_without_c02_row.txt"), "w").write("# C13: AArch64 names without a database row in C02's model (covered by the name round trip only)\n" + "".join(n + "\n" for n in sorted(a64n - c02)))
    except (OSError, AttributeError):
        stats["a64_names_with_c02_rows"] = "coq/gen/IsaA64Db.v not readable"
    derived = c13_gen.derived_aliases(d)       # independent source: the alias format strings of the main string table
    stats["aliases_cross_checked_with_format_strings"] = len([a for a in aliases if a in derived])
    stats["aliases_only_in_alias_table"] = sorted(a for a in aliases if a not in derived)
    for a, i in derived.items():
        if a not in aliases:
            ck.violation("C13/x86-alias-missing/%s" % a, "alias %r of %r (format string of the instruction name table) is not in the alias table" % (a, names["x86"][i]),
                         {"alias": a, "target": i})
    aliases.update(derived)
    ids_of = {"x86": {}, "a64": {}}
    for key in ("x86", "a64"):
        for i, n in enumerate(names[key]):
            if i:
                ids_of[key].setdefault(n, []).append(i)
    a64_model = None      # which AArch64 lookup the implementation follows: "scan" (repaired) / "single-range" (pinned)
    a64_diff = []
    for cmd, x, y in zip(cmds, impl, model):
        c = cmd.split()
        arch = int(c[1])
        key = "a64" if arch == ARCH_A64 else "x86"
        stats["names_cmds"] += 1
        xi = x.split(); yi = y.split()
        # ---- correspondence
        if arch == ARCH_A64 and c[0] != "NA":
            y_scan, y_single = " ".join(yi[:-1]), " ".join(yi[:-2] + yi[-1:])
            if x != y_scan:
                a64_diff.append((cmd, x, y))
                if x != y_single:
                    ck.violation("C13/correspondence/names-a64", "a64 name lookup: implementation %r is neither the repaired (scan) model %r nor the "
                                 "pinned single-range model %r on %r" % (x, y_scan, y_single, cmd),
                                 {"command": cmd, "impl": x, "model": y, "broken": "correspondence of InstNames model with /repo (AArch64)"}, no_input=True)
        elif x != y:
            stats["disagreements"] += 1
            ck.violation("C13/correspondence/names-x86", "x86 name lookup: implementation %r, model %r on %r" % (x, y, cmd),
                         {"command": cmd, "impl": x, "model": y, "broken": "correspondence of InstNames model with /repo (x86)"}, no_input=True)
        # ---- oracle on the implementation's answer
        if c[0] == "NA":
            # formatted name: the python reading of the format string (independent of the Coq model)
            iid = int(c[2]); real = iid & 0xFFFF if arch == ARCH_A64 else iid
            if real < d[key + ".count"][0]:
                want = c13_gen.formatted_name(d, key, real)
                got = bytes.fromhex(xi[2]).decode("latin1") if xi[2] != "-" else ""
                stats["formatted_names"] = stats.get("formatted_names", 0) + 1
                if xi[1] != "0" or got != want:
                    ck.violation("C13/%s-formatted-name/%d" % (key, iid), "inst_id_to_string(%d, kAliases) = (%s, %r), table says %r" % (iid, xi[1], got, want), {"command": cmd, "impl": x})
            elif xi[1] == "0":
                ck.violation("C13/%s-undefined-id-has-name" % key, "inst_id_to_string(kAliases) accepts undefined id %d" % iid, {"command": cmd, "impl": x})
            continue
        if c[0] == "NI":
            iid = int(c[2])
            real = iid & 0xFFFF if arch == ARCH_A64 else iid
            cnt = d[key + ".count"][0]
            if real >= cnt:
                if xi[1] == "0":
                    ck.violation("C13/%s-undefined-id-has-name" % key, "inst_id_to_string accepts undefined id %d" % iid, {"command": cmd, "impl": x})
                continue
            want = names[key][real]
            got = bytes.fromhex(xi[2]).decode("latin1") if xi[2] != "-" else ""
            if xi[1] != "0" or got != want:
                ck.violation("C13/%s-id-to-string/%d" % (key, iid), "inst_id_to_string(%d) = (%s, %r), table says %r" % (iid, xi[1], got, want), {"command": cmd, "impl": x})
                continue
            if real == 0:
                continue
            back = int(xi[3])
            stats["roundtrips"] += 1
            if back == 0 or back >= cnt or names[key][back] != want:
                ck.violation("C13/%s-name-unreachable/%s" % (key, want), "string_to_inst_id(inst_id_to_string(%d) = %r) = %d which does not carry this name"
                             % (iid, want, back), {"command": cmd, "impl": x, "name": want})
            elif len(ids_of[key][want]) == 1 and back != real:
                ck.violation("C13/%s-name-wrong-id/%s" % (key, want), "unique name %r of id %d maps back to %d" % (want, real, back), {"command": cmd, "impl": x})
        else:
            s = bytes.fromhex(c[2]).decode("latin1") if c[2] != "-" else ""
            got = int(xi[1])
            cand = list(ids_of[key].get(s, []))
            if key == "x86" and not cand and s in aliases:
                cand = [aliases[s]]
            if len(s) > d[key + ".maxlen"][0]:
                cand = [c_ for c_ in cand if False]
            stats["lookups"] += 1
            if cand:
                stats["lookups_hit"] += 1
            if (cand and got not in cand) or (not cand and got != 0):
                if cand:
                    ck.violation("C13/%s-name-unreachable/%s" % (key, s), "string_to_inst_id(%r) = %d, the tables name ids %s so" % (s, got, cand), {"command": cmd, "impl": x, "name": s})
                else:
                    ck.violation("C13/%s-non-name-accepted/%s" % (key, hexs([ord(ch) for ch in s])), "string_to_inst_id(%r) = %d but nothing carries this name" % (s, got),
                                 {"command": cmd, "impl": x})
    stats["a64_lookup_follows"] = "repaired scan model" if not a64_diff else "pinned single-range model (%d answers differ from the repaired model)" % len(a64_diff)
    stats["disagreements"] += len(a64_diff)


# ------------------------------------------------------------------ validator / encoder / database
CORPUS = os.path.join(vlib.VERIF, "corpus", "C13")


def read_corpus(name):
    p = os.path.join(CORPUS, name)
    out = {}
    if os.path.exists(p):
        for l in open(p).read().splitlines():
            if l.strip() and not l.startswith("#"):
                c, k = l.split("\t")
                out[c] = k
    return out


def run_db_rows(ck, d, forms, stats):
    """C13_signature_rows_present, python side: the database rows (kind level) of the CURRENT database against the CURRENT tables;
    names a vendored row that is no longer contained, and any absent row that is not on the vendored exception list"""
    names = c13_gen.all_names(d, "x86")
    n2i = {n: i for i, n in enumerate(names) if i}
    rows, unsupported = c13_forms.db_rows(forms, n2i)
    fmt = lambda r: "%d %d %d %s" % (r[1], r[2], len(r[3]), " ".join("%d %d %d" % o for o in r[3]))
    vend_present = read_corpus("db_rows_x86.txt")
    vend_absent = read_corpus("db_rows_absent_x86.txt")
    present, absent = {}, {}
    for r in rows:
        (present if c13_forms.row_present(d, r) else absent)[fmt(r)] = r[0]
    for line, key in vend_present.items():
        t = [int(x) for x in line.split()]
        row = (key, t[0], t[1], tuple((t[3 + 3 * k], t[4 + 3 * k], t[5 + 3 * k]) for k in range(t[2])))
        if not c13_forms.row_present(d, row):
            ck.violation("C13/signature-row-missing/%s/%d" % (key, t[1]), "database row %r (modes %d) is no longer contained in any signature record of its "
                         "instruction (_inst_signature_table / _op_signature_table): dropped or narrowed row" % (key, t[1]), {"row": line, "form": key})
    for line, key in absent.items():
        if line not in vend_absent and line not in vend_present:
            ck.violation("C13/signature-row-absent/%s/%s" % (key, line.split()[1]), "database row %r of an instruction AsmJit has is contained in no signature record and is not on the "
                         "list of known absent rows (corpus/C13/db_rows_absent_x86.txt)" % key, {"row": line, "form": key})
    stats.update({"db_kind_rows": len(rows), "db_kind_rows_present": len(present), "db_kind_rows_absent_known": len([l for l in absent if l in vend_absent]),
                  "db_rows_not_expressible": len(unsupported), "db_kind_rows_present_not_vendored": len([l for l in present if l not in vend_present])})
    # converse (weak): signature records that admit no database row of their instruction, against the vendored exception list
    orphans = [(names[i], k) for i, k in c13_forms.orphan_records(d, [r for r in rows if fmt(r) in present])]
    vend_orph = set(tuple(l.split()) for l in read_corpus_lines("records_without_origin_x86.txt"))
    for nm, k in orphans:
        if (nm, str(k)) not in vend_orph:
            ck.violation("C13/signature-record-without-origin/%s/%d" % (nm, k), "signature record #%d of %r admits no database row of %r (operand kinds, implicit flags, a shared mode): "
                         "a record that widens what validate() accepts beyond the database" % (k, nm, nm), {"instruction": nm, "record": k})
    stats["signature_records_without_db_origin_known"] = len([o for o in orphans if (o[0], str(o[1])) in vend_orph])
    # decorations the database grants vs the InstFlags / Avx512Flags of the instruction
    dec = c13_forms.db_decorations(forms, n2i)
    vend_dec = set(tuple(l.split()) for l in read_corpus_lines("db_decorations_x86.txt"))
    vend_dec_absent = set(tuple(l.split()) for l in read_corpus_lines("db_decorations_absent_x86.txt"))
    dec_present, dec_absent = [], []
    for i in sorted(dec):
        for dc in sorted(dec[i]):
            (dec_present if c13_forms.decoration_has(d, i, dc) else dec_absent).append((names[i], dc))
    for nm, dc in vend_dec:
        if nm in n2i and not c13_forms.decoration_has(d, n2i[nm], dc):
            ck.violation("C13/decoration-flag-missing/%s/%s" % (nm, dc), "the database grants %r the decoration %r and the reference tables had the flag validate() demands for it; "
                         "the current tables do not (InstFlags / Avx512Flags of the instruction)" % (nm, dc), {"instruction": nm, "decoration": dc})
    for nm, dc in dec_absent:
        if (nm, dc) not in vend_dec_absent and (nm, dc) not in vend_dec:
            ck.violation("C13/decoration-flag-absent/%s/%s" % (nm, dc), "the database grants %r the decoration %r but the tables lack the flag validate() demands for it "
                         "(not on corpus/C13/db_decorations_absent_x86.txt)" % (nm, dc), {"instruction": nm, "decoration": dc})
    stats.update({"db_decorations": len(dec_present) + len(dec_absent), "db_decorations_present": len(dec_present),
                  "db_decorations_absent_known": len([x for x in dec_absent if x in vend_dec_absent])})
    if os.environ.get("C13_VENDOR") == "1":
        os.makedirs(CORPUS, exist_ok=True)
        open(os.path.join(CORPUS, "db_decorations_x86.txt"), "w").write(
            "# C13: <mnemonic> <decoration the database grants and whose flag the reference tables carry>\n" + "".join("%s %s\n" % x for x in dec_present))
        open(os.path.join(CORPUS, "db_decorations_absent_x86.txt"), "w").write(
            "# C13: <mnemonic> <decoration the database grants but whose flag the tables lack>: known (AVX10.2 forms of VEX instructions)\n" + "".join("%s %s\n" % x for x in dec_absent))
    # rows with ONE granted decoration each (theorem C13_db_rows_decorated_representatives_validate): counted; the deciding evaluation is the Coq one
    drs = [r for r in c13_forms.db_decorated_rows(forms, n2i, d) if c13_forms.row_present(d, (r[0], r[1], r[2], r[3]))]
    dfmt = lambda r: "%d %d %d %s %d %d %d" % (r[1], r[2], len(r[3]), " ".join("%d %d %d" % o for o in r[3]), r[4], r[5], r[6])
    vend_dr = read_corpus("db_rows_decorated_x86.txt")
    now_dr = {dfmt(r): r[0] for r in drs}
    stats.update({"db_rows_decorated": len(now_dr), "db_rows_decorated_vendored": len(vend_dr), "db_rows_decorated_not_vendored": len([l for l in now_dr if l not in vend_dr]),
                  "db_rows_decorated_vendored_gone": len([l for l in vend_dr if l not in now_dr])})
    if os.environ.get("C13_VENDOR") == "1":
        os.makedirs(CORPUS, exist_ok=True)
        with open(os.path.join(CORPUS, "db_rows_decorated_x86.txt"), "w") as f:
            f.write("# C13: database rows with one decoration the form grants: <inst> <mode> <n> {<need> <fixed> <implicit>}*n <options> <extra type> <extra id> \\t <row>,<decoration>\n")
            for l in sorted(now_dr, key=lambda x: [int(v) for v in x.split()]):
                f.write("%s\t%s\n" % (l, now_dr[l]))
    # converse, bit level: record operand kinds that no admitted database row names
    kinds = [(names[i], k, q, b) for i, k, q, b in c13_forms.kinds_without_origin(d, [r for r in rows if fmt(r) in present])]
    vend_kinds = set(tuple(l.split()) for l in read_corpus_lines("kinds_without_origin_x86.txt"))
    for nm, k, q, b in kinds:
        if (nm, str(k), str(q), str(b)) not in vend_kinds:
            ck.violation("C13/signature-kind-without-origin/%s/%d/%d/%#x" % (nm, k, q, b), "operand %d of signature record #%d of %r accepts operand kind %#x (InstDB::OpFlags) that no database row "
                         "of %r admitted by this record names: the record was widened beyond the database" % (q, k, nm, b, nm), {"instruction": nm, "record": k, "operand": q, "kind_bit": b})
    stats["signature_kind_bits_without_db_origin_known"] = len([x for x in kinds if (x[0], str(x[1]), str(x[2]), str(x[3])) in vend_kinds])
    if os.environ.get("C13_VENDOR") == "1":
        os.makedirs(CORPUS, exist_ok=True)
        with open(os.path.join(CORPUS, "kinds_without_origin_x86.txt"), "w") as f:
            f.write("# C13: <mnemonic> <record index> <operand index> <OpFlags kind bit> of record operand kinds that no admitted database row names: known.\n")
            for x in kinds:
                f.write("%s %d %d %d\n" % x)
        with open(os.path.join(CORPUS, "records_without_origin_x86.txt"), "w") as f:
            f.write("# C13: signature records (<mnemonic> <index within the instruction's records>) that admit no database row of their instruction: known.\n")
            for nm, k in orphans:
                f.write("%s %d\n" % (nm, k))
        with open(os.path.join(CORPUS, "db_rows_x86.txt"), "w") as f:
            f.write("# C13: ISA database rows (one operand kind per operand) contained in the signature tables of the reference tree.\n"
                    "# <inst id> <mode bits> <n> {<needed OpFlags> <fixed register bit> <implicit>}*n \\t <row>; regenerate with C13_VENDOR=1 ./check C13 --tier thorough\n")
            for l in sorted(present, key=lambda x: [int(v) for v in x.split()]):
                f.write("%s\t%s\n" % (l, present[l]))
        with open(os.path.join(CORPUS, "db_rows_absent_x86.txt"), "w") as f:
            f.write("# C13: ISA database rows of instructions AsmJit has that NO signature record contains (APX NDD forms, AVX10.2 zmm forms ...): known, reported as count.\n")
            for l in sorted(absent, key=lambda x: [int(v) for v in x.split()]):
                f.write("%s\t%s\n" % (l, absent[l]))
        ck.log("vendored %d present / %d absent database rows" % (len(present), len(absent)))


LLVM_ATTR = "+avx512f,+avx512vl,+avx512bw,+avx512dq,+avx512cd,+avx512vnni,+avx512bf16,+avx512fp16,+avxvnni,+avx512vbmi,+avx512vbmi2,+avx512ifma,+gfni,+vaes,+vpclmulqdq"


def adjudicate(samples):
    """llvm-mc (independent disassembler) on the bytes the assembler produced for a form the validator refuses: who is right?"""
    out = []
    for (name, who), (key, mode, cmd, b0) in sorted(samples.items()):
        rec = {"form": key, "mode": mode, "who_accepts": who, "command": cmd}
        if who == "encoder-only" and b0 != "-":
            hexs_ = " ".join("0x" + b0[i:i + 2] for i in range(0, len(b0), 2))
            rc, o, e = vlib.sh(["llvm-mc", "--disassemble", "-triple=" + ("x86_64" if mode else "i386"), "-mattr=" + LLVM_ATTR, "--output-asm-variant=1"], inp=hexs_ + "\n", timeout=30)
            lines = [l.strip() for l in o.splitlines() if l.strip() and not l.strip().startswith(".")]
            rec["bytes"] = b0
            rec["llvm_mc"] = lines[0] if lines else "<not decodable>"
            if not lines or "invalid" in e:
                rec["verdict"] = "unknown to llvm-mc 14 (cannot adjudicate)"
            else:
                t = lines[0].split(None, 1)
                mn = t[0]
                nops_llvm = len([x for x in (t[1].split(",") if len(t) > 1 else []) if x.strip()])
                nops_form = len([x for x in key.split(" ", 1)[1].split(",") if x and not x.startswith("{") and x not in ("lock", "rep", "repne", "fs:", "addr32", "addr16", "r8-15", "v16-31", "imm<0") and not x.startswith("idx*")])
                if mn != name:
                    rec["verdict"] = "assembler emitted a DIFFERENT instruction (%s): the validator is right to refuse, the assembler should refuse too" % mn
                elif nops_llvm != nops_form:
                    rec["verdict"] = "assembler emitted another form of the mnemonic (%d operands instead of %d): the validator is right" % (nops_llvm, nops_form)
                else:
                    rec["verdict"] = "assembler emitted the form the database lists: the validator tables lack it"
        else:
            rec["verdict"] = "assembler refuses a form the database lists and the validator accepts"
        out.append(rec)
    return out


def read_corpus_lines(name):
    p = os.path.join(CORPUS, name)
    return [l for l in open(p).read().splitlines() if l.strip() and not l.startswith("#")] if os.path.exists(p) else []


def run_forms(ck, d, impl, model, rng, stats):
    """verdict differential over all database forms (+ decorations + near-miss mutations); see module docstring"""
    rc, out, err = vlib.sh(["node", os.path.join(vlib.VERIF, "tools", "c13_dbforms.js"), vlib.REPO], timeout=300)
    if rc != 0:
        raise RuntimeError("node c13_dbforms.js failed: %s" % err[-2000:])
    forms = c13_forms.load_forms(out)
    run_db_rows(ck, d, forms, stats)
    names = c13_gen.all_names(d, "x86")
    n2i = {n: i for i, n in enumerate(names) if i}
    items, skipped = c13_forms.instantiate(forms, n2i, rng, ck.tier)
    # corpus commands are always replayed (a form that silently stops being accepted must be noticed even if the database row vanished)
    vend_impl = read_corpus("implemented_x86.txt")
    vend_excl = read_corpus("excluded_x86.txt")
    have = set(it["cmd"] for it in items)
    for c, k in list(vend_impl.items()) + list(vend_excl.items()):
        if c not in have:
            items.append({"cmd": c, "form": -1, "mode": int(c.split()[1]) & 1, "kind": "corpus", "key": k, "allowed": c in vend_impl})
            have.add(c)
    cmds = [it["cmd"] for it in items]
    ck.log("form stream: %d commands from %d database forms (%d forms name no AsmJit instruction, %d not instantiable)"
           % (len(cmds), len(forms), len(skipped["no-such-instruction"]), len(skipped["operand-kind"])))
    ri = run_sharded(impl, cmds)
    rm = run_sharded(model, cmds)
    if isinstance(ri, tuple) or isinstance(rm, tuple):
        bad = ri if isinstance(ri, tuple) else rm
        ck.violation("C13/harness-crash", "harness or model driver failed on the form stream: %s" % (bad,), {"commands": cmds[:3], "detail": str(bad)}, no_input=True)
        return None
    # which (mode, command) does the database allow / exclude?  (a command may be generated by several forms)
    allowed_cmds = set(it["cmd"] for it in items if it["allowed"] and not it["kind"].startswith("mut"))
    zero_ok = set()      # instruction names the database gives a form without explicit operands, per mode
    for f in forms:
        if all(o["implicit"] for o in f["operands"]):
            for m in (0, 1):
                if f["arch"] == "ANY" or (f["arch"] == "X64") == (m == 1):
                    zero_ok.add((f["name"], m))
    st = stats
    st.update({"form_cmds": len(cmds), "db_forms": len(forms), "db_forms_without_asmjit_instruction": len(skipped["no-such-instruction"]),
               "db_forms_not_instantiable": len(skipped["operand-kind"])})
    for k in ("db_allowed", "db_implemented", "db_refused_by_both", "db_excluded", "db_excluded_refused", "mutations", "mut_both_accept", "mut_both_refuse",
              "mut_encoder_only", "mut_validator_only", "hook_checked", "validator_model_diff", "new_implemented_not_vendored", "a_validator_follows_pinned_quirk"):
        st.setdefault(k, 0)
    impl_now, excl_now = {}, {}
    disagree_samples = {}
    follows = {"repaired": 0, "pinned": 0}
    for it, x, y in zip(items, ri, rm):
        a = x.split(); m = y.split()
        cmd = it["cmd"]; name = it["key"].split()[0]; mode = it["mode"]
        if len(a) != 9 or a[1] == "parse-error":
            ck.violation("C13/harness-protocol", "harness could not build %r: %r" % (cmd, x), {"command": cmd, "detail": x}, no_input=True)
            continue
        verr, e0, b0, e1, b1 = int(a[1]), int(a[2]), a[3], int(a[4]), a[5]
        nops = int(cmd.split()[6])
        # ---- correspondence validator model <-> InstAPI::validate (error code compared)
        m_fixed, m_pinned = int(m[1]), int(m[2])
        if verr == m_fixed:
            if m_fixed != m_pinned:
                follows["repaired"] += 1
        elif verr == m_pinned:
            follows["pinned"] += 1
        else:
            st["validator_model_diff"] += 1
            ck.violation("C13/correspondence/validate", "InstAPI::validate answers %d, the model %d (pinned variant %d) on %r" % (verr, m_fixed, m_pinned, cmd),
                         {"command": cmd, "impl": x, "model": y, "broken": "correspondence of X86Validate model with /repo"}, no_input=True)
        # ---- oracle 1: validator accepts a call without operands although the database has no such form of the instruction
        if verr == 0 and nops == 0 and (name, mode) not in zero_ok:
            ck.violation("C13/validate-accepts-no-operands/%s" % name, "validate(%s) in %s mode accepts %r WITHOUT operands (assembler: error %d); the database has no "
                         "operand-less form of it" % (name, "64-bit" if mode else "32-bit", name, e0), {"command": cmd, "impl": x, "model": y})
            continue
        # ---- oracle 2: the validation hook: with kValidateAssembler the result is the validator's error, else exactly the plain result
        st["hook_checked"] += 1
        want_e1 = verr if verr else e0
        if e1 != want_e1 or (verr != 0 and b1 != "-") or (verr == 0 and b1 != b0):
            ck.violation("C13/validation-hook/%s" % name, "%r: validate=%d, emit without validation=(%d,%s), with validation=(%d,%s): switching validation on must "
                         "give the validator's error or the identical result" % (cmd, verr, e0, b0, e1, b1), {"command": cmd, "impl": x})
        # ---- oracle 2b: the Builder path (kValidateIntermediate): emit returns the validator's verdict; an accepted instruction serializes
        # (finalize) to exactly what the Assembler produces directly
        eb, ef, bb = int(a[6]), int(a[7]), a[8]
        st["builder_hook_checked"] = st.get("builder_hook_checked", 0) + 1
        if eb != verr or (verr == 0 and (ef != e0 or (e0 == 0 and bb != b0))):
            ck.violation("C13/builder-validation-hook/%s" % name, "%r: validate=%d, Assembler=(%d,%s), Builder with kValidateIntermediate: emit=%d, finalize=(%d,%s): the Builder must "
                         "return the validator's verdict and serialize an accepted instruction to the Assembler's bytes" % (cmd, verr, e0, b0, eb, ef, bb), {"command": cmd, "impl": x})
        kind = it["kind"]
        if kind.startswith("mut"):
            st["mutations"] += 1
            if cmd in allowed_cmds:
                continue                      # the mutation happens to be another database form
            if verr == 0 and e0 == 0:
                st["mut_both_accept"] += 1
            elif verr != 0 and e0 != 0:
                st["mut_both_refuse"] += 1
            elif e0 == 0:
                st["mut_encoder_only"] += 1  # lenient encoder on a non-database tuple: counted (C14's domain), not a C13 violation
            else:
                st["mut_validator_only"] += 1
                ck.violation("C13/validator-accepts-encoder-refuses/%s/%s" % (name, kind[4:]), "near miss (%s) of %r in mode %d: validator accepts, assembler refuses with %d: %r"
                             % (kind[4:], it["key"], mode, e0, cmd), {"command": cmd, "impl": x})
            continue
        if it["allowed"] or cmd in allowed_cmds:
            st["db_allowed"] += 1
            if verr == 0 and e0 == 0:
                st["db_implemented"] += 1
                impl_now[cmd] = it["key"]
            elif verr != 0 and e0 != 0:
                st["db_refused_by_both"] += 1
            else:
                who = "validator-only" if verr == 0 else "encoder-only"
                disagree_samples.setdefault((name, who), (it["key"], mode, cmd, b0))
                ck.violation("C13/validator-encoder-disagree/%s/%s" % (name, who), "database form %r (mode %d): validate=%d, assembler=%d (%s): %r"
                             % (it["key"], mode, verr, e0, b0, cmd), {"command": cmd, "impl": x, "form": it["key"]})
            if cmd in vend_impl and not (verr == 0 and e0 == 0):
                ck.violation("C13/form-no-longer-accepted/%s/%d" % (it["key"], mode), "database form %r (mode %d) is on the vendored list of implemented forms "
                             "(corpus/C13/implemented_x86.txt) but is now refused: validate=%d, assembler=%d: %r" % (it["key"], mode, verr, e0, cmd),
                             {"command": cmd, "impl": x, "form": it["key"]})
        else:
            st["db_excluded"] += 1
            excl_now[cmd] = it["key"]
            if verr != 0:
                st["db_excluded_refused"] += 1
            else:
                ck.violation("C13/excluded-mode-accepted/%s/%d" % (it["key"], mode), "database form %r is not available in %s mode (and no sibling form is) but "
                             "validate accepts it: %r" % (it["key"], "64-bit" if mode else "32-bit", cmd), {"command": cmd, "impl": x, "form": it["key"]})
    st["new_implemented_not_vendored"] = len([c for c in impl_now if c not in vend_impl])
    st["disagreement_adjudication_llvm_mc"] = adjudicate(disagree_samples)
    st["validator_follows"] = ("repaired model" if follows["pinned"] == 0 else "pinned model with the operand-count quirk (%d answers)" % follows["pinned"])
    if follows["pinned"] and follows["repaired"]:
        ck.violation("C13/correspondence/validate-mixed", "validate follows neither model consistently (%s)" % follows, {"broken": "correspondence of X86Validate"}, no_input=True)
    if os.environ.get("C13_VENDOR") == "1":
        os.makedirs(CORPUS, exist_ok=True)
        with open(os.path.join(CORPUS, "implemented_x86.txt"), "w") as f:
            f.write("# C13: instantiations of ISA database forms accepted by validator AND assembler of the pinned release (mode the database allows).\n"
                    "# <harness command>\\t<form key>; regenerate with C13_VENDOR=1 ./check C13 --tier thorough\n")
            for c in sorted(impl_now):
                f.write("%s\t%s\n" % (c, impl_now[c]))
        with open(os.path.join(CORPUS, "excluded_x86.txt"), "w") as f:
            f.write("# C13: instantiations of ISA database forms in a mode the database excludes (no sibling form allows it): must be refused.\n")
            for c in sorted(excl_now):
                f.write("%s\t%s\n" % (c, excl_now[c]))
        ck.log("vendored %d implemented / %d excluded forms into corpus/C13" % (len(impl_now), len(excl_now)))
    z = list(zip(cmds, ri, rm))
    return [{"cmd": c, "impl": x, "model": y} for c, x, y in z[:2] + z[len(z) // 2: len(z) // 2 + 2]]


# ------------------------------------------------------------------ validator correspondence on operands the database sweep never builds
REG_TYPES = [2, 3, 4, 5, 6, 7, 8, 9, 10, 11, 12, 13, 14, 15, 16, 17, 25, 26, 27, 28, 29, 30, 31]
OPT_BITS = [8192, 65536, 131072, 16384, 32768, 8388608, 262144, 524288, 1073741824, 4096]
IMM_EDGES = [0, 1, 7, 8, 15, 16, 127, 128, 255, 256, 32767, 32768, 65535, 65536, 2147483647, 2147483648, 4294967295, 4294967296,
             (1 << 63) - 1, -1, -8, -9, -128, -129, -32768, -32769, -2147483648, -2147483649, -(1 << 63)]


def rand_operand(rng, wild):
    k = rng.random()
    if k < 0.40:
        t = rng.choice(REG_TYPES if wild else [2, 3, 4, 5, 6, 11, 12, 13, 16, 28])
        rid = rng.choice([0, 1, 2, 3, 4, 5, 7, 8, 9, 15, 16, 17, 31] + ([32, 100, 254, 255, 256, 300, 1000] if wild else []))
        return "R %d %d" % (t, rid)
    if k < 0.75:
        size = rng.choice([0, 1, 2, 4, 8, 16, 32, 64] + ([3, 6, 10, 12, 48, 128] if wild else []))
        bt = rng.choice([0, 1, 4, 5, 6, 6, 5, 31] + ([2, 11, 16, 25] if wild else []))
        bid = rng.choice([0, 3, 4, 5, 8, 13, 15] + ([31, 32, 200, 256, 400] if wild else []))
        it = rng.choice([0, 0, 0, 5, 6, 11, 12, 13] + ([4, 16, 2] if wild else []))
        iid = rng.choice([0, 1, 6, 9, 15, 20] + ([31, 32, 256, 300] if wild else []))
        if bt == 0:
            off = rng.choice([0, 16, -16, 0x1234, 2147483647, 2147483648, 4294967295, 4294967296, -2147483648, -2147483649, 1 << 40, -(1 << 40)])
        else:
            off = rng.choice([0, 0, 16, -16, 127, 128, 2147483647, -2147483648])
        seg = rng.choice([0, 0, 0, 1, 4, 6] + ([7] if wild else []))
        bc = rng.choice([0, 0, 0, 1, 2, 3, 4] + ([5, 7] if wild else []))
        home = 1 if rng.random() < 0.05 else 0
        return "M %d %d %d %d %d %d %d %d %d %d" % (size, bt, bid, it, iid, rng.randrange(4), off, seg, bc, home)
    if k < 0.90:
        return "I %d" % (rng.choice(IMM_EDGES) if rng.random() < 0.7 else rng.randrange(-(1 << 63), 1 << 63))
    if k < 0.95:
        return "L"
    return "N"


def perturb(rng, cmd):
    """small random change of a database instantiation: keeps the stream close to what the validator accepts"""
    t = cmd.split()
    head, rest = t[:7], t[7:]
    ops = []
    while rest:
        n = {"R": 3, "M": 11, "I": 2, "L": 1, "N": 1}[rest[0]]
        ops.append(rest[:n]); rest = rest[n:]
    what = rng.randrange(11)
    if what == 10:
        # trailing empty slots (C13_validate_padding_invariant): the verdict must not move
        ops = ops + [["N"]] * rng.randrange(1, 7 - min(len(ops), 6)) if len(ops) < 6 else ops
        head[6] = str(len(ops)); head[0] = "V"
        return " ".join(head + [x for o in ops for x in o])
    if what == 0 and ops:
        ops[rng.randrange(len(ops))] = rand_operand(rng, rng.random() < 0.3).split()
    elif what == 1:
        head[3] = str(int(head[3]) ^ rng.choice(OPT_BITS))
    elif what == 2:
        head[4], head[5] = rng.choice([("16", str(rng.choice([0, 1, 3, 7, 8, 9]))), ("5", "1"), ("6", "1"), ("4", "1"), ("5", "3"), ("11", "1"), ("0", "0")])
    elif what == 3 and ops:
        o = ops[rng.randrange(len(ops))]
        if o[0] == "R":
            o[2] = str(rng.choice([0, 1, 2, 4, 7, 8, 12, 15, 16, 24, 31, 32, 256, 300]))
        elif o[0] == "M":
            f = rng.choice([1, 2, 3, 4, 5, 7, 8, 9, 10])
            o[f] = str(rng.choice({1: [0, 1, 2, 4, 8, 16, 32, 64, 5], 2: [0, 1, 4, 5, 6, 31, 11], 3: [0, 4, 5, 12, 31, 32, 256], 4: [0, 5, 6, 11, 12, 13, 4],
                                   5: [0, 4, 8, 17, 32, 256], 7: [0, 8, 128, -129, 2147483647], 8: [0, 1, 6, 7], 9: [0, 1, 2, 3, 4, 5], 10: [0, 1]}[f]))
        elif o[0] == "I":
            o[1] = str(rng.choice(IMM_EDGES))
    elif what == 4:
        head[1] = str(int(head[1]) ^ 1)
    elif what == 5 and ops:
        ops.insert(rng.randrange(len(ops) + 1), ["N"])
    elif what == 6 and len(ops) >= 2:
        i, j = rng.sample(range(len(ops)), 2); ops[i], ops[j] = ops[j], ops[i]
    elif what == 7:
        head[1] = str(int(head[1]) | 2)
        for o in ops:
            if o[0] == "R" and rng.random() < 0.5:
                o[2] = str(rng.choice([256, 257, 300]))
            if o[0] == "M" and rng.random() < 0.5:
                o[3] = "300"
    elif what == 8 and ops:
        # low/high byte registers with and without REX
        ops[rng.randrange(len(ops))] = ["R", str(rng.choice([2, 3])), str(rng.choice([0, 1, 3, 4, 7, 8, 12]))]
        if rng.random() < 0.3:
            head[3] = str(int(head[3]) | 1073741824)
    else:
        ops = ops[:rng.randrange(len(ops) + 1)]
    ops = ops[:6]
    head[6] = str(len(ops)); head[0] = "V"
    return " ".join(head + [x for o in ops for x in o])


def run_validator_stream(ck, d, impl, model, rng, stats):
    vend = sorted(read_corpus("implemented_x86.txt"))
    n = 60000 if ck.tier == "quick" else 1500000
    cmds = []
    ninst = d["x86.count"][0]
    for i in range(n):
        if vend and i % 3 != 0:
            cmds.append(perturb(rng, rng.choice(vend)))
        else:
            wild = rng.random() < 0.4
            nops = rng.choice([0, 1, 1, 2, 2, 2, 3, 3, 4, 5, 6])
            opt = 0
            if rng.random() < 0.3:
                for _ in range(rng.randrange(1, 3)):
                    opt |= rng.choice(OPT_BITS)
            et, eid = rng.choice([(0, 0)] * 6 + [(16, 1), (16, 0), (16, 9), (5, 1), (6, 1), (6, 2), (4, 1), (6, 256)])
            inst = rng.choice([rng.randrange(ninst), rng.randrange(ninst), rng.randrange(ninst + 3), ninst, 65535])
            cmds.append("V %d %d %d %d %d %d %s" % (rng.randrange(4), inst, opt, et, eid, nops, " ".join(rand_operand(rng, wild) for _ in range(nops))))
    # boundaries of the case splits of the proofs: register ids 7/8/15/16/31/32 on every vendored form with a vector or GP register (EVEX and non-EVEX
    # instructions, both modes), mask register ids 0/1/7/8 as {k}, lone {sae} / {er} / {z} option bits on the same forms
    seen_inst = {}
    for c in vend:
        t = c.split()
        if t[2] not in seen_inst and " R 11 " in c:
            seen_inst[t[2]] = c
    nb = 0
    for c in seen_inst.values():
        t = c.split()
        k = t.index("R", 7)
        for rid in (7, 8, 15, 16, 31, 32):
            cmds.append(" ".join(["V"] + t[1:k + 2] + [str(rid)] + t[k + 3:])); nb += 1
        for et, ei in ((16, 0), (16, 1), (16, 7), (16, 8)):
            cmds.append(" ".join(["V"] + t[1:4] + [str(et), str(ei)] + t[6:])); nb += 1
        for ob in (524288, 262144, 8388608, 4096):
            cmds.append(" ".join(["V", t[1], t[2], str(int(t[3]) | ob)] + t[4:])); nb += 1
    stats["validator_stream_boundary_cmds"] = nb
    ck.log("validator stream: %d commands" % len(cmds))
    ri = run_sharded(impl, cmds)
    rm = run_sharded(model, cmds)
    if isinstance(ri, tuple) or isinstance(rm, tuple):
        bad = ri if isinstance(ri, tuple) else rm
        ck.violation("C13/harness-crash", "harness or model driver failed on the validator stream: %s" % (bad,), {"commands": cmds[:3], "detail": str(bad)}, no_input=True)
        return []
    errs = {}
    acc = 0; unbuildable = 0; pinned = 0
    for c, x, y in zip(cmds, ri, rm):
        a = x.split(); m = y.split()
        if a[1] == "parse-error":
            unbuildable += 1
            continue
        v = int(a[1])
        errs[v] = errs.get(v, 0) + 1
        acc += v == 0
        if v == int(m[1]):
            continue
        if v == int(m[2]) and (int(c.split()[6]) == 0 or c.split()[7] == "N"):
            pinned += 1       # the operand-count quirk (reported by run_forms with the instruction's name)
            continue
        stats["validator_model_diff"] = stats.get("validator_model_diff", 0) + 1
        # sharper search: is this very tuple a failing input of the PROPERTY (validator accepts what the assembler refuses)? ask the real assembler
        found = False
        if int(c.split()[1]) < 2 and v == 0:
            rc_, o_, e_ = vlib.sh([impl], inp="E " + c[2:] + "\n", timeout=60)
            a_ = o_.split()
            if len(a_) == 9 and int(a_[1]) == 0 and int(a_[2]) != 0:
                found = True
                ck.violation("C13/validator-accepts-encoder-refuses/%s/model-diff" % c.split()[2], "the validator accepts (model: refuses with %s) and the assembler refuses with %s: %r"
                             % (m[1], a_[2], "E " + c[2:]), {"command": "E " + c[2:], "impl": o_.strip(), "model": y})
        if not found:
            ck.violation("C13/correspondence/validate", "InstAPI::validate answers %d, the model %s on %r" % (v, m[1:], c),
                         {"command": c, "impl": x, "model": y, "broken": "correspondence of X86Validate model with /repo"}, no_input=True)
    stats.update({"validator_stream_cmds": len(cmds), "validator_stream_accepted": acc, "validator_stream_unbuildable": unbuildable,
                  "validator_stream_pinned_quirk_answers": pinned, "validator_stream_errors_seen": {str(k): v for k, v in sorted(errs.items())}})
    z = list(zip(cmds, ri, rm))
    return [{"cmd": c, "impl": x, "model": y} for c, x, y in z[:3]]


# ------------------------------------------------------------------ did the modelled C++ text change?
MODELLED = [  # (file, first line marker, end marker (exclusive) or None = to the end of the file)
    ("asmjit/core/instdb.cpp", "namespace InstNameUtils {", None),
    ("asmjit/x86/x86instapi.cpp", "Error inst_id_to_string(", "// x86::InstInternal - Validate"),
    ("asmjit/x86/x86instapi.cpp", "struct X86ValidationData {", "// x86::InstInternal - QueryRWInfo"),
    ("asmjit/arm/a64instapi.cpp", "Error inst_id_to_string(", "// a64::InstInternal - Validate"),
]


def modelled_source_text():
    out = []
    for rel, a, b in MODELLED:
        try:
            txt = open(os.path.join(vlib.REPO, rel)).read()
        except OSError:
            out.append("### %s: <missing>" % rel)
            continue
        i = txt.find(a)
        j = txt.find(b, i) if (b and i >= 0) else len(txt)
        out.append("### %s [%s .. %s]" % (rel, a, b))
        out.append(txt[i:j].rstrip() if i >= 0 and j >= 0 else "<marker not found>")
    return "\n".join(out) + "\n"


def source_drift(ck):
    """the C++ text the models transliterate (name utilities, string_to_inst_id, the whole x86 validate()) is vendored in
    corpus/C13/modelled_source.txt; a difference is not a verdict, but it is printed (and attached to correspondence violations)
    so that the cause of a model/implementation disagreement is obvious"""
    import difflib, hashlib
    cur = modelled_source_text()
    ref_path = os.path.join(CORPUS, "modelled_source.txt")
    if os.environ.get("C13_VENDOR") == "1" or not os.path.exists(ref_path):
        os.makedirs(CORPUS, exist_ok=True)
        open(ref_path, "w").write(cur)
    ref = open(ref_path).read()
    h_ref, h_cur = hashlib.sha256(ref.encode()).hexdigest()[:16], hashlib.sha256(cur.encode()).hexdigest()[:16]
    if ref == cur:
        ck.log("modelled C++ text unchanged (sha256 %s)" % h_cur)
        return ""
    diff = [l for l in difflib.unified_diff(ref.splitlines(), cur.splitlines(), "modelled (corpus/C13/modelled_source.txt)", "VERIF_REPO", lineterm="", n=1)]
    txt = "\n".join(diff[:80])
    ck.log("NOTE: the C++ text the models transliterate CHANGED (sha256 %s -> %s); ValidateModel.v / NameModel.v may need the same change:\n%s" % (h_ref, h_cur, txt))
    ck.notes.append("modelled C++ text differs from corpus/C13/modelled_source.txt (sha256 %s -> %s): %s" % (h_ref, h_cur, txt[:3000]))
    return txt


# ------------------------------------------------------------------ representative operands generated by the PROVEN function rep_ops, run against the real validator / assembler
def run_row_representatives(ck, d, impl, model, stats):
    rows = read_corpus_lines("db_rows_x86.txt")
    names = c13_gen.all_names(d, "x86")
    q = []
    for k, l in enumerate(rows):
        mode = int(l.split()[1])
        for m in (0, 1):
            if mode & (1 << m):
                q.append("RR %d %d" % (k, m))
    for k, l in enumerate(read_corpus_lines("db_rows_decorated_x86.txt")):
        mode = int(l.split()[1])
        for m in (0, 1):
            if mode & (1 << m):
                q.append("RD %d %d" % (k, m))
    rm = run_sharded(model, q)
    if isinstance(rm, tuple):
        ck.violation("C13/harness-crash", "model driver failed on the row-representative stream: %s" % (rm,), {"detail": str(rm)}, no_input=True)
        return
    cmds = [y[3:] for y in rm if y.startswith("RR E ")]
    ri = run_sharded(impl, cmds)
    if isinstance(ri, tuple) or len(cmds) != len(q):
        ck.violation("C13/harness-crash", "harness failed on the row-representative stream: %s" % (ri if isinstance(ri, tuple) else "rows missing in the model",), {"detail": str(ri)[:500]}, no_input=True)
        return
    vend_ref = set(read_corpus_lines("row_representatives_refused_by_assembler_x86.txt"))
    refused_now = []
    acc = 0
    for c, x in zip(cmds, ri):
        a = x.split()
        nm = names[int(c.split()[2])]
        if len(a) != 9:
            ck.violation("C13/harness-protocol", "harness could not build %r: %r" % (c, x), {"command": c, "detail": x}, no_input=True)
            continue
        verr, e0 = int(a[1]), int(a[2])
        if verr != 0:
            ck.violation("C13/row-representative-refused/%s" % nm, "operands generated from a database row by the proven function rep_ops (theorem C13_db_rows_representatives_validate says the "
                         "validator model accepts them) are refused by InstAPI::validate with %d: %r" % (verr, c), {"command": c, "impl": x})
            continue
        if e0 != 0:
            refused_now.append(c)
            if c not in vend_ref:
                ck.violation("C13/row-representative-refused-by-assembler/%s" % nm, "database row representative %r validates but the assembler answers %d (not on "
                             "corpus/C13/row_representatives_refused_by_assembler_x86.txt)" % (c, e0), {"command": c, "impl": x})
        else:
            acc += 1
    stats.update({"row_representatives": len(cmds), "row_representatives_accepted_by_both": acc, "row_representatives_refused_by_assembler_known": len([c for c in refused_now if c in vend_ref])})
    if os.environ.get("C13_VENDOR") == "1":
        open(os.path.join(CORPUS, "row_representatives_refused_by_assembler_x86.txt"), "w").write(
            "# C13: E commands of row representatives (rep_ops) that validate but that the assembler refuses: known\n" + "".join(c + "\n" for c in refused_now))


# ------------------------------------------------------------------ random STANDARD instances of database rows (C13_db_row_validates_standard): the real validator must accept all
STD_CLASSES = {1: (2, 0, 3, (0, 1)), 2: (3, 0, 3, (0, 1)), 4: (4, 0, 7, (0, 1)), 8: (5, 0, 7, (0, 1)), 16: (6, 0, 7, (1,)), 32: (11, 0, 7, (0, 1)), 64: (12, 0, 7, (0, 1)),
               128: (13, 0, 7, (0, 1)), 256: (28, 0, 7, (0, 1)), 512: (16, 0, 7, (0, 1)), 1024: (25, 1, 6, (0, 1)), 2048: (26, 0, 7, (0, 1)), 4096: (27, 0, 7, (0, 1)),
               8192: (29, 0, 7, (0, 1)), 16384: (30, 0, 3, (0, 1)), 32768: (17, 0, 7, (0, 1))}
STD_MEM = {0x40000: 0, 0x80000: 1, 0x100000: 2, 0x200000: 4, 0x400000: 6, 0x800000: 8, 0x1000000: 10, 0x2000000: 16, 0x4000000: 32, 0x8000000: 64}
STD_IMM = [(0x1000000000, (-8, 7)), (0x2000000000, (0, 15)), (0x4000000000, (-128, 127)), (0x8000000000, (0, 255)), (0x10000000000, (-32768, 32767)), (0x20000000000, (0, 65535)),
           (0x40000000000, (-(1 << 31), (1 << 31) - 1)), (0x80000000000, (0, (1 << 32) - 1)), (0x100000000000, (-(1 << 63), (1 << 63) - 1)), (0x200000000000, (0, (1 << 63) - 1))]
OPMASK_ = 281474439643135


def std_instance_tok(rng, mode, need, fixed):
    """a random standard instance (ValidateModel.std_instance) of one explicit database operand, or None (vector-index memory: not a standard kind)"""
    kind = need & OPMASK_
    if kind in STD_CLASSES and need == kind:
        rt, lo, hi, modes = STD_CLASSES[kind]
        if mode not in modes:
            return None
        rid = fixed.bit_length() - 1 if fixed else rng.randint(lo, hi)
        return "R %d %d" % (rt, rid)
    if kind in STD_MEM and fixed == 0:
        mb = bool(need & (1 << 48))
        off = 0 if mb else rng.choice([0, 16, -16, 127, 128, -129, 2147483647, -2147483648, rng.randint(-(1 << 31), (1 << 31) - 1)])
        return "M %d %d %d 0 0 0 %d 0 0 0" % (STD_MEM[kind], 6 if mode else 5, rng.randint(0, 7), off)
    if need & 0x3FF000000000 and fixed == 0:
        rngs = [r for b, r in STD_IMM if need & b]
        lo, hi = rng.choice(rngs)
        return "I %d" % rng.choice([lo, hi, rng.randint(lo, hi)])
    if need & 0xC00000000000 and fixed == 0:
        return "L"
    return None


def run_standard_instances(ck, d, impl, model, rng, stats):
    rows = read_corpus_lines("db_rows_x86.txt")
    names = c13_gen.all_names(d, "x86")
    per = 1 if ck.tier == "quick" else 8
    kdec = set(l.split()[0] for l in read_corpus_lines("db_decorations_x86.txt") if l.split()[1] == "k")     # instructions the database grants {k}
    lockdec = set(l.split()[0] for l in read_corpus_lines("db_decorations_x86.txt") if l.split()[1] == "lock")
    cmds = []
    skipped = 0
    for l in rows:
        t = [int(x) for x in l.split("\t")[0].split()]
        iid, mode, n = t[0], t[1], t[2]
        ops = [(t[3 + 3 * k], t[4 + 3 * k], t[5 + 3 * k]) for k in range(n)]
        for m in (0, 1):
            if not mode & (1 << m):
                continue
            for _ in range(per):
                toks = [std_instance_tok(rng, m, nd, fx) for nd, fx, im in ops if not im]
                if any(x is None for x in toks):
                    skipped += 1
                    continue
                cmds.append("E %d %d 0 0 0 %d%s" % (m, iid, len(toks), "".join(" " + x for x in toks)))
                if names[iid] in lockdec and toks and toks[0].startswith("M "):
                    cmds.append("E %d %d 8192 0 0 %d%s" % (m, iid, len(toks), "".join(" " + x for x in toks)))
                if names[iid] in kdec:
                    cmds.append("E %d %d 0 16 %d %d%s" % (m, iid, rng.randint(1, 7), len(toks), "".join(" " + x for x in toks)))
    ri = run_sharded(impl, cmds)
    rm = run_sharded(model, cmds)
    if isinstance(ri, tuple) or isinstance(rm, tuple):
        ck.violation("C13/harness-crash", "harness or model failed on the standard-instance stream: %s" % ((ri if isinstance(ri, tuple) else rm),), {"commands": cmds[:3]}, no_input=True)
        return
    enc = 0
    for c, x, y in zip(cmds, ri, rm):
        a = x.split()
        nm = names[int(c.split()[2])]
        if len(a) != 9:
            ck.violation("C13/harness-protocol", "harness could not build %r: %r" % (c, x), {"command": c, "detail": x}, no_input=True)
            continue
        verr, e0 = int(a[1]), int(a[2])
        if verr != 0 or int(y.split()[1]) != 0:
            ck.violation("C13/standard-instance-refused/%s" % nm, "a standard instance of a database row (theorem C13_db_row_validates_standard: accepted for ALL such operands) is refused: "
                         "InstAPI::validate = %d, model = %s: %r" % (verr, y.split()[1], c), {"command": c, "impl": x, "model": y})
        enc += e0 == 0
    stats.update({"standard_instances": len(cmds), "standard_instances_encoded": enc, "standard_instances_rows_with_vector_index_skipped": skipped})


# ------------------------------------------------------------------ emitter-level hook across CodeHolder switches
HISTORIES = [[0, 1], [1, 0], [0, 0, 1], [1, 0, 1], [0, 1, 0], [1, 1, 0], [0, 1, 1], [1, 0, 0], [0, 1, 0, 1]]


def run_history_stream(ck, impl, model, rng, stats):
    """ONE x86::Assembler / x86::Builder object is attached to a sequence of 32-/64-bit CodeHolders (detach or holder reset in between) and emits
    a vendored database form in the last one with validation on. Expected (C13_emitter_history_irrelevant): exactly the answer of a fresh emitter in
    that mode (the E command of the same form: implementation-vs-implementation), and the validator verdict of the model for that mode."""
    forms = sorted(read_corpus("implemented_x86.txt")) + sorted(read_corpus("excluded_x86.txt"))
    if not forms:
        return
    n = 1500 if ck.tier == "quick" else 20000
    picks = [rng.choice(forms) for _ in range(n)]
    cmds, meta = [], []
    for c in picks:
        t = c.split()
        mode = int(t[1]) & 1
        cmds.append(c); meta.append(("E", None))
        hs = [h for h in HISTORIES if h[-1] == mode]
        for h in rng.sample(hs, 2):
            for kind in "ABC":
                style = rng.randrange(2)
                cmds.append("H %s %d %d %s %s" % (kind, style, len(h), " ".join(map(str, h)), " ".join(t[2:])))
                meta.append((kind, (h, style, len(cmds) - 1)))
    ri = run_sharded(impl, cmds)
    mcmds = [c if c.startswith("E ") else "V %s %s" % (c.split()[3 + int(c.split()[3])], " ".join(c.split()[4 + int(c.split()[3]):])) for c in cmds]
    rm = run_sharded(model, mcmds)
    if isinstance(ri, tuple) or isinstance(rm, tuple):
        bad = ri if isinstance(ri, tuple) else rm
        ck.violation("C13/harness-crash", "harness or model driver failed on the history stream: %s" % (bad,), {"commands": cmds[:3], "detail": str(bad)}, no_input=True)
        return
    cur = None
    checked = 0
    for c, x, y, (kind, info) in zip(cmds, ri, rm, meta):
        a = x.split()
        if kind == "E":
            cur = a
            continue
        checked += 1
        h, style, _ = info
        if len(a) != 4 or len(cur) != 9:
            ck.violation("C13/harness-protocol", "history command %r answered %r" % (c, x), {"command": c, "detail": x}, no_input=True)
            continue
        he, hf, hb = int(a[1]), int(a[2]), a[3]
        mverr = int(y.split()[1])
        if kind == "A":
            want = (int(cur[4]), 0, cur[5] if int(cur[4]) == 0 else "-")
        elif kind == "C":
            want = (int(cur[6]), 0, "-")      # x86::Compiler: emit returns the validator's verdict (kValidateIntermediate); nothing is serialized here
        else:
            want = (int(cur[6]), int(cur[7]), cur[8] if int(cur[6]) == 0 else "-")
        ok = (he, hf) == want[:2] and (he != 0 or hf != 0 or hb == want[2])
        if mverr != 0 and he != mverr:
            ok = False
        if not ok:
            name = c.split()[4 + len(h)]
            ck.violation("C13/emitter-history/%s/%s" % (kind, ">".join(map(str, h))), "one x86::%s attached to CodeHolders of modes %s (%s between) and emitting %r with validation on answers "
                         "(%d,%d,%s); a fresh emitter in mode %d answers %s; the validator model for that mode says %d - the hook must use the validator of the holder attached NOW"
                         % ({"A": "Assembler", "B": "Builder", "C": "Compiler"}[kind], h, "detach" if style == 0 else "holder reset", " ".join(c.split()[4 + len(h):]), he, hf, hb, h[-1], want, mverr),
                         {"command": c, "impl": x, "fresh": " ".join(cur), "inst": name})
    stats["emitter_history_cmds"] = checked
    # AArch64: the tree has no a64 validator (validate() = kOk): switching validation on and re-attaching the emitter must change neither success nor bytes
    ha = ["HA 0 0 1"] + ["HA %d %d %d" % (v, st_, n) for v in (0, 1) for st_ in (0, 1) for n in (1, 2, 3)]
    rc, out, err = vlib.sh([impl], inp="\n".join(ha) + "\n", timeout=120)
    lines = out.split("\n")[:-1]
    if rc != 0 or len(lines) != len(ha):
        ck.violation("C13/harness-crash", "harness failed on the a64 history commands: %s" % (err[-300:],), {"commands": ha}, no_input=True)
    else:
        ref = lines[0]
        for c, x in zip(ha, lines):
            if x != ref or x.split()[1] != "0":
                ck.violation("C13/a64-emitter-history/%s" % c.replace(" ", "-"), "a64::Assembler (%s) answers %s...; the reference (fresh emitter, validation off) %s...: validation / re-attachment "
                             "must change neither success nor bytes" % (c, x[:60], ref[:60]), {"command": c, "impl": x, "reference": ref})
        words = ref.split()[2]
        rc, o, e = vlib.sh(["llvm-mc", "--disassemble", "-triple=aarch64", "-mattr=+v8.5a,+fp-armv8,+neon"], inp=" ".join("0x" + words[i:i + 2] for i in range(0, len(words), 2)) + "\n", timeout=30)
        dis = [l.split()[0] for l in o.splitlines() if l.strip() and not l.strip().startswith(".")]
        stats["a64_history_cmds"] = len(ha)
        stats["a64_history_llvm_mc_mnemonics"] = " ".join(dis)
        if "invalid" in e or len(dis) < 32:
            ck.violation("C13/a64-emitter-bytes", "llvm-mc does not decode the AArch64 instruction list the assembler produced: %s" % e[:300], {"bytes": words}, no_input=True)


# ------------------------------------------------------------------ own regeneration path: only this property's gen files, compiled in parallel
def own_regen(ck, files, timeout=600):
    """like vlib.Check.coq_regen but copies / recompiles ONLY the files of this property (dependency layers in parallel)"""
    import shutil
    gen = os.path.join(vlib.COQ, "gen")
    if all(os.path.exists(os.path.join(gen, n)) and open(os.path.join(gen, n)).read() == t for n, t in files.items()):
        return None
    wgen = os.path.join(ck.work, "gen")
    shutil.rmtree(wgen, ignore_errors=True)
    os.makedirs(wgen)
    # what changed, and what depends on it (X86Sigs <- forms shards, X86DbRows, X86Forms; the name files have no dependants)
    changed = set(n for n, t in files.items() if not (os.path.exists(os.path.join(gen, n)) and open(os.path.join(gen, n)).read() == t))
    if "X86Sigs.v" in changed:
        changed |= set(n for n in files if n.startswith("X86Forms") or n in ("X86DbRows.v", "X86DbDecor.v"))
    if any(n.startswith("X86Forms") and n != "X86Forms.v" for n in changed):
        changed.add("X86Forms.v")
    reuse = []
    for n, t in files.items():
        open(os.path.join(wgen, n), "w").write(t)
        vo = os.path.join(gen, n[:-2] + ".vo")
        if n not in changed and os.path.exists(vo) and os.path.getmtime(vo) >= os.path.getmtime(os.path.join(gen, n)):
            shutil.copy(vo, wgen)          # unchanged file with an up-to-date compiled snapshot: reused
            reuse.append(n)
    ck.log("regenerating %d of %d gen files (%d compiled snapshots reused)" % (len(files) - len(reuse), len(files), len(reuse)))
    args = ["-Q", os.path.join(vlib.COQ, "theories"), "Verif", "-Q", wgen, "VerifGen", "-w", "-all"]
    ck.coq_make(["theories/X86Validate/ValidateProofs.vo", "theories/InstNames/NameProofs.vo"])
    todo = [n for n in files if n not in reuse]
    if "X86Sigs.v" in changed and "X86DbDecor.v" in files and "X86DbDecor.v" not in todo:
        todo.append("X86DbDecor.v")
    layers = [[n for n in todo if n in ("X86Names.v", "A64Names.v", "X86Sigs.v")],
              [n for n in todo if n not in ("X86Names.v", "A64Names.v", "X86Sigs.v", "X86Forms.v")],
              [n for n in todo if n == "X86Forms.v"]]
    failed, log = [], ""

    def one(n):
        rc, out, err = vlib.sh(["coqc"] + args + [os.path.join(wgen, n)], cwd=wgen, timeout=timeout)
        return n, rc, (out + err)[-3000:]
    for layer in layers:
        with ThreadPoolExecutor(max_workers=12) as ex:
            for n, rc, txt in ex.map(one, layer):
                if rc != 0:
                    failed.append(n)
                    log += txt
    return wgen, failed, log


# ------------------------------------------------------------------ main
def run(ck):
    rng = random.Random(ck.seed)
    stats = {"names_cmds": 0, "roundtrips": 0, "lookups": 0, "lookups_hit": 0, "disagreements": 0}

    drift = source_drift(ck)
    # S1: translator
    dump_exe = ck.build_harness("c13_dump", ["c13_dump.cpp"])
    rc, dump_txt, err = vlib.sh([dump_exe], timeout=120)
    if rc != 0:
        raise RuntimeError("c13_dump failed: %s" % err[-2000:])
    d = c13_gen.parse_dump(dump_txt)
    gen_files = c13_gen.gen_files(d)
    gen_dir = None
    r = own_regen(ck, gen_files)
    regen_failed = []
    if r is not None:
        gen_dir, regen_failed, regen_log = r

        ck.log("tables differ from the committed snapshot: regenerated coq/gen in %s, failed: %s" % (gen_dir, regen_failed))
    else:
        ck.log("tables identical to the committed snapshot (coq/gen)")

    # S2: theorems
    obl = ck.coq_properties(gen_dir=gen_dir)
    ck.log("theorems: %d, failed: %d" % (len(obl), len([o for o in obl if not o["ok"]])))

    # S3: harness + extracted model (if the regenerated tables do not even compile, fall back to the committed snapshot for the model)
    impl = ck.build_harness("c13", ["c13_harness.cpp"])
    try:
        model = ck.ocaml_model("Extract_InstNames.v", ["zconv.ml", "c13_driver.ml"], name="c13", gen_dir=gen_dir)
    except RuntimeError as e:
        ck.violation("C13/model-extraction", "model over the regenerated tables cannot be extracted: %s" % str(e)[-500:],
                     {"broken": "extraction over regenerated coq/gen"}, no_input=True)
        model = ck.ocaml_model("Extract_InstNames.v", ["zconv.ml", "c13_driver.ml"], name="c13")

    if ck.replay:
        rp = json.load(open(ck.replay))
        cmds = rp["replay"].get("commands") or ([rp["replay"]["command"]] if "command" in rp["replay"] else [])
        for c in cmds:
            print("input:", c)
            print(" impl :", vlib.sh([impl], inp=c + "\n")[1].strip())
            print(" model:", vlib.sh([model], inp=c + "\n")[1].strip())
        return 0

    cmds = gen_name_stream(rng, d, ck.tier)
    ck.log("name stream: %d commands" % len(cmds))
    ri = run_sharded(impl, cmds)
    rm = run_sharded(model, cmds)
    if isinstance(ri, tuple) or isinstance(rm, tuple):
        bad = ri if isinstance(ri, tuple) else rm
        ck.violation("C13/harness-crash", "harness or model driver failed: %s" % (bad,), {"commands": cmds[:5], "detail": str(bad)}, no_input=True)
    else:
        judge_names(ck, d, cmds, ri, rm, stats)
    form_samples = run_forms(ck, d, impl, model, rng, stats) or []
    form_samples += run_validator_stream(ck, d, impl, model, rng, stats)
    run_history_stream(ck, impl, model, rng, stats)
    run_row_representatives(ck, d, impl, model, stats)
    run_standard_instances(ck, d, impl, model, rng, stats)

    # proofs
    for n in regen_failed:
        lemma = "?"
        mm = re.search(r'File "([^"]*%s)", line (\d+)' % re.escape(n), regen_log)
        if mm and os.path.exists(mm.group(1)):
            for ln in reversed(open(mm.group(1)).read().splitlines()[:int(mm.group(2))]):
                m2 = re.match(r"\s*Lemma\s+(\S+)", ln)
                if m2:
                    lemma = m2.group(1)
                    break
        ck.violation("C13/reflection/" + n, "reflection lemma %s over the regenerated tables no longer checks (%s): %s" % (lemma, n, regen_log[-600:]),
                     {"broken": "coq/gen/" + n, "unsorted_letters_a64": c13_gen.a64_unsorted_letters(d)}, no_input=True)
    # a gen file whose reflection lemmas fail has no .vo, so Properties_C13.v as a whole cannot be compiled: attribute the failure to the
    # theorems that rest on that file (the others are listed in the evidence as not re-checkable in this run)
    THEOREM_GEN = {"X86DbDecor.v": ["C13_db_rows_decorated_representatives_validate"],  # (C13_emitter_history_irrelevant, C13_validate_pure, ... rest on no gen file)
                   "X86DbRows.v": ["C13_signature_rows_present", "C13_db_row_signature_stage", "C13_signature_records_have_db_origin", "C13_accepted_call_has_database_origin",
                                   "C13_signature_kinds_have_db_origin", "C13_db_decorations_present", "C13_db_row_validates", "C13_db_row_validates_plain"],
                   "X86Forms.v": ["C13_db_forms_validate", "C13_db_excluded_forms_refused", "C13_validate_operand_count_refuted"],
                   "X86Sigs.v": ["C13_db_row_validates_standard_masked_zeroing", "C13_db_row_validates_standard_evex", "C13_db_row_validates_standard_lock", "C13_db_row_validates_standard_masked", "C13_db_row_validates_standard", "C13_standard_registers_are_acceptable", "C13_plain_memory_operands_are_acceptable", "C13_db_row_validates_operandwise", "C13_validator_code_cases_match_source", "C13_validator_tables_wf", "C13_signature_rows_present", "C13_db_row_signature_stage", "C13_validate_refuses_gpq_in_32bit", "C13_db_forms_validate", "C13_db_excluded_forms_refused", "C13_validate_operand_count_refuted"],
                   "X86Names.v": ["C13_api_methods_name_their_ids_x86", "C13_find_correct", "C13_name_tables_in_bounds", "C13_name_roundtrip_x86", "C13_alias_roundtrip_x86",
                                  "C13_string_to_inst_id_correct_x86", "C13_string_to_inst_id_none_x86", "C13_alias_formats_roundtrip_x86",
                                  "C13_alias_table_from_formats_x86"],
                   "A64Names.v": ["C13_api_methods_name_their_ids_a64", "C13_name_tables_in_bounds", "C13_name_roundtrip_a64", "C13_name_roundtrip_a64_unique", "C13_string_to_inst_id_correct_a64",
                                  "C13_string_to_inst_id_none_a64", "C13_a64_single_range_failures", "C13_a64_single_range_unsorted_letters",
                                  "C13_name_roundtrip_a64_single_range_refuted"]}
    blamed = set(t for n in regen_failed for t in THEOREM_GEN.get("X86Forms.v" if n.startswith("X86Forms") else n, []))
    for o in ck.proof_failures():
        if regen_failed and o["name"] not in blamed:
            ck.notes.append("theorem %s not re-checked in this run: Properties_C13.v does not compile while coq/gen/%s fails" % (o["name"], ",".join(regen_failed)))
            continue
        ck.violation("C13/proof/" + o["name"], "theorem %s no longer checks (%s)" % (o["name"], getattr(ck, "coq_log", "")[-800:]),
                     {"broken": "theorem " + o["name"], "file": "coq/theories/Properties/Properties_C13.v"}, no_input=True)

    if drift:
        for v in ck.violations:
            if v["key"].startswith("C13/correspondence"):
                v["what"] += "  [the modelled C++ text changed - see the NOTE at the top of this run / coverage.notes: %s]" % drift.replace("\n", " | ")[:400]
    samples = []
    if not isinstance(ri, tuple) and not isinstance(rm, tuple):
        z = list(zip(cmds, ri, rm))
        samples = [{"cmd": c, "impl": x, "model": y} for c, x, y in z[:2] + z[len(z) // 2: len(z) // 2 + 2] + z[-2:]]
    return ck.finish(
        "proof",
        {"proved_vs_compared": {
            "proved_for_all_inputs": "theorems without a vendored list in their statement (find_correct, string_to_inst_id characterisations, validate_pure, emitter_history_irrelevant, "
                                     "validate_accept_has_signature, refuses_gpq_in_32bit, refuses_vec16_without_evex, padding_invariant, db_row_signature_stage, db_row_validates(_plain), decoration_stages)",
            "proved_by_reflection_over_regenerated_tables": "round trips of every id/alias/format, signature rows present, records/kinds have database origin, decorations present, "
                                                            "vendored forms validate / excluded forms refused, row and decorated-row representatives validate, API methods name their ids",
            "compared_model_vs_implementation_this_run": {k: stats.get(k) for k in ("names_cmds", "form_cmds", "validator_stream_cmds", "emitter_history_cmds", "row_representatives")},
            "judged_by_independent_oracle_this_run": "database forms (node db/index.js), name tables (python reading), emitter headers (python parser), llvm-mc for disagreements and a64 bytes"},
         "evaluations": stats["names_cmds"] + stats.get("form_cmds", 0) + stats.get("validator_stream_cmds", 0) + stats.get("emitter_history_cmds", 0),
         "distinct_nontrivial": stats["roundtrips"] + stats["lookups_hit"] + stats.get("db_implemented", 0) + stats.get("mut_both_accept", 0) + stats.get("validator_stream_accepted", 0),
         "rule": "NI: every instruction id of x86 and AArch64 (+ undefined ids); NS: every name and alias, one-edit neighbours, case/NUL/length variants, random "
                 "strings from VERIF_SEED; non-trivial = round trips of defined ids + lookups of strings that are names (counted)",
         "samples": samples + form_samples, "stats": stats, "traces_validated_against_impl": len(cmds), "model_vs_impl_disagreements": stats["disagreements"],
         "tables_regenerated": gen_dir is not None},
        assumptions=["harness/c13_dump.cpp prints the arrays of /repo's working tree (#include of x86instdb.cpp, a64instdb.cpp, x86instapi.cpp)",
                     "theorems are about the Gallina model over these tables; the model is tied to the code by the differential run of this check",
                     "inst_id_to_string is modelled for InstStringifyOptions::kNone only"],
        checker_cmd="coqc (Coq 8.16.1) -Q coq/theories Verif -Q coq/gen VerifGen coq/theories/Properties/Properties_C13.v  [full .vo build of its dependencies]",
        trusted_base=["Coq 8.16.1 kernel incl. vm_compute (no native_compute)", "no axioms: every theorem 'Closed under the global context'",
                      "extraction (ExtrOcamlBasic only) + OCaml 4.13.1 + zarith glue in ml/zconv.ml",
                      "harness/c13_dump.cpp + tools/c13_gen.py (translator), harness/c13_harness.cpp, ml/c13_driver.ml, tools/checks/c13.py (generator, differ, python oracle)"])

"""C13 — Validation, encoder and ISA database agree on which instruction forms exist; names map back to ids.

S1 translator  : harness/c13_dump.cpp (#includes x86instdb.cpp / a64instdb.cpp / x86instapi.cpp of /repo's working tree) prints the
                 name tables, signature tables and validator tables; tools/c13_gen.py turns them into coq/gen/{X86Names,A64Names,
                 X86Sigs}.v whose reflection lemmas are re-checked by coqc whenever they differ from the committed snapshot
S2 theorems    : coq/theories/Properties/Properties_C13.v (re-checked by coqc on every run)
S3 tie         : harness/c13_harness.cpp (real InstAPI::inst_id_to_string/string_to_inst_id/validate, x86::Assembler with and without
                 kValidateAssembler) vs the extracted model (coq/extract/Extract_InstNames.v + ml/c13_driver.ml), same command stream
S4 search      : independent python oracles: a direct reading of the dumped name tables (dictionary lookup), the ISA database
                 expanded by /repo/db (node) for the validator / encoder verdicts
"""
import json
import os
import random
import re
import vlib
import c13_gen
import c13_forms
from concurrent.futures import ThreadPoolExecutor

ARCH_X86, ARCH_X64, ARCH_A64 = 0, 1, 2


def hexs(s):
    return "".join("%02x" % c for c in s) if s else "-"


def run_sharded(exe, cmds, shards=16, timeout=1500):
    chunks = [cmds[i::shards] for i in range(shards)]

    def one(chunk):
        if not chunk:
            return []
        rc, out, err = vlib.sh([exe], inp="\n".join(chunk) + "\n", timeout=timeout)
        lines = out.split("\n")[:-1]
        if rc != 0 or len(lines) != len(chunk):
            return ("ERR", rc, (out[-300:] + err[-500:]))
        return lines
    with ThreadPoolExecutor(max_workers=shards) as ex:
        rs = list(ex.map(one, chunks))
    out = [None] * len(cmds)
    for i, r in enumerate(rs):
        if isinstance(r, tuple):
            return r
        out[i::shards] = r
    return out


# ------------------------------------------------------------------ names
def gen_name_stream(rng, d, tier):
    cmds = []
    names = {"x86": c13_gen.all_names(d, "x86"), "a64": c13_gen.all_names(d, "a64")}
    aliases = c13_gen.alias_names(d)
    for arch, key in ((ARCH_X64, "x86"), (ARCH_X86, "x86"), (ARCH_A64, "a64")):
        cnt = d[key + ".count"][0]
        if arch != ARCH_X86:
            for i in range(0, cnt + 3):
                cmds.append("NI %d %d" % (arch, i))
            cmds += ["NI %d %d" % (arch, v) for v in (65535, 65536, 1 << 20, (1 << 31) + 5, (1 << 32) - 1)]
        pool = names[key][1:] + (aliases if key == "x86" else [])
        strs = set(pool) if arch != ARCH_X86 else set(rng.sample(pool, 200))
        # near-names: one edit away from a name, case changes, embedded NUL, over-long, non-letter first character
        alpha = "abcdefghijklmnopqrstuvwxyz0123456789_."
        sample = pool if tier == "thorough" else rng.sample(pool, min(len(pool), 500))
        for n in sample:
            strs.add(n[:-1]); strs.add(n + rng.choice(alpha)); strs.add(n[1:])
            k = rng.randrange(len(n))
            strs.add(n[:k] + rng.choice(alpha) + n[k + 1:])
            strs.add(n.upper()); strs.add(n + "\0"); strs.add(rng.choice(alpha) + n)
            strs.add(n + "_v")
        for _ in range(2000 if tier == "quick" else 100000):
            ln = rng.choice([1, 1, 2, 2, 3, 3, 4, 5, 6, 9, 10, 17, 18, 31, 32, 33, 40])
            strs.add("".join(rng.choice("abcdefgklmprstvx") for _ in range(ln)))
        strs |= {"", "a", "z", "{", "`", "A", "0add", "\xff\xfe", "add ", " add", "y" * 17, "v" * 18, "v" * 64}
        for s in sorted(strs):
            cmds.append("NS %d %s" % (arch, hexs([ord(c) for c in s])))
    return cmds


def judge_names(ck, d, cmds, impl, model, stats):
    """correspondence (impl vs model) + independent oracle (python dictionary over the dumped tables)"""
    names = {"x86": c13_gen.all_names(d, "x86"), "a64": c13_gen.all_names(d, "a64")}
    aliases = dict(zip(c13_gen.alias_names(d), d["x86.alias_ids"]))
    derived = c13_gen.derived_aliases(d)       # independent source: the alias format strings of the main string table
    stats["aliases_cross_checked_with_format_strings"] = len([a for a in aliases if a in derived])
    stats["aliases_only_in_alias_table"] = sorted(a for a in aliases if a not in derived)
    for a, i in derived.items():
        if a not in aliases:
            ck.violation("C13/x86-alias-missing/%s" % a, "alias %r of %r (format string of the instruction name table) is not in the alias table" % (a, names["x86"][i]),
                         {"alias": a, "target": i})
    aliases.update(derived)
    ids_of = {"x86": {}, "a64": {}}
    for key in ("x86", "a64"):
        for i, n in enumerate(names[key]):
            if i:
                ids_of[key].setdefault(n, []).append(i)
    a64_model = None      # which AArch64 lookup the implementation follows: "scan" (repaired) / "single-range" (pinned)
    a64_diff = []
    for cmd, x, y in zip(cmds, impl, model):
        c = cmd.split()
        arch = int(c[1])
        key = "a64" if arch == ARCH_A64 else "x86"
        stats["names_cmds"] += 1
        xi = x.split(); yi = y.split()
        # ---- correspondence
        if arch == ARCH_A64:
            y_scan, y_single = " ".join(yi[:-1]), " ".join(yi[:-2] + yi[-1:])
            if x != y_scan:
                a64_diff.append((cmd, x, y))
                if x != y_single:
                    ck.violation("C13/correspondence/names-a64", "a64 name lookup: implementation %r is neither the repaired (scan) model %r nor the "
                                 "pinned single-range model %r on %r" % (x, y_scan, y_single, cmd),
                                 {"command": cmd, "impl": x, "model": y, "broken": "correspondence of InstNames model with /repo (AArch64)"}, no_input=True)
        elif x != y:
            stats["disagreements"] += 1
            ck.violation("C13/correspondence/names-x86", "x86 name lookup: implementation %r, model %r on %r" % (x, y, cmd),
                         {"command": cmd, "impl": x, "model": y, "broken": "correspondence of InstNames model with /repo (x86)"}, no_input=True)
        # ---- oracle on the implementation's answer
        if c[0] == "NI":
            iid = int(c[2])
            real = iid & 0xFFFF if arch == ARCH_A64 else iid
            cnt = d[key + ".count"][0]
            if real >= cnt:
                if xi[1] == "0":
                    ck.violation("C13/%s-undefined-id-has-name" % key, "inst_id_to_string accepts undefined id %d" % iid, {"command": cmd, "impl": x})
                continue
            want = names[key][real]
            got = bytes.fromhex(xi[2]).decode("latin1") if xi[2] != "-" else ""
            if xi[1] != "0" or got != want:
                ck.violation("C13/%s-id-to-string/%d" % (key, iid), "inst_id_to_string(%d) = (%s, %r), table says %r" % (iid, xi[1], got, want), {"command": cmd, "impl": x})
                continue
            if real == 0:
                continue
            back = int(xi[3])
            stats["roundtrips"] += 1
            if back == 0 or back >= cnt or names[key][back] != want:
                ck.violation("C13/%s-name-unreachable/%s" % (key, want), "string_to_inst_id(inst_id_to_string(%d) = %r) = %d which does not carry this name"
                             % (iid, want, back), {"command": cmd, "impl": x, "name": want})
            elif len(ids_of[key][want]) == 1 and back != real:
                ck.violation("C13/%s-name-wrong-id/%s" % (key, want), "unique name %r of id %d maps back to %d" % (want, real, back), {"command": cmd, "impl": x})
        else:
            s = bytes.fromhex(c[2]).decode("latin1") if c[2] != "-" else ""
            got = int(xi[1])
            cand = list(ids_of[key].get(s, []))
            if key == "x86" and not cand and s in aliases:
                cand = [aliases[s]]
            if len(s) > d[key + ".maxlen"][0]:
                cand = [c_ for c_ in cand if False]
            stats["lookups"] += 1
            if cand:
                stats["lookups_hit"] += 1
            if (cand and got not in cand) or (not cand and got != 0):
                if cand:
                    ck.violation("C13/%s-name-unreachable/%s" % (key, s), "string_to_inst_id(%r) = %d, the tables name ids %s so" % (s, got, cand), {"command": cmd, "impl": x, "name": s})
                else:
                    ck.violation("C13/%s-non-name-accepted/%s" % (key, hexs([ord(ch) for ch in s])), "string_to_inst_id(%r) = %d but nothing carries this name" % (s, got),
                                 {"command": cmd, "impl": x})
    stats["a64_lookup_follows"] = "repaired scan model" if not a64_diff else "pinned single-range model (%d answers differ from the repaired model)" % len(a64_diff)
    stats["disagreements"] += len(a64_diff)


# ------------------------------------------------------------------ validator / encoder / database
CORPUS = os.path.join(vlib.VERIF, "corpus", "C13")


def read_corpus(name):
    p = os.path.join(CORPUS, name)
    out = {}
    if os.path.exists(p):
        for l in open(p).read().splitlines():
            if l.strip() and not l.startswith("#"):
                c, k = l.split("\t")
                out[c] = k
    return out


def run_forms(ck, d, impl, model, rng, stats):
    """verdict differential over all database forms (+ decorations + near-miss mutations); see module docstring"""
    rc, out, err = vlib.sh(["node", os.path.join(vlib.VERIF, "tools", "c13_dbforms.js"), vlib.REPO], timeout=300)
    if rc != 0:
        raise RuntimeError("node c13_dbforms.js failed: %s" % err[-2000:])
    forms = c13_forms.load_forms(out)
    names = c13_gen.all_names(d, "x86")
    n2i = {n: i for i, n in enumerate(names) if i}
    items, skipped = c13_forms.instantiate(forms, n2i, rng, ck.tier)
    # corpus commands are always replayed (a form that silently stops being accepted must be noticed even if the database row vanished)
    vend_impl = read_corpus("implemented_x86.txt")
    vend_excl = read_corpus("excluded_x86.txt")
    have = set(it["cmd"] for it in items)
    for c, k in list(vend_impl.items()) + list(vend_excl.items()):
        if c not in have:
            items.append({"cmd": c, "form": -1, "mode": int(c.split()[1]) & 1, "kind": "corpus", "key": k, "allowed": c in vend_impl})
            have.add(c)
    cmds = [it["cmd"] for it in items]
    ck.log("form stream: %d commands from %d database forms (%d forms name no AsmJit instruction, %d not instantiable)"
           % (len(cmds), len(forms), len(skipped["no-such-instruction"]), len(skipped["operand-kind"])))
    ri = run_sharded(impl, cmds)
    rm = run_sharded(model, cmds)
    if isinstance(ri, tuple) or isinstance(rm, tuple):
        bad = ri if isinstance(ri, tuple) else rm
        ck.violation("C13/harness-crash", "harness or model driver failed on the form stream: %s" % (bad,), {"commands": cmds[:3], "detail": str(bad)}, no_input=True)
        return None
    # which (mode, command) does the database allow / exclude?  (a command may be generated by several forms)
    allowed_cmds = set(it["cmd"] for it in items if it["allowed"] and not it["kind"].startswith("mut"))
    zero_ok = set()      # instruction names the database gives a form without explicit operands, per mode
    for f in forms:
        if all(o["implicit"] for o in f["operands"]):
            for m in (0, 1):
                if f["arch"] == "ANY" or (f["arch"] == "X64") == (m == 1):
                    zero_ok.add((f["name"], m))
    st = stats
    st.update({"form_cmds": len(cmds), "db_forms": len(forms), "db_forms_without_asmjit_instruction": len(skipped["no-such-instruction"]),
               "db_forms_not_instantiable": len(skipped["operand-kind"])})
    for k in ("db_allowed", "db_implemented", "db_refused_by_both", "db_excluded", "db_excluded_refused", "mutations", "mut_both_accept", "mut_both_refuse",
              "mut_encoder_only", "mut_validator_only", "hook_checked", "validator_model_diff", "new_implemented_not_vendored", "a_validator_follows_pinned_quirk"):
        st.setdefault(k, 0)
    impl_now, excl_now = {}, {}
    follows = {"repaired": 0, "pinned": 0}
    for it, x, y in zip(items, ri, rm):
        a = x.split(); m = y.split()
        cmd = it["cmd"]; name = it["key"].split()[0]; mode = it["mode"]
        if len(a) != 6 or a[1] == "parse-error":
            ck.violation("C13/harness-protocol", "harness could not build %r: %r" % (cmd, x), {"command": cmd, "detail": x}, no_input=True)
            continue
        verr, e0, b0, e1, b1 = int(a[1]), int(a[2]), a[3], int(a[4]), a[5]
        nops = int(cmd.split()[6])
        # ---- correspondence validator model <-> InstAPI::validate (error code compared)
        m_fixed, m_pinned = int(m[1]), int(m[2])
        if verr == m_fixed:
            if m_fixed != m_pinned:
                follows["repaired"] += 1
        elif verr == m_pinned:
            follows["pinned"] += 1
        else:
            st["validator_model_diff"] += 1
            ck.violation("C13/correspondence/validate", "InstAPI::validate answers %d, the model %d (pinned variant %d) on %r" % (verr, m_fixed, m_pinned, cmd),
                         {"command": cmd, "impl": x, "model": y, "broken": "correspondence of X86Validate model with /repo"}, no_input=True)
        # ---- oracle 1: validator accepts a call without operands although the database has no such form of the instruction
        if verr == 0 and nops == 0 and (name, mode) not in zero_ok:
            ck.violation("C13/validate-accepts-no-operands/%s" % name, "validate(%s) in %s mode accepts %r WITHOUT operands (assembler: error %d); the database has no "
                         "operand-less form of it" % (name, "64-bit" if mode else "32-bit", name, e0), {"command": cmd, "impl": x, "model": y})
            continue
        # ---- oracle 2: the validation hook: with kValidateAssembler the result is the validator's error, else exactly the plain result
        st["hook_checked"] += 1
        want_e1 = verr if verr else e0
        if e1 != want_e1 or (verr != 0 and b1 != "-") or (verr == 0 and b1 != b0):
            ck.violation("C13/validation-hook/%s" % name, "%r: validate=%d, emit without validation=(%d,%s), with validation=(%d,%s): switching validation on must "
                         "give the validator's error or the identical result" % (cmd, verr, e0, b0, e1, b1), {"command": cmd, "impl": x})
        kind = it["kind"]
        if kind.startswith("mut"):
            st["mutations"] += 1
            if cmd in allowed_cmds:
                continue                      # the mutation happens to be another database form
            if verr == 0 and e0 == 0:
                st["mut_both_accept"] += 1
            elif verr != 0 and e0 != 0:
                st["mut_both_refuse"] += 1
            elif e0 == 0:
                st["mut_encoder_only"] += 1  # lenient encoder on a non-database tuple: counted (C14's domain), not a C13 violation
            else:
                st["mut_validator_only"] += 1
                ck.violation("C13/validator-accepts-encoder-refuses/%s/%s" % (name, kind[4:]), "near miss (%s) of %r in mode %d: validator accepts, assembler refuses with %d: %r"
                             % (kind[4:], it["key"], mode, e0, cmd), {"command": cmd, "impl": x})
            continue
        if it["allowed"] or cmd in allowed_cmds:
            st["db_allowed"] += 1
            if verr == 0 and e0 == 0:
                st["db_implemented"] += 1
                impl_now[cmd] = it["key"]
            elif verr != 0 and e0 != 0:
                st["db_refused_by_both"] += 1
            else:
                who = "validator-only" if verr == 0 else "encoder-only"
                ck.violation("C13/validator-encoder-disagree/%s/%s" % (name, who), "database form %r (mode %d): validate=%d, assembler=%d (%s): %r"
                             % (it["key"], mode, verr, e0, b0, cmd), {"command": cmd, "impl": x, "form": it["key"]})
            if cmd in vend_impl and not (verr == 0 and e0 == 0):
                ck.violation("C13/form-no-longer-accepted/%s/%d" % (it["key"], mode), "database form %r (mode %d) is on the vendored list of implemented forms "
                             "(corpus/C13/implemented_x86.txt) but is now refused: validate=%d, assembler=%d: %r" % (it["key"], mode, verr, e0, cmd),
                             {"command": cmd, "impl": x, "form": it["key"]})
        else:
            st["db_excluded"] += 1
            excl_now[cmd] = it["key"]
            if verr != 0:
                st["db_excluded_refused"] += 1
            else:
                ck.violation("C13/excluded-mode-accepted/%s/%d" % (it["key"], mode), "database form %r is not available in %s mode (and no sibling form is) but "
                             "validate accepts it: %r" % (it["key"], "64-bit" if mode else "32-bit", cmd), {"command": cmd, "impl": x, "form": it["key"]})
    st["new_implemented_not_vendored"] = len([c for c in impl_now if c not in vend_impl])
    st["validator_follows"] = ("repaired model" if follows["pinned"] == 0 else "pinned model with the operand-count quirk (%d answers)" % follows["pinned"])
    if follows["pinned"] and follows["repaired"]:
        ck.violation("C13/correspondence/validate-mixed", "validate follows neither model consistently (%s)" % follows, {"broken": "correspondence of X86Validate"}, no_input=True)
    if os.environ.get("C13_VENDOR") == "1":
        os.makedirs(CORPUS, exist_ok=True)
        with open(os.path.join(CORPUS, "implemented_x86.txt"), "w") as f:
            f.write("# C13: instantiations of ISA database forms accepted by validator AND assembler of the pinned release (mode the database allows).\n"
                    "# <harness command>\\t<form key>; regenerate with C13_VENDOR=1 ./check C13 --tier thorough\n")
            for c in sorted(impl_now):
                f.write("%s\t%s\n" % (c, impl_now[c]))
        with open(os.path.join(CORPUS, "excluded_x86.txt"), "w") as f:
            f.write("# C13: instantiations of ISA database forms in a mode the database excludes (no sibling form allows it): must be refused.\n")
            for c in sorted(excl_now):
                f.write("%s\t%s\n" % (c, excl_now[c]))
        ck.log("vendored %d implemented / %d excluded forms into corpus/C13" % (len(impl_now), len(excl_now)))
    z = list(zip(cmds, ri, rm))
    return [{"cmd": c, "impl": x, "model": y} for c, x, y in z[:2] + z[len(z) // 2: len(z) // 2 + 2]]


# ------------------------------------------------------------------ validator correspondence on operands the database sweep never builds
REG_TYPES = [2, 3, 4, 5, 6, 7, 8, 9, 10, 11, 12, 13, 14, 15, 16, 17, 25, 26, 27, 28, 29, 30, 31]
OPT_BITS = [8192, 65536, 131072, 16384, 32768, 8388608, 262144, 524288, 1073741824]
IMM_EDGES = [0, 1, 7, 8, 15, 16, 127, 128, 255, 256, 32767, 32768, 65535, 65536, 2147483647, 2147483648, 4294967295, 4294967296,
             (1 << 63) - 1, -1, -8, -9, -128, -129, -32768, -32769, -2147483648, -2147483649, -(1 << 63)]


def rand_operand(rng, wild):
    k = rng.random()
    if k < 0.40:
        t = rng.choice(REG_TYPES if wild else [2, 3, 4, 5, 6, 11, 12, 13, 16, 28])
        rid = rng.choice([0, 1, 2, 3, 4, 5, 7, 8, 9, 15, 16, 17, 31] + ([32, 100, 254, 255, 256, 300, 1000] if wild else []))
        return "R %d %d" % (t, rid)
    if k < 0.75:
        size = rng.choice([0, 1, 2, 4, 8, 16, 32, 64] + ([3, 6, 10, 12, 48, 128] if wild else []))
        bt = rng.choice([0, 1, 4, 5, 6, 6, 5, 31] + ([2, 11, 16, 25] if wild else []))
        bid = rng.choice([0, 3, 4, 5, 8, 13, 15] + ([31, 32, 200, 256, 400] if wild else []))
        it = rng.choice([0, 0, 0, 5, 6, 11, 12, 13] + ([4, 16, 2] if wild else []))
        iid = rng.choice([0, 1, 6, 9, 15, 20] + ([31, 32, 256, 300] if wild else []))
        if bt == 0:
            off = rng.choice([0, 16, -16, 0x1234, 2147483647, 2147483648, 4294967295, 4294967296, -2147483648, -2147483649, 1 << 40, -(1 << 40)])
        else:
            off = rng.choice([0, 0, 16, -16, 127, 128, 2147483647, -2147483648])
        seg = rng.choice([0, 0, 0, 1, 4, 6] + ([7] if wild else []))
        bc = rng.choice([0, 0, 0, 1, 2, 3, 4] + ([5, 7] if wild else []))
        home = 1 if rng.random() < 0.05 else 0
        return "M %d %d %d %d %d %d %d %d %d %d" % (size, bt, bid, it, iid, rng.randrange(4), off, seg, bc, home)
    if k < 0.90:
        return "I %d" % (rng.choice(IMM_EDGES) if rng.random() < 0.7 else rng.randrange(-(1 << 63), 1 << 63))
    if k < 0.95:
        return "L"
    return "N"


def perturb(rng, cmd):
    """small random change of a database instantiation: keeps the stream close to what the validator accepts"""
    t = cmd.split()
    head, rest = t[:7], t[7:]
    ops = []
    while rest:
        n = {"R": 3, "M": 11, "I": 2, "L": 1, "N": 1}[rest[0]]
        ops.append(rest[:n]); rest = rest[n:]
    what = rng.randrange(10)
    if what == 0 and ops:
        ops[rng.randrange(len(ops))] = rand_operand(rng, rng.random() < 0.3).split()
    elif what == 1:
        head[3] = str(int(head[3]) ^ rng.choice(OPT_BITS))
    elif what == 2:
        head[4], head[5] = rng.choice([("16", str(rng.choice([0, 1, 3, 7, 8, 9]))), ("5", "1"), ("6", "1"), ("4", "1"), ("5", "3"), ("11", "1"), ("0", "0")])
    elif what == 3 and ops:
        o = ops[rng.randrange(len(ops))]
        if o[0] == "R":
            o[2] = str(rng.choice([0, 1, 2, 4, 7, 8, 12, 15, 16, 24, 31, 32, 256, 300]))
        elif o[0] == "M":
            f = rng.choice([1, 2, 3, 4, 5, 7, 8, 9, 10])
            o[f] = str(rng.choice({1: [0, 1, 2, 4, 8, 16, 32, 64, 5], 2: [0, 1, 4, 5, 6, 31, 11], 3: [0, 4, 5, 12, 31, 32, 256], 4: [0, 5, 6, 11, 12, 13, 4],
                                   5: [0, 4, 8, 17, 32, 256], 7: [0, 8, 128, -129, 2147483647], 8: [0, 1, 6, 7], 9: [0, 1, 2, 3, 4, 5], 10: [0, 1]}[f]))
        elif o[0] == "I":
            o[1] = str(rng.choice(IMM_EDGES))
    elif what == 4:
        head[1] = str(int(head[1]) ^ 1)
    elif what == 5 and ops:
        ops.insert(rng.randrange(len(ops) + 1), ["N"])
    elif what == 6 and len(ops) >= 2:
        i, j = rng.sample(range(len(ops)), 2); ops[i], ops[j] = ops[j], ops[i]
    elif what == 7:
        head[1] = str(int(head[1]) | 2)
        for o in ops:
            if o[0] == "R" and rng.random() < 0.5:
                o[2] = str(rng.choice([256, 257, 300]))
            if o[0] == "M" and rng.random() < 0.5:
                o[3] = "300"
    elif what == 8 and ops:
        # low/high byte registers with and without REX
        ops[rng.randrange(len(ops))] = ["R", str(rng.choice([2, 3])), str(rng.choice([0, 1, 3, 4, 7, 8, 12]))]
        if rng.random() < 0.3:
            head[3] = str(int(head[3]) | 1073741824)
    else:
        ops = ops[:rng.randrange(len(ops) + 1)]
    ops = ops[:6]
    head[6] = str(len(ops)); head[0] = "V"
    return " ".join(head + [x for o in ops for x in o])


def run_validator_stream(ck, d, impl, model, rng, stats):
    vend = sorted(read_corpus("implemented_x86.txt"))
    n = 60000 if ck.tier == "quick" else 1500000
    cmds = []
    ninst = d["x86.count"][0]
    for i in range(n):
        if vend and i % 3 != 0:
            cmds.append(perturb(rng, rng.choice(vend)))
        else:
            wild = rng.random() < 0.4
            nops = rng.choice([0, 1, 1, 2, 2, 2, 3, 3, 4, 5, 6])
            opt = 0
            if rng.random() < 0.3:
                for _ in range(rng.randrange(1, 3)):
                    opt |= rng.choice(OPT_BITS)
            et, eid = rng.choice([(0, 0)] * 6 + [(16, 1), (16, 0), (16, 9), (5, 1), (6, 1), (6, 2), (4, 1), (6, 256)])
            inst = rng.choice([rng.randrange(ninst), rng.randrange(ninst), rng.randrange(ninst + 3), ninst, 65535])
            cmds.append("V %d %d %d %d %d %d %s" % (rng.randrange(4), inst, opt, et, eid, nops, " ".join(rand_operand(rng, wild) for _ in range(nops))))
    ck.log("validator stream: %d commands" % len(cmds))
    ri = run_sharded(impl, cmds)
    rm = run_sharded(model, cmds)
    if isinstance(ri, tuple) or isinstance(rm, tuple):
        bad = ri if isinstance(ri, tuple) else rm
        ck.violation("C13/harness-crash", "harness or model driver failed on the validator stream: %s" % (bad,), {"commands": cmds[:3], "detail": str(bad)}, no_input=True)
        return []
    errs = {}
    acc = 0; unbuildable = 0; pinned = 0
    for c, x, y in zip(cmds, ri, rm):
        a = x.split(); m = y.split()
        if a[1] == "parse-error":
            unbuildable += 1
            continue
        v = int(a[1])
        errs[v] = errs.get(v, 0) + 1
        acc += v == 0
        if v == int(m[1]):
            continue
        if v == int(m[2]) and (int(c.split()[6]) == 0 or c.split()[7] == "N"):
            pinned += 1       # the operand-count quirk (reported by run_forms with the instruction's name)
            continue
        stats["validator_model_diff"] = stats.get("validator_model_diff", 0) + 1
        ck.violation("C13/correspondence/validate", "InstAPI::validate answers %d, the model %s on %r" % (v, m[1:], c),
                     {"command": c, "impl": x, "model": y, "broken": "correspondence of X86Validate model with /repo"}, no_input=True)
    stats.update({"validator_stream_cmds": len(cmds), "validator_stream_accepted": acc, "validator_stream_unbuildable": unbuildable,
                  "validator_stream_pinned_quirk_answers": pinned, "validator_stream_errors_seen": {str(k): v for k, v in sorted(errs.items())}})
    z = list(zip(cmds, ri, rm))
    return [{"cmd": c, "impl": x, "model": y} for c, x, y in z[:3]]


# ------------------------------------------------------------------ main
def run(ck):
    rng = random.Random(ck.seed)
    stats = {"names_cmds": 0, "roundtrips": 0, "lookups": 0, "lookups_hit": 0, "disagreements": 0}

    # S1: translator
    dump_exe = ck.build_harness("c13_dump", ["c13_dump.cpp"])
    rc, dump_txt, err = vlib.sh([dump_exe], timeout=120)
    if rc != 0:
        raise RuntimeError("c13_dump failed: %s" % err[-2000:])
    d = c13_gen.parse_dump(dump_txt)
    gen_files = c13_gen.gen_files(d)
    gen_dir = None
    r = ck.coq_regen(gen_files, timeout=900)
    regen_failed = []
    if r is not None:
        gen_dir, regen_failed, regen_log = r
        ck.log("tables differ from the committed snapshot: regenerated coq/gen in %s, failed: %s" % (gen_dir, regen_failed))
    else:
        ck.log("tables identical to the committed snapshot (coq/gen)")

    # S2: theorems
    obl = ck.coq_properties(gen_dir=gen_dir)
    ck.log("theorems: %d, failed: %d" % (len(obl), len([o for o in obl if not o["ok"]])))

    # S3: harness + extracted model (if the regenerated tables do not even compile, fall back to the committed snapshot for the model)
    impl = ck.build_harness("c13", ["c13_harness.cpp"])
    try:
        model = ck.ocaml_model("Extract_InstNames.v", ["zconv.ml", "c13_driver.ml"], name="c13", gen_dir=gen_dir)
    except RuntimeError as e:
        ck.violation("C13/model-extraction", "model over the regenerated tables cannot be extracted: %s" % str(e)[-500:],
                     {"broken": "extraction over regenerated coq/gen"}, no_input=True)
        model = ck.ocaml_model("Extract_InstNames.v", ["zconv.ml", "c13_driver.ml"], name="c13")

    if ck.replay:
        rp = json.load(open(ck.replay))
        cmds = rp["replay"].get("commands") or ([rp["replay"]["command"]] if "command" in rp["replay"] else [])
        for c in cmds:
            print("input:", c)
            print(" impl :", vlib.sh([impl], inp=c + "\n")[1].strip())
            print(" model:", vlib.sh([model], inp=c + "\n")[1].strip())
        return 0

    cmds = gen_name_stream(rng, d, ck.tier)
    ck.log("name stream: %d commands" % len(cmds))
    ri = run_sharded(impl, cmds)
    rm = run_sharded(model, cmds)
    if isinstance(ri, tuple) or isinstance(rm, tuple):
        bad = ri if isinstance(ri, tuple) else rm
        ck.violation("C13/harness-crash", "harness or model driver failed: %s" % (bad,), {"commands": cmds[:5], "detail": str(bad)}, no_input=True)
    else:
        judge_names(ck, d, cmds, ri, rm, stats)
    form_samples = run_forms(ck, d, impl, model, rng, stats) or []
    form_samples += run_validator_stream(ck, d, impl, model, rng, stats)

    # proofs
    for n in regen_failed:
        lemma = "?"
        mm = re.search(r'File "([^"]*%s)", line (\d+)' % re.escape(n), regen_log)
        if mm and os.path.exists(mm.group(1)):
            for ln in reversed(open(mm.group(1)).read().splitlines()[:int(mm.group(2))]):
                m2 = re.match(r"\s*Lemma\s+(\S+)", ln)
                if m2:
                    lemma = m2.group(1)
                    break
        ck.violation("C13/reflection/" + n, "reflection lemma %s over the regenerated tables no longer checks (%s): %s" % (lemma, n, regen_log[-600:]),
                     {"broken": "coq/gen/" + n, "unsorted_letters_a64": c13_gen.a64_unsorted_letters(d)}, no_input=True)
    # a gen file whose reflection lemmas fail has no .vo, so Properties_C13.v as a whole cannot be compiled: attribute the failure to the
    # theorems that rest on that file (the others are listed in the evidence as not re-checkable in this run)
    THEOREM_GEN = {"X86Forms.v": ["C13_db_forms_validate", "C13_db_excluded_forms_refused", "C13_validate_operand_count_refuted"],
                   "X86Sigs.v": ["C13_validator_tables_wf", "C13_db_forms_validate", "C13_db_excluded_forms_refused", "C13_validate_operand_count_refuted"],
                   "X86Names.v": ["C13_find_correct", "C13_name_tables_in_bounds", "C13_name_roundtrip_x86", "C13_alias_roundtrip_x86",
                                  "C13_string_to_inst_id_correct_x86", "C13_string_to_inst_id_none_x86"],
                   "A64Names.v": ["C13_name_tables_in_bounds", "C13_name_roundtrip_a64", "C13_name_roundtrip_a64_unique", "C13_string_to_inst_id_correct_a64",
                                  "C13_string_to_inst_id_none_a64", "C13_a64_single_range_failures", "C13_a64_single_range_unsorted_letters",
                                  "C13_name_roundtrip_a64_single_range_refuted"]}
    blamed = set(t for n in regen_failed for t in THEOREM_GEN.get(n, []))
    for o in ck.proof_failures():
        if regen_failed and o["name"] not in blamed:
            ck.notes.append("theorem %s not re-checked in this run: Properties_C13.v does not compile while coq/gen/%s fails" % (o["name"], ",".join(regen_failed)))
            continue
        ck.violation("C13/proof/" + o["name"], "theorem %s no longer checks (%s)" % (o["name"], getattr(ck, "coq_log", "")[-800:]),
                     {"broken": "theorem " + o["name"], "file": "coq/theories/Properties/Properties_C13.v"}, no_input=True)

    samples = []
    if not isinstance(ri, tuple) and not isinstance(rm, tuple):
        z = list(zip(cmds, ri, rm))
        samples = [{"cmd": c, "impl": x, "model": y} for c, x, y in z[:2] + z[len(z) // 2: len(z) // 2 + 2] + z[-2:]]
    return ck.finish(
        "proof",
        {"evaluations": stats["names_cmds"] + stats.get("form_cmds", 0) + stats.get("validator_stream_cmds", 0),
         "distinct_nontrivial": stats["roundtrips"] + stats["lookups_hit"] + stats.get("db_implemented", 0) + stats.get("mut_both_accept", 0) + stats.get("validator_stream_accepted", 0),
         "rule": "NI: every instruction id of x86 and AArch64 (+ undefined ids); NS: every name and alias, one-edit neighbours, case/NUL/length variants, random "
                 "strings from VERIF_SEED; non-trivial = round trips of defined ids + lookups of strings that are names (counted)",
         "samples": samples + form_samples, "stats": stats, "traces_validated_against_impl": len(cmds), "model_vs_impl_disagreements": stats["disagreements"],
         "tables_regenerated": gen_dir is not None},
        assumptions=["harness/c13_dump.cpp prints the arrays of /repo's working tree (#include of x86instdb.cpp, a64instdb.cpp, x86instapi.cpp)",
                     "theorems are about the Gallina model over these tables; the model is tied to the code by the differential run of this check",
                     "inst_id_to_string is modelled for InstStringifyOptions::kNone only"],
        checker_cmd="coqc (Coq 8.16.1) -Q coq/theories Verif -Q coq/gen VerifGen coq/theories/Properties/Properties_C13.v  [full .vo build of its dependencies]",
        trusted_base=["Coq 8.16.1 kernel incl. vm_compute (no native_compute)", "no axioms: every theorem 'Closed under the global context'",
                      "extraction (ExtrOcamlBasic only) + OCaml 4.13.1 + zarith glue in ml/zconv.ml",
                      "harness/c13_dump.cpp + tools/c13_gen.py (translator), harness/c13_harness.cpp, ml/c13_driver.ml, tools/checks/c13.py (generator, differ, python oracle)"])

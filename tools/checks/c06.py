"""C06 — Arguments and return values follow the target calling convention.

S2 theorems : coq/theories/Properties/Properties_C06.v (re-checked by coqc on every run)
S3 tie      : part A  harness/c06_harness.cpp drives the REAL CallConv::init / FuncDetail::init of /repo's working tree; the extracted
                      model (coq/theories/CallConv/FuncDetailModel.v via ml/c06_driver.ml) answers the same command stream; lines are diffed
              part B  the harness runs the REAL emit_args_assignment (Builder node list + Assembler bytes); the bytes are disassembled by
                      llvm-mc, translated into the validator's language and judged by the extracted, Coq-verified validator
S4 search   : part A  independent python ABI oracle (tools/c06_abi.py) on EVERY implementation answer, with named deviations to recognise the
                      recorded findings by shape; clang -S as a second, external ABI oracle on the C-expressible signatures drawn per run (count in coverage: clang_oracle)
              part B  independent concrete simulator (tools/c06_shuffle.py) of the disassembled instructions on EVERY emitted sequence
"""
import collections
import json
import os
import random
from concurrent.futures import ThreadPoolExecutor

import vlib
import c06_abi as ABI
import c06_gen as GEN
import c06_shuffle as SH
import c06_native as NAT

ABI_NAMES = {"sysv64": "SysV64", "win64": "Win64", "vectorcall64": "Vectorcall64", "cdecl32": "Cdecl32", "stdcall32": "Stdcall32", "fastcall32": "Fastcall32",
             "aapcs64": "Aapcs64", "apple64": "Apple64"}


def run_lines(exe, cmds, shards=8, timeout=1500):
    """feed command lines to an executable (sharded), return answer lines in order (or raise)"""
    if not cmds:
        return []
    shards = max(1, min(shards, len(cmds) // 500 + 1))
    chunks = [cmds[i::shards] for i in range(shards)]

    def one(chunk):
        rc, out, err = vlib.sh([exe], inp="\n".join(chunk) + "\n", timeout=timeout)
        lines = out.split("\n")[:-1]
        if rc != 0 or len(lines) != len(chunk):
            raise RuntimeError("%s failed rc=%s (%d answers for %d commands) %s" % (os.path.basename(exe), rc, len(lines), len(chunk), err[-300:]))
        return lines
    with ThreadPoolExecutor(max_workers=shards) as ex:
        rs = list(ex.map(one, chunks))
    out = [None] * len(cmds)
    for i, r in enumerate(rs):
        out[i::shards] = r
    return out


def kv(line):
    d = {}
    for t in line.split():
        if "=" in t:
            k, v = t.split("=", 1)
            d[k] = v
    return d


def parse_F(cmd):
    v = list(map(int, cmd.split()[1:]))
    env = tuple(v[0:3]); cc, va, ret, n = v[3], v[4], v[5], v[6]
    return env, cc, va, ret, v[7:7 + n], n


# ====================================================================================================== part A
def judge_F(cmd, ans):
    """independent judgement of ONE implementation answer.  -> (status, keys, what)
    status: 'ok' | 'deviation' (explained by named deviations -> keys) | 'violation' | 'unjudged' (no ABI for the pair / types outside)"""
    env, cc, va, ret, args, n = parse_F(cmd)
    abi = ABI.abi_of(env[0], env[1], env[2], cc)
    if abi is None and env[0] == 0 and cc == 3 and va == 255 and ans.startswith("F ok") and n <= 32 and all(32 <= t <= 43 or 71 <= t <= 100 for t in args):      # (__vectorcall functions cannot be variadic)
        # 32-bit __vectorcall: only the REGISTER rule is specified here (Microsoft docs, confirmed with clang -target i386-pc-windows-msvc): the
        # first two integer arguments of at most 32 bits travel in ECX / EDX and the k-th float / double / vector argument (k < 6) in XMM<k>;
        # stack layout and by-reference passing of the rest are not specified by this oracle
        impl = ABI.parse_detail(ans)
        ki = kv_ = 0
        for i, t in enumerate(args):
            if not impl["args"][i]: continue
            v = impl["args"][i][0]
            if 32 <= t <= 39:          # (u)int8..32 and the abstract pointer-sized integers (32-bit here)
                if ki < 2 and not (v[1] == 1 and v[3] == [1, 2][ki]):
                    if any(u in (40, 41) for u in args[:i]):       # the halves of an earlier 64-bit integer took ECX / EDX (same defect as fastcall, DESIGN 7.30)
                        return "deviation", ["C06/abi/vectorcall32/split-int64-regs"], "argument %d: integer #%d not in %s because a 64-bit integer was split into the registers: %s" % (i, ki, ["ECX", "EDX"][ki], v)
                    return "violation", ["C06/abi/vectorcall32/integer-registers"], "argument %d: integer #%d not in %s: %s" % (i, ki, ["ECX", "EDX"][ki], v)
                ki += 1
            elif t in (42, 43) or 71 <= t <= 100:
                if kv_ < 6 and not (v[1] == 1 and SH.rt_group(v[2]) == 1 and v[3] == kv_):
                    return "deviation", ["C06/abi/vectorcall32/vector-registers"], "argument %d (type %d): float/vector #%d is not passed in XMM%d: %s" % (i, t, kv_, kv_, v)
                kv_ += 1
        return "ok", [], ""
    if abi is None:
        return "unjudged", [], "no ABI table for this (target, convention) pair"
    if n > 32:
        return ("ok", [], "") if ans.startswith("F err=invarg") else ("violation", ["C06/abi/%s/too-many-args-accepted" % abi], "more than 32 arguments accepted")
    if not all(ABI.universe(abi, t) for t in args) or not ABI.ret_universe(abi, ret):
        return "unjudged", [], "type outside the C types the ABI defines"
    if not ans.startswith("F ok"):
        return "violation", ["C06/abi/%s/refused" % abi], "FuncDetail::init refused a signature the ABI defines: %s" % ans
    impl = ABI.parse_detail(ans)
    okc, whatc = ABI.check_consts(abi, impl)
    if not okc and abi == "vectorcall64" and impl.get("spill") == 48:
        # recorded deviation: a 48-byte spill zone instead of the 32-byte home area (every other constant must still be right)
        okc = ABI.check_consts(abi, dict(impl, spill=32))[0]
    if not okc:
        return "violation", ["C06/abi/%s/constants" % abi], whatc
    ok, devs, what = ABI.explain(abi, va, ret, args, impl)
    if ok:
        return "ok", [], ""
    if devs is None:
        return "violation", ["C06/abi/%s/unexplained" % abi], what
    return "deviation", ["C06/abi/%s/%s" % (abi, d) for d in devs], what


def wf_monitor(cmd, ans):
    """independent monitor of C06_locations_disjoint on ONE implementation answer, for every convention (also those without an ABI table):
    no register shared by two argument values, stack slots disjoint and in order, all inside arg_stack_size.  -> (key, what) or None"""
    if not ans.startswith("F ok"): return None
    d = ABI.parse_detail(ans)
    env = parse_F(cmd)[0]
    ptr = 4 if env[0] == 0 else 8
    seen = {}; end = 0; last = None
    for i, pack in enumerate(d["args"]):
        for v in pack:
            if v[1] == 1:
                k = (SH.rt_group(v[2]), v[3])
                if k in seen:
                    return ("C06/wf/register-shared", "arguments %d and %d share register group %d id %d" % (seen[k], i, k[0], k[1]))
                seen[k] = i
            elif v[1] == 2:
                size = ptr if v[5] else ABI.sizeof(v[0])
                shape = "f80" if v[0] == 44 else "other"
                if v[4] < end:
                    return ("C06/wf/stack-slots-overlap/" + ("win64-f80" if last == "f80" and d["st"] in (1, 2) else "other"),
                            "the stack slot of argument %d starts at +%d, inside the previous stack value that ends at +%d" % (i, v[4], end))
                if v[4] + size > d["stack"]:
                    return ("C06/wf/outside-stack-area/" + ("win64-f80" if shape == "f80" and d["st"] in (1, 2) else "other"),
                            "argument %d occupies [+%d, +%d) but arg_stack_size is %d" % (i, v[4], v[4] + size, d["stack"]))
                end = v[4] + size; last = shape
    return None


def explain_pending_fix(cmd, x, y):
    """impl and model differ and the model describes a proposed repair that /repo may not contain yet.  Recognise exactly the unrepaired shapes:
    (1) fixes/C06-win64-f80-by-ref.patch: positional strategy, differences only at kFloat80 arguments (by value in impl, by reference in model);
    (2) fixes/C06-vectorcall32-regs.patch: 32-bit vectorcall, differences only in flags / vector order / float-vector argument placement."""
    if not (x.startswith("F ok") and y.startswith("F ok")): return None
    env, cc, va, ret, args, n = parse_F(cmd)
    a, b = ABI.parse_detail(x), ABI.parse_detail(y)
    if len(a["args"]) != len(b["args"]): return None
    if a.get("st") in (1, 2):
        for k in a["raw"]:
            if k not in ("args", "used") and a["raw"][k] != b["raw"].get(k): return None
        hit = False
        for i, (p, q) in enumerate(zip(a["args"], b["args"])):
            if p == q: continue
            if not (len(p) == 1 and len(q) == 1 and p[0][0] == 44 and q[0][0] == 44 and p[0][5] == 0 and q[0][5] == 1): return None
            hit = True
        return ("C06/wf/outside-stack-area/win64-f80", "kFloat80 passed by value in an 8-byte home slot / vector register (repair: by reference)") if hit else None
    if env[0] == 0 and cc == 3:
        for k in a["raw"]:
            if k not in ("args", "used", "flags", "o1", "passed", "stack") and a["raw"][k] != b["raw"].get(k): return None
        if a["o1"][:6] != [0, 1, 2, 255, 255, 255] or b["o1"][:6] != [0, 1, 2, 3, 4, 5]: return None
        return ("C06/abi/vectorcall32/vector-registers", "32-bit vectorcall with vector order 0,1,2 and floats on the stack (repair: XMM0..5, floats by vector register)")
    return None


def explain_oob(x, y):
    """impl and model (which has the repaired look-up) differ: is the difference exactly the unguarded GP-order look-up of DESIGN 7.4?
    (positional strategy; a by-reference vector at argument index 16..19 sits in GP register id index-16 instead of on the stack)"""
    if not (x.startswith("F ok") and y.startswith("F ok")): return None
    a, b = ABI.parse_detail(x), ABI.parse_detail(y)
    if a.get("st") not in (1, 2) or len(a["args"]) != len(b["args"]): return None
    for k in a["raw"]:
        if k not in ("args", "used") and a["raw"][k] != b["raw"].get(k): return None
    hits = []
    for i, (p, q) in enumerate(zip(a["args"], b["args"])):
        if p == q: continue
        if not (16 <= i <= 31 and len(p) == 1 and len(q) == 1): return None
        beyond = a["o1"][i - 16]          # what the unguarded read of the GP order array finds: the entry of the Vec order array
        if beyond == 255: return None
        if not (p[0][1] == 1 and p[0][2] == 6 and p[0][3] == beyond and p[0][5] == 1 and q[0][1] == 2 and q[0][5] == 1 and p[0][0] == q[0][0]): return None
        hits.append(i)
    if not hits or a["used"] != b["used"]: return None
    return "by-reference vector argument(s) %s assigned to GP register id(s) %s (read beyond the 16-entry GP order array) instead of the stack" % (hits, [a["o1"][i - 16] for i in hits])


def explain_home_slots(x, y):
    """impl and model (which has the positional home slots of fixes/C06-win64-home-slots.patch) differ: is the difference exactly the
    sequential stack layout of the unpatched positional strategy?  Same registers / kinds / indirection for every argument; only stack offsets,
    arg_stack_size and (vectorcall) the spill zone differ, and the implementation's offsets are the sequential ones."""
    if not (x.startswith("F ok") and y.startswith("F ok")): return None
    a, b = ABI.parse_detail(x), ABI.parse_detail(y)
    if a.get("st") not in (1, 2) or len(a["args"]) != len(b["args"]): return None
    for k in a["raw"]:
        if k not in ("args", "stack", "spill") and a["raw"][k] != b["raw"].get(k): return None
    if a["st"] == 1 and a["spill"] != 32: return None
    if a["st"] == 2 and a["spill"] not in (32, 48): return None
    off = a["spill"]
    for i, (p, q) in enumerate(zip(a["args"], b["args"])):
        if len(p) != len(q): return None
        for u, v in zip(p, q):
            if (u[0], u[1], u[2], u[3], u[5]) != (v[0], v[1], v[2], v[3], v[5]): return None
            if u[1] == 2:
                if u[4] != off or v[4] != 8 * i: return None
                off += 8
            elif u[1] == 1 and u[5] == 1:
                off += 8            # the by-reference vector in a register advances the offset (DESIGN 7.29)
    if a["stack"] != off or b["stack"] != 8 * max(len(a["args"]), 4): return None
    return ("C06/abi/vectorcall64/sequential-after-48" if a["st"] == 2 else "C06/abi/win64/indirect-bump",
            "stack arguments laid out sequentially from +%d (arg_stack_size %d) instead of their home slots 8*i (%d)" % (a["spill"], a["stack"], b["stack"]))


def part_A(ck, impl, model, rng, cov):
    cmds = ["T"] + GEN.gen_signatures(rng, ck.tier)
    corpus = os.path.join(vlib.VERIF, "corpus", "C06.txt")
    if os.path.exists(corpus):
        cmds = cmds[:1] + [l.strip() for l in open(corpus) if l.startswith("F ")] + cmds[1:]
    ck.log("part A: %d signature commands" % len(cmds))
    ri = run_lines(impl, cmds)
    rm = run_lines(model, cmds)
    acmds = ["A" + c[1:] for c in cmds if c.startswith("F ") and parse_F(c)[5] <= 32]
    ra = run_lines(model, acmds)
    # ---- T: enumerator values / type table
    ti, tm = kv(ri[0]), kv(rm[0])
    for k in ("sizes", "rt", "flags", "fv", "max", "ccid"):
        if ti.get(k) != tm.get(k):
            ck.violation("C06/enum/" + k, "enumerator / table values differ between /repo and the model: %s impl=%s model=%s" % (k, ti.get(k), tm.get(k)),
                         {"command": "T", "impl": ri[0][:300], "model": rm[0][:300], "broken": "correspondence C06 (numeric constants of the model)"}, no_input=True)
    gi, gm = ti.get("reggroup", "").split(","), tm.get("reggroup", "").split(",")
    for rt in list(range(2, 17)) + [28]:
        if rt < len(gi) and gi[rt] != gm[rt] and not (rt in (7, 8, 14, 15)):
            ck.violation("C06/enum/reggroup", "RegType %d group differs: impl %s model %s" % (rt, gi[rt], gm[rt]), {"command": "T", "broken": "correspondence C06"}, no_input=True)
    regtypeid = [int(x) for x in ti.get("regtypeid", "").split(",")] if ti.get("regtypeid") else [0] * 32
    # ---- F: correspondence + oracle
    st = collections.Counter()
    wf_hits = collections.Counter()
    dev_hits = collections.Counter()
    by_abi = collections.Counter()
    nontrivial = set()
    disagreements = 0
    samples = []
    for cmd, x, y in zip(cmds[1:], ri[1:], rm[1:]):
        status, keys, what = judge_F(cmd, x)
        st[status] += 1
        wfm = wf_monitor(cmd, x)
        if wfm:
            wf_hits[wfm[0]] += 1
            ck.violation(wfm[0], "%s  [%s]" % (wfm[1], cmd), {"command": cmd, "impl": x, "model": y})
        elif x.startswith("F ok"):
            wf_hits["well-formed"] += 1
        env, cc, va, ret, args, n = parse_F(cmd)
        abi = ABI.abi_of(env[0], env[1], env[2], cc)
        if abi: by_abi[abi] += 1
        if x.startswith("F ok") and (" 2," in x or ",2,0,0," in x or n >= 5):
            nontrivial.add(cmd)
        if status == "deviation":
            for k in keys:
                dev_hits[k] += 1
                ck.violation(k, "%s: %s  [%s]" % (k, what, cmd), {"command": cmd, "impl": x, "model": y})
        elif status == "violation":
            ck.violation(keys[0] + "/" + cmd.replace(" ", "_")[:80], "%s  [%s]" % (what, cmd), {"command": cmd, "impl": x, "model": y})
        if x != y:
            disagreements += 1
            if status in ("deviation", "violation"):
                continue      # the oracle exhibited a failing input of the property itself (reported above)
            pend = explain_pending_fix(cmd, x, y)
            if pend:
                dev_hits[pend[0]] += 1
                ck.violation(pend[0], "%s: %s  [%s]" % (pend[0], pend[1], cmd), {"command": cmd, "impl": x, "model": y})
                continue
            hs = explain_home_slots(x, y)
            if hs:
                dev_hits[hs[0]] += 1
                ck.violation(hs[0], "%s: %s  [%s]" % (hs[0], hs[1], cmd), {"command": cmd, "impl": x, "model": y})
                continue
            oob = explain_oob(x, y)
            if oob:
                dev_hits["C06/abi/win64/oob16"] += 1
                ck.violation("C06/abi/win64/oob16", "C06/abi/win64/oob16: %s  [%s]" % (oob, cmd), {"command": cmd, "impl": x, "model": y})
                continue
            ck.violation("C06/correspondence/F/" + cmd.replace(" ", "_")[:80],
                         "implementation and proven model disagree on %r; the independent ABI oracle judges the implementation's answer as %s" % (cmd, status),
                         {"command": cmd, "impl": x, "model": y, "broken": "correspondence of FuncDetailModel.v with FuncDetail::init"}, no_input=True)
        if len(samples) < 4 and status == "ok" and n >= 7:
            samples.append({"cmd": cmd, "impl": x[:400]})
    # ---- A: the proven monitor on the same signatures (instances of C06_assign_matches_abi)
    mon = collections.Counter(ra)
    guarded = sum(v for k, v in mon.items() if "guard=1" in k)
    bad = [(c, a) for c, a in zip(acmds, ra) if "guard=1" in a and a != "A guard=1 args=1 rets=1 stack=1 consts=1"]
    for c, a in bad[:5]:
        ck.violation("C06/theorem-instance/" + c.replace(" ", "_")[:80], "extracted model contradicts C06_assign_matches_abi on %s: %s" % (c, a),
                     {"command": c, "model": a, "broken": "theorem C06_assign_matches_abi (extraction / driver)"}, no_input=True)
    cov.update({"A_commands": len(cmds), "A_oracle_status": dict(st), "A_by_abi": dict(by_abi), "A_known_deviation_hits": dict(dev_hits), "A_wf_monitor (C06_locations_disjoint on every answer)": dict(wf_hits),
                "A_model_vs_impl_disagreements": disagreements, "A_under_theorem_guard": guarded,
                "A_monitor": {k: v for k, v in mon.most_common(6)}})
    return cmds, ri, nontrivial, samples, regtypeid


# ---------------------------------------------------------------- clang as an external ABI oracle (header-free C, -S)
CTYPES = {34: "signed char", 35: "unsigned char", 36: "short", 37: "unsigned short", 38: "int", 39: "unsigned", 40: "long long", 41: "unsigned long long",
          42: "float", 43: "double"}
TRIPLES = {"sysv64": "x86_64-linux-gnu", "win64": "x86_64-pc-windows-msvc", "cdecl32": "i386-linux-gnu", "aapcs64": "aarch64-linux-gnu",
           "apple64": "arm64-apple-darwin", "regparm3_32": "i386-linux-gnu", "regparm2_32": "i386-linux-gnu", "vectorcall64": "x86_64-pc-windows-msvc"}
X64ARG = {"rdi": 7, "rsi": 6, "rdx": 2, "rcx": 1, "r8": 8, "r9": 9}


def clang_locate(abi, args, k, work):
    """where does clang expect parameter k?  -> ('r', group, id) | ('s', offset) | None (could not parse)"""
    import re
    def cty(t):
        if t in CTYPES: return CTYPES[t]
        if 71 <= t <= 80: return "v16"
        if 61 <= t <= 70: return "v8"
        return None
    tys = [cty(t) for t in args]
    if any(t is None for t in tys): return None
    src = "typedef int v16 __attribute__((vector_size(16)));\ntypedef int v8 __attribute__((vector_size(8)));\n"
    src += "volatile %s g;\nvoid f(%s) { g = p%d; }\n" % (tys[k], ", ".join("%s p%d" % (t, i) for i, t in enumerate(tys)), k)
    path = os.path.join(work, "clang_%s_%d.c" % (abi, k))
    open(path, "w").write(src)
    flags = ["-O1", "-S", "-fomit-frame-pointer", "-fno-pic"]
    if abi not in ("aapcs64", "apple64"): flags.append("-msse2")
    if abi.startswith("regparm"): flags.append("-mregparm=" + abi[7])
    if abi == "vectorcall64": src = src.replace("void f(", "void __vectorcall f(")
    open(path, "w").write(src)
    rc, out, err = vlib.sh(["clang", "-target", TRIPLES[abi]] + flags + ["-o", "-", path], timeout=60)
    if rc != 0: return None
    body = []
    on = False
    for line in out.split("\n"):
        s = line.strip()
        if s.startswith(("f:", "_f:", '"f":', "f@@", '"f@@')): on = True; continue
        if on:
            if s.startswith((".cfi", "#", "//", ";", ".seh")) or not s: continue
            if s.startswith(("ret", ".Lfunc_end", ".size")): break
            body.append((s.split("//")[0].split(";")[0] if abi in ("aapcs64", "apple64") else s.split("#")[0]).strip())
    if not body: return None
    text = " ; ".join(body)
    if abi in ("sysv64", "win64", "vectorcall64", "cdecl32") or abi.startswith("regparm"):
        i386 = abi == "cdecl32" or abi.startswith("regparm")
        sp = "%esp" if i386 else "%rsp"
        npush = 0
        while body and body[0].startswith("push"):
            npush += 1; body = body[1:]
        if not body: return None
        text = " ; ".join(body)
        m = re.search(r"(-?\d*)\(%s\)" % re.escape(sp), text)
        ra = 4 if i386 else 8
        if m and not re.match(r"\w+\s+%(e?[abcd]x|[abcd]l|e?[sd]i|r\d+\w?|[sd]il),", body[0]):
            return ("s", (int(m.group(1)) if m.group(1) else 0) - ra - npush * ra)
        m = re.search(r"\(%(r[a-z0-9]+)\)", body[0])       # by reference: the value is loaded through an argument register
        if m and m.group(1) in X64ARG: return ("ri", 0, X64ARG[m.group(1)])
        m = re.search(r"%(xmm|ymm)(\d+)", body[0])
        if m: return ("r", 1, int(m.group(2)))
        names = {"rax": 0, "eax": 0, "ax": 0, "al": 0, "rdi": 7, "edi": 7, "dil": 7, "di": 7, "rsi": 6, "esi": 6, "sil": 6, "si": 6, "rdx": 2, "edx": 2, "dl": 2, "dx": 2, "rcx": 1, "ecx": 1, "cl": 1, "cx": 1,
                 "r8": 8, "r8d": 8, "r8b": 8, "r8w": 8, "r9": 9, "r9d": 9, "r9b": 9, "r9w": 9}
        m = re.match(r"\w+\s+%(\w+),", body[0])
        if m and m.group(1) in names: return ("r", 0, names[m.group(1)])
        return None
    # aarch64
    m = re.search(r"\[sp(?:, #(\d+))?\]", text)
    if m: return ("s", int(m.group(1) or 0))
    m = re.search(r"\bstr[bh]?\s+([wxsdq])(\d+),", text)
    if m: return ("r", 0 if m.group(1) in "wx" else 1, int(m.group(2)))
    return None


def clang_oracle(ck, cmds, ri, rng, cov):
    import shutil
    if not shutil.which("clang"):
        cov["clang_oracle"] = "clang not found"
        return
    cands = []
    for cmd, x in zip(cmds[1:], ri[1:]):
        if not cmd.startswith("F ") or not x.startswith("F ok"): continue
        env, cc, va, ret, args, n = parse_F(cmd)
        abi = ABI.abi_of(env[0], env[1], env[2], cc)
        if abi in TRIPLES and 1 <= n <= 14 and va == 255 and all((t in CTYPES) or 71 <= t <= 80 for t in args) and not (abi.endswith("32") and any(t >= 71 for t in args)):
            cands.append((abi, cmd, x, args))
    rng.shuffle(cands)
    want = 40 if ck.tier == "quick" else 600
    per = collections.Counter(); picked = []
    for c in cands:
        if per[c[0]] < want // len(TRIPLES) + 1:
            picked.append(c); per[c[0]] += 1

    def one(c):
        abi, cmd, x, args = c[:4]
        ks = [j for j, t in enumerate(args) if not (abi.endswith("32") and t in (40, 41))]     # 64-bit values on 32-bit targets: two stores in either order
        if not ks:
            return c[:4], 0, None
        k = random.Random(cmd).choice(ks)
        d = os.path.join(ck.work, "clang", "%d" % c[4])
        os.makedirs(d, exist_ok=True)
        return c[:4], k, clang_locate(abi, args, k, d)
    picked = [c + (i,) for i, c in enumerate(picked)]
    with ThreadPoolExecutor(max_workers=16) as ex:
        res = list(ex.map(one, picked))
    stats = collections.Counter()
    for (abi, cmd, x, args), k, loc in res:
        if loc is None:
            stats["unparsed"] += 1; continue
        spec = ABI.expect(abi, False, 0, args)[0][k]
        v = spec[0]
        if abi.endswith("32") and len(spec) == 2: v = spec[0]
        spec_loc = ("s", v[3]) if v[0] == 2 else (("ri", 0, v[2]) if v[4] else ("r", SH.rt_group(v[1]), v[2]))
        if v[0] == 2 and v[4]: spec_loc = ("si", v[3])
        impl = ABI.parse_detail(x)["args"][k][0]
        impl_loc = ("s", impl[4]) if impl[1] == 2 else (("ri", 0, impl[3]) if impl[5] else ("r", SH.rt_group(impl[2]), impl[3]))
        if impl[1] == 2 and impl[5]: impl_loc = ("si", impl[4])
        if loc[0] == "s" and spec_loc[0] == "si": spec_loc = ("s", spec_loc[1])          # clang loads the pointer from that slot
        if loc[0] == "s" and impl_loc[0] == "si": impl_loc = ("s", impl_loc[1])
        if loc != spec_loc:
            stats["clang_vs_pyspec_differs"] += 1
            ck.notes.append("clang and the python ABI oracle differ on %s parameter %d: clang %s, oracle %s" % (cmd, k, loc, spec_loc))
        else:
            stats["clang_confirms_pyspec"] += 1
        if loc != impl_loc:
            stats["clang_vs_impl_differs"] += 1
            status, keys, what = judge_F(cmd, x)
            if status == "ok":
                ck.violation("C06/clang/" + cmd.replace(" ", "_")[:80], "clang -target %s places parameter %d at %s, AsmJit at %s (python oracle saw no deviation)  [%s]" %
                             (TRIPLES[abi], k, loc, impl_loc, cmd), {"command": cmd, "impl": x, "clang": str(loc)})
        else:
            stats["clang_confirms_impl"] += 1
    cov["clang_oracle"] = dict(stats)


# ====================================================================================================== part B
def parse_S_cmd(c):
    v = list(map(int, c.split()[1:]))
    n = v[5]; args = v[6:6 + n]; rest = v[6 + n:]
    opts = rest[:6]; d = rest[6:]
    dsts = [tuple(d[5 * i:5 * i + 5]) for i in range(n)]
    return tuple(v[:3]), v[3], args, opts, dsts


def cycles_of(mvs):
    nxt = {}
    for mv in mvs:
        if mv["src"][0] == "R" and mv["dst"][0] == "R" and mv["src"][1] == mv["dst"][1] and mv["src"] != mv["dst"]:
            nxt[mv["src"]] = mv["dst"]
    res = []; seen = set()
    for a in list(nxt):
        if a in seen: continue
        path = [a]; b = nxt[a]
        while b in nxt and b not in path:
            path.append(b); b = nxt[b]
        if b == a:
            res.append((a[1], len(path)))
        seen.update(path)
    return res


def part_B(ck, impl, model, rng, cov, regtypeid):
    cmds = SH.gen_assignments(rng, ck.tier)
    corpus = os.path.join(vlib.VERIF, "corpus", "C06.txt")
    if os.path.exists(corpus):
        cmds = [l.strip() for l in open(corpus) if l.startswith("S ")] + cmds
    ck.log("part B: %d argument assignments" % len(cmds))
    rs = run_lines(impl, cmds)
    Ss = [SH.parse_S(l) for l in rs]
    arch_of = [int(c.split()[1]) for c in cmds]
    for S, a in zip(Ss, arch_of):
        S["arch"] = a
    for arch in (0, 1, 2):
        ok_idx = [i for i, S in enumerate(Ss) if S["status"] == "ok" and arch_of[i] == arch]
        dis = SH.disassemble([Ss[i]["bytes"] for i in ok_idx], arch)
        for i, d in zip(ok_idx, dis):
            Ss[i]["insts"] = d
    SH.decode_all(model, Ss, run_lines)          # the verified whitelist (DecodeModel.v) reads every disassembled sequence
    st = collections.Counter()
    vcmds = []; vidx = []
    info = {}; asm_refused = {}; minsts = {}
    for i, (c, S) in enumerate(zip(cmds, Ss)):
        env, cc, args, opts, dsts = parse_S_cmd(c)
        mvs = SH.moves_of(dsts, S["detail"], regtypeid) if "detail" in S and "args" in S.get("detail", {}) else []
        info[i] = mvs
        if S["status"] != "ok":
            continue
        if S.get("asm") != "ok":
            # the Builder recorded the sequence but the Assembler cannot encode one of its instructions: the assignment fails at assembly time
            bad = S["nodes"][len(S["insts"])] if len(S["insts"]) < len(S["nodes"]) else "?"
            key = "C06/shuffle/" + {0: "x86/", 1: "", 2: "a64/"}[arch_of[i]] + "assembler-refuses/" + bad.split()[0] + "-" + "-".join(o[:2] for o in bad.split()[1:])
            asm_refused[i] = key
            ck.violation(key, "the Builder accepts the assignment but the Assembler refuses `%s` (%s): emit_args_assignment fails at assembly time  [%s]" % (bad, S.get("asm"), c),
                         {"command": c, "impl": S["raw"][:600]})
            continue
        alias = {"stur": "str", "ldur": "ldr"}          # unscaled forms of the same store / load (llvm-mc prints them for unaligned offsets)
        nm, dm = [x.split()[0] for x in S["nodes"]], [alias.get(m, m) for m, _ in S["insts"]]
        if nm != dm and len(nm) == len(dm):
            # the Assembler encoded a different instruction than the one the Builder recorded (llvm-mc is the judge of what the bytes mean)
            idx = [k for k, (x, y) in enumerate(zip(nm, dm)) if x != y][0]
            a, b = nm[idx], dm[idx]
            bad = S["nodes"][idx]
            key = "C06/shuffle/" + {0: "x86/", 1: "", 2: "a64/"}[arch_of[i]] + "assembler-misencodes/%s-%s-as-%s" % (a, "-".join(o[:2] for o in bad.split()[1:]), b)
            asm_refused[i] = key
            ck.violation(key, "the Assembler encodes the emitted `%s` as `%s` (llvm-mc)  [%s]" % (bad, b, c), {"command": c, "impl": S["raw"][:600]})
            continue
        try:
            ms = SH.translate(S)
        except SH.Unmodelled as e:
            st["unmodelled"] += 1
            continue
        minsts[i] = ms
        allowed = SH.allowed_locs(S)
        vcmds.append("V %d %s %d %s %d %s" % (len(mvs), " ".join(SH.move_txt(m) for m in mvs), len(allowed), " ".join(SH.loc_txt(l) for l in allowed),
                                              len(ms), " ".join(SH.minst_txt(m) for m in ms)))
        vidx.append(i)
    rv = run_lines(model, vcmds)
    verdict = {}
    for i, a in zip(vidx, rv):
        verdict[i] = a
    # ---- judge every case
    nontrivial = set(); samples = []
    known = collections.Counter(); refused = collections.Counter(); by_arch = collections.Counter()
    for i, (c, S) in enumerate(zip(cmds, Ss)):
        mvs = info[i]
        P = "C06/shuffle/" + {0: "x86/", 1: "", 2: "a64/"}[arch_of[i]]
        by_arch[arch_of[i]] += 1
        if S["status"] != "ok":
            err = S.get("err")
            cyc = cycles_of(mvs)
            if err and err.startswith("update:invassign") and any(m["ind"] for m in mvs):
                refused["indirect-source (documented as not supported)"] += 1; continue
            if err and err.startswith("detail:"):
                refused["signature refused"] += 1; continue
            if err == "emit:invstate" and any(n >= 3 for g, n in cyc):
                known[P + "cycle-of-3-or-more-refused"] += 1
                ck.violation(P + "cycle-of-3-or-more-refused", "emit_args_assignment refuses a cyclic permutation of %s registers of one group (kInvalidState)  [%s]" %
                             (max(n for g, n in cyc), c), {"command": c, "impl": S["raw"][:600]})
                continue
            if err == "emit:invstate" and any(m["dty"] in (42, 43, 44) for m in mvs):
                known[P + "scalar-float-destination-type-refused"] += 1
                ck.violation(P + "scalar-float-destination-type-refused", "emit_arg_move refuses a destination typed kFloat32/kFloat64 (kInvalidState)  [%s]" % c,
                             {"command": c, "impl": S["raw"][:600]})
                continue
            if err == "emit:invstate" and "dirty" in S and any(m["src"][0] == "M" and m["dst"][0] == "M" for m in mvs):
                gp_allowed = {l[2] for l in SH.allowed_locs(S) if l[1] == 0} - {S["sp"]}
                gp_busy = {m["src"][2] for m in mvs if m["src"][0] == "R" and m["src"][1] == 0} | ({S["sareg"]} if S["sareg"] != S["sp"] else set())
                if not (gp_allowed - gp_busy):
                    known[P + "no-scratch-register-refused"] += 1
                    ck.violation(P + "no-scratch-register-refused", "every usable GP register holds an argument or the SA pointer: the stack-to-stack move finds no scratch register "
                                 "(kInvalidState)  [%s]" % c, {"command": c, "impl": S["raw"][:600]})
                    continue
            ck.violation(P + "refused/%s/%s" % (err, c.replace(" ", "_")[:80]), "assignment refused with %s  [%s]" % (err, c), {"command": c, "impl": S["raw"][:800]})
            continue
        if i in asm_refused:
            known[asm_refused[i]] += 1
            continue
        st["emitted"] += 1
        wrong = clob = beyond = faults = None
        simerr = None
        try:
            w1, c1, b1, f1 = SH.simulate(S, mvs, random.Random(ck.seed * 7919 + i))
            w2, c2, b2, f2 = SH.simulate(S, mvs, random.Random(ck.seed * 104729 + i))
            wrong = w1 or w2; clob = c1 or c2; beyond = b1 or b2; faults = f1 or f2
        except SH.SimError as e:
            simerr = str(e)
        v = verdict.get(i)
        ok_v = v is not None and v.startswith("V 1")
        if S["insts"]:
            nontrivial.add(c)
        if simerr is not None:
            st["simulator_unmodelled"] += 1
            if ok_v:
                st["validated"] += 1
            else:
                ck.violation(P + "unjudged/" + c.replace(" ", "_")[:80], "neither validator nor simulator can judge the emitted sequence (%s / %s)  [%s]" %
                             (S.get("unmodelled"), simerr, c), {"command": c, "impl": S["raw"][:800], "broken": "whitelist of move-like instructions"}, no_input=True)
            continue
        txt = " ; ".join("%s %s" % (m, ",".join(str(o) for o in ops)) for m, ops in S["insts"])
        if clob:
            ck.violation(P + "clobbers-preserved/" + c.replace(" ", "_")[:80], "the shuffle changes %s which is neither dirty nor a destination nor caller-saved  [%s]" % (clob, c),
                         {"command": c, "impl": S["raw"][:800], "model": v})
            continue
        if wrong:
            mv, got, want = wrong[0]
            # root cause "scratch register of a stack-to-stack move clobbers a live argument": some instruction loads ANOTHER argument's
            # incoming stack slot into this move's source or destination register although that other argument is bound for the stack
            scratch = SH.scratch_clobbers(mv, minsts.get(i, []), mvs)
            # root cause "a neighbour's store is wider than its slot and runs into this destination" (same defect as store-wider-than-slot)
            neighbour = None
            if mv["dst"][0] == "M":
                for mi in minsts.get(i, []):
                    if mi[0] == "X" and mi[1][0] == "M" and mi[1][1] == 1 and mi[1] != mv["dst"]:
                        for o in mvs:
                            if o["dst"] == mi[1] and mi[6] > o["dbits"] and mi[1][2] < mv["dst"][2] + mv["dbits"] // 8 and mv["dst"][2] < mi[1][2] + mi[6] // 8:
                                neighbour = (o, mi[6])
            if neighbour:
                key = P + "store-wider-than-slot/%s-as-%d-bits" % (SH.shape(neighbour[0]), neighbour[1])
            elif scratch:
                key = P + "wrong-value/stack-to-stack-scratch-clobbers-live-argument"
            elif mv["int"] and mv["sbits"] < mv["dbits"] and any(m == "xchg" and any(o[0] == "r" and ("R", o[1], o[2]) == mv["dst"] for o in ops) for m, ops in S["insts"]):
                key = P + "wrong-value/xchg-drops-extension"
            else:
                key = P + "wrong-value/" + SH.shape(mv)
            known[key] += 1
            ck.violation(key, "argument %d (type %d -> %d, %s) arrives as %#x, required %#x; emitted: %s  [%s]" % (mv["arg"], mv["sty"], mv["dty"], SH.shape(mv), got, want, txt, c),
                         {"command": c, "impl": S["raw"][:800], "model": v})
            if ok_v:
                ck.violation(P + "validator-vs-simulator/" + c.replace(" ", "_")[:80], "the verified validator accepts a sequence the simulator shows wrong", {"command": c, "model": v,
                             "broken": "instruction semantics table (DecodeModel.v) vs simulator"}, no_input=True)
            continue
        # a store wider than the destination slot of the move it belongs to (the move whose destination starts where the store starts)
        culprit = None
        for mi in minsts.get(i, []):
            if mi[0] == "X" and mi[1][0] == "M" and mi[1][1] == 1:
                for mv in mvs:
                    if mv["dst"] == mi[1] and mi[6] > mv["dbits"]:
                        culprit = (mv, "store", mi[6]); break
            if culprit: break
        if beyond or faults or (culprit and not ok_v):
            if culprit:
                key = P + "store-wider-than-slot/%s-as-%d-bits" % (SH.shape(culprit[0]), culprit[2])
            elif faults:
                key = P + "misaligned-aligned-access/" + faults[0].split()[0]
            else:
                key = P + "store-outside-slots"
            known[key] += 1
            ck.violation(key, "%s; emitted: %s  [%s]" % ("; ".join(faults[:2]) if faults else ("bytes at SP+%s outside every destination slot are overwritten" % beyond[:8]) if beyond
                                                          else "a %d-bit store into the %d-bit slot of argument %d overlaps its neighbours" % (culprit[2], culprit[0]["dbits"], culprit[0]["arg"]), txt, c),
                         {"command": c, "impl": S["raw"][:800], "model": v})
            continue
        if ok_v:
            st["validated"] += 1
            if len(samples) < 4 and len(S["insts"]) >= 3:
                samples.append({"cmd": c, "insts": [m + " " + ",".join(map(str, o)) for m, o in S["insts"]], "validator": v})
        elif "unmodelled" in S:
            st["simulated_only"] += 1
        else:
            ck.violation(P + "unvalidated/" + c.replace(" ", "_")[:80], "the validator rejects the emitted sequence (%s) but two simulations found no wrong value  [%s]" % (v, c),
                         {"command": c, "impl": S["raw"][:800], "model": v, "broken": "validate (ShuffleModel.v) too weak for this sequence"}, no_input=True)
    cov.update({"B_assignments": len(cmds), "B_status": dict(st), "B_by_arch (0 x86, 1 x86-64, 2 aarch64)": dict(by_arch), "B_refused": dict(refused), "B_known_finding_hits": dict(known),
                "B_instructions": sum(len(S["insts"]) for S in Ss),
                "B_mnemonics": dict(collections.Counter(m for S in Ss for m, _ in S["insts"]).most_common(30))})
    part_B_native(ck, impl, cmds, Ss, info, verdict, rng, cov)
    part_B_solver(ck, model, cmds, Ss, info, cov)
    part_B_solver_full(ck, model, cmds, Ss, info, cov)
    return cmds, nontrivial, samples, st


def part_B_solver(ck, model, cmds, Ss, info, cov):
    """functional correspondence of the SOLVER: for assignments inside the fragment of coq/theories/CallConv/SolverModel.v (every move register to
    register inside the GP group, integer types, SP-based frame) the proven model of emit_args_assignment must emit exactly the instruction list the
    implementation emitted (compared in the validator's language), and refuse exactly when the implementation refuses"""
    idx = []; wcmds = []
    for i, (c, S) in enumerate(zip(cmds, Ss)):
        arch = S.get("arch")
        mvs = info[i]
        if arch not in (1, 2) or not mvs or "dirty" not in S: continue
        if S["status"] != "ok" and S.get("err") != "emit:invstate": continue
        if S["sareg"] != S["sp"] or S.get("da"): continue
        if S["status"] == "ok" and S.get("asm") != "ok": continue
        if not all(m["src"][0] == "R" and m["dst"][0] == "R" and m["src"][1] == 0 and m["dst"][1] == 0 and SH.is_intty(m["sty"]) and SH.is_intty(m["dty"]) for m in mvs): continue
        if len(mvs) != sum(1 for d in parse_S_cmd(c)[4] if d[0] != 0): continue          # some requested move is not in the fragment (stack / other group)
        excl = {4} if arch == 1 else {18, 31}
        work = sorted(({l[2] for l in SH.allowed_locs(S) if l[1] == 0} | {m["src"][2] for m in mvs}) - excl)
        ws = "W %d %d %s %d %s" % (0 if arch == 1 else 1, len(work), " ".join(map(str, work)), len(mvs),
                                   " ".join("%d %d %d %d %d %d" % (m["src"][2], m["sbits"] // 8, 1 if m["sty"] in SH.SIGNED else 0,
                                                                      m["dst"][2], m["dbits"] // 8, 1 if m["dty"] in SH.SIGNED else 0) for m in mvs))
        idx.append(i); wcmds.append(ws)
    rw = run_lines(model, wcmds)
    st = collections.Counter()
    for i, w, a in zip(idx, wcmds, rw):
        S = Ss[i]
        if S["status"] != "ok":
            want = "W err"
            got = a
        else:
            try:
                want = " ; ".join(SH.minst_txt(m) for m in SH.translate(S))
            except SH.Unmodelled:
                st["unmodelled"] += 1; continue
            got = a.split(" ", 3)[3] if a.startswith("W ok") and len(a.split(" ", 3)) > 3 else (a if not a.startswith("W ok") else "")
            if a.startswith("W ok") and ",wf=1" not in a.split()[2]:
                st["outside_wf_input"] += 1          # hypothesis of the C06_solver_* theorems not met (never expected inside the fragment filter)
            if a.startswith("W ok valid=0"):
                ck.violation("C06/solver/model-output-not-valid/" + cmds[i].replace(" ", "_")[:70], "the verified validator rejects what the solver MODEL emits for [%s]: %s" % (cmds[i], a),
                             {"command": cmds[i], "model": a, "broken": "SolverModel.v / theorem C06_solver_*"}, no_input=True)
        def canon(txt):          # xchg is symmetric and the encoding does not keep the operand order: order its two operands
            out = []
            for part in txt.split(" ; "):
                f = part.split()
                if f and f[0] == "G":
                    a, b = tuple(f[1:4]), tuple(f[4:7])
                    if (int(b[1]), int(b[2])) < (int(a[1]), int(a[2])): a, b = b, a
                    f = ["G"] + list(a) + list(b) + f[7:]
                out.append(" ".join(f))
            return " ; ".join(out)
        got, want = canon(got), canon(want)
        if got == want:
            st["same_instruction_list" if S["status"] == "ok" else "both_refuse"] += 1
            if S["status"] == "ok": st["instructions_compared"] += len(S["insts"])
        else:
            st["differs"] += 1
            ck.violation("C06/solver/correspondence/" + cmds[i].replace(" ", "_")[:70], "solver model and emit_args_assignment differ on [%s]: implementation `%s`, model `%s`" % (cmds[i], want, got),
                         {"command": cmds[i], "impl": S["raw"][:600], "model": a, "broken": "correspondence of SolverModel.v with BaseEmitHelper::emit_args_assignment"}, no_input=True)
    cov["B_solver_model"] = dict(st)


def part_B_solver_full(ck, model, cmds, Ss, info, cov):
    """functional correspondence of the WHOLE function (coq/theories/CallConv/SolverFullModel.v): assignments over GP and vector registers, incoming
    stack arguments and SP-based destination slots (integers of every width, scalar floats / 64 / 128-bit vectors of unchanged size, no AVX,
    SP-based frame): the model must emit exactly the implementation's instruction list - stack stores first, the two-group shuffle, stack loads last -
    and refuse exactly when the implementation refuses"""
    idx = []; ycmds = []
    def inside(m, arch, avx):
        if SH.is_intty(m["sty"]) and SH.is_intty(m["dty"]):
            if arch == 0 and (m["sbits"] > 32 or m["dbits"] > 32): return False        # 32-bit x86: an 8-byte integer is a pair of values
            return all(l[0] == "M" or l[1] == 0 for l in (m["src"], m["dst"]))
        if SH.is_intty(m["sty"]) or SH.is_intty(m["dty"]): return False
        if m["sbits"] != m["dbits"] or m["sbits"] not in ((32, 64, 128, 256, 512) if avx else (32, 64, 128)): return False
        if m["src"][0] == "M" and m["dst"][0] == "M": return False
        return all(l[0] == "M" or l[1] == 1 for l in (m["src"], m["dst"]))
    for i, (c, S) in enumerate(zip(cmds, Ss)):
        arch = S.get("arch")
        mvs = info[i]
        if arch not in (0, 1, 2) or not mvs or "dirty" not in S: continue
        if S["status"] != "ok" and S.get("err") != "emit:invstate": continue
        if S["sareg"] != S["sp"] or S.get("da"): continue
        if S["status"] == "ok" and S.get("asm") != "ok": continue                          # the Assembler refused an instruction (judged in part B): the byte stream is incomplete
        env, cc, args, opts, dsts = parse_S_cmd(c)
        avx = bool(opts[1] or opts[2])
        if avx and arch != 1: continue
        if not all(inside(m, arch, avx) and not m["ind"] for m in mvs): continue
        if len(mvs) != sum(1 for d in dsts if d[0] != 0): continue
        if arch != 0 and not avx and all(m["src"][0] == "R" and m["dst"][0] == "R" and m["src"][1] == 0 for m in mvs): continue      # already compared by part_B_solver
        excl = {18, 31} if arch == 2 else {4}
        al = SH.allowed_locs(S)
        wgp = sorted(({l[2] for l in al if l[0] == "R" and l[1] == 0} | {m["src"][2] for m in mvs if m["src"][0] == "R" and m["src"][1] == 0}) - excl)
        wvec = sorted({l[2] for l in al if l[0] == "R" and l[1] == 1} | {m["src"][2] for m in mvs if m["src"][0] == "R" and m["src"][1] == 1})
        def var(m):
            it = SH.is_intty(m["sty"])
            return "%s %d %d %s %d %d %d" % (SH.loc_txt(m["src"]), m["sbits"] // 8, 1 if (it and m["sty"] in SH.SIGNED) else 0,
                                             SH.loc_txt(m["dst"]), m["dbits"] // 8, 1 if (it and m["dty"] in SH.SIGNED) else 0, 1 if it else 0)
        acode = 3 if arch == 0 else 1 if arch == 2 else 2 if avx else 0
        ycmds.append("Y %d %d %s %d %s %d %s" % (acode, len(wgp), " ".join(map(str, wgp)), len(wvec), " ".join(map(str, wvec)), len(mvs),
                                                 " ".join(var(m) for m in mvs)))
        idx.append(i)
    ry = run_lines(model, ycmds)
    st = collections.Counter()
    for i, y, a in zip(idx, ycmds, ry):
        S = Ss[i]
        if S["status"] != "ok":
            want = "Y err"; got = a
        else:
            try:
                want = " ; ".join(SH.minst_txt(m) for m in SH.translate(S))
            except SH.Unmodelled:
                st["unmodelled"] += 1; continue
            got = a.split(" ", 3)[3] if a.startswith("Y ok") and len(a.split(" ", 3)) > 3 else (a if not a.startswith("Y ok") else "")
            if a.startswith("Y ok") and ",wf=1" not in a.split()[2]:
                st["outside_wf_input"] += 1
            if a.startswith("Y ok valid=0"):
                st["model_output_not_validated"] += 1
        got, want = canon_xchg(got), canon_xchg(want)
        if got == want:
            st["same_instruction_list" if S["status"] == "ok" else "both_refuse"] += 1
            if S["status"] == "ok":
                st["instructions_compared"] += len(S["insts"])
                kinds = {(m["src"][0], m["dst"][0], m["src"][1] if m["src"][0] == "R" else m["dst"][1] if m["dst"][0] == "R" else 0) for m in info[i]}
                for k in kinds: st["with_%s_to_%s_group%d" % k] += 1
                st["arch_" + y.split()[1] + " (0 x86-64, 1 aarch64, 2 x86-64 AVX, 3 x86-32)"] += 1
        else:
            st["differs"] += 1
            ck.violation("C06/solver-full/correspondence/" + cmds[i].replace(" ", "_")[:70], "full model and emit_args_assignment differ on [%s]: implementation `%s`, model `%s`" % (cmds[i], want, got),
                         {"command": cmds[i], "impl": S["raw"][:600], "model": a, "model_command": y, "broken": "correspondence of SolverFullModel.v with BaseEmitHelper::emit_args_assignment"}, no_input=True)
    cov["B_solver_full_model"] = dict(st)


def canon_xchg(txt):          # xchg is symmetric and the encoding does not keep the operand order: order its two operands
    out = []
    for part in txt.split(" ; "):
        f = part.split()
        if f and f[0] == "G":
            a, b = tuple(f[1:4]), tuple(f[4:7])
            if (int(b[1]), int(b[2])) < (int(a[1]), int(a[2])): a, b = b, a
            f = ["G"] + list(a) + list(b) + f[7:]
        out.append(" ".join(f))
    return " ; ".join(out)


def part_B_native(ck, impl, cmds, Ss, info, verdict, rng, cov):
    """execute the emitted x86-64 shuffles on the host CPU (harness command X) from random register / frame images: the CPU's final state must
    equal the python simulator's prediction (validates the simulator and the whitelist semantics against the real machine), and destinations the
    verified validator accepted must hold the required values natively"""
    # i386 shuffles cannot be run as 32-bit code on this host; they are run in 64-bit mode when llvm-mc decodes their bytes to the SAME
    # instructions under -triple=x86_64 (mov / movzx / movsx / xchg / SSE moves with ESP-relative operands encode identically; a 32-bit
    # register write zero-extends, which the simulator models the same way), so the host CPU cross-validates the simulator on them too
    i386 = [i for i, S in enumerate(Ss) if S.get("arch") == 0 and S["status"] == "ok" and S.get("asm") == "ok" and S["insts"]]
    try:
        dis64 = SH.disassemble([Ss[i]["bytes"] for i in i386], 1)
    except RuntimeError:
        dis64 = [None] * len(i386)
    for i, d in zip(i386, dis64):
        Ss[i]["same_in_long_mode"] = d is not None and d == Ss[i]["insts"]
    idx = [i for i, S in enumerate(Ss) if S.get("arch") in (0, 1) and S["status"] == "ok" and S.get("asm") == "ok" and S["insts"] and NAT.eligible(S, info[i])]
    limit = 1500 if ck.tier == "quick" else 40000
    if len(idx) > limit:
        idx = sorted(rng.sample(idx, limit))
    blobs = {i: NAT.make_blob(rng) for i in idx}
    xcmds = ["X" + cmds[i][1:] + " H" + blobs[i].hex() for i in idx]
    st = collections.Counter()
    try:
        rx = run_lines(impl, xcmds, shards=8)
    except RuntimeError as e:
        ck.violation("C06/native/harness-crash", "native execution crashed: %s" % e, {"broken": "harness (native runner)"}, no_input=True)
        cov["B_native"] = {"crashed": 1}
        return
    for i, line in zip(idx, rx):
        d = kv(line.split(" insts=")[0])
        nat = d.get("native")
        if not nat or len(nat) != 2 * NAT.BLOB:
            st["unavailable"] += 1; continue
        out = bytes.fromhex(nat)
        S = Ss[i]; mvs = info[i]
        try:
            pred = NAT.simulate_from(S, mvs, blobs[i])
        except SH.SimError:
            st["simulator_unmodelled"] += 1; continue
        st["executed"] += 1
        if S.get("arch") == 0: st["executed_i386_in_long_mode"] += 1
        if pred != out:
            diff = [k for k in range(NAT.BLOB) if pred[k] != out[k]][:6]
            st["cpu_vs_simulator_differs"] += 1
            ck.violation("C06/native/simulator-differs/" + cmds[i].replace(" ", "_")[:70], "the host CPU and the python simulator disagree at image bytes %s after the emitted code of [%s]" % (diff, cmds[i]),
                         {"command": cmds[i], "impl": S["raw"][:600], "broken": "instruction semantics of tools/c06_shuffle.py (simulator) vs the x86-64 host"}, no_input=True)
            continue
        bad = NAT.wrong_moves(S, mvs, blobs[i], out)
        v = verdict.get(i)
        if bad:
            st["native_wrong_value"] += 1
            if v is not None and v.startswith("V 1"):
                mv, got, want = bad[0]
                ck.violation("C06/native/validated-but-wrong/" + cmds[i].replace(" ", "_")[:70], "accepted by the verified validator, but on the host CPU argument %d arrives as %#x instead of %#x  [%s]" %
                             (mv["arg"], got, want, cmds[i]), {"command": cmds[i], "impl": S["raw"][:600], "model": v})
        else:
            st["native_all_destinations_right"] += 1
            if v is not None and v.startswith("V 1"): st["validated_and_natively_right"] += 1
    cov["B_native"] = dict(st)


# ====================================================================================================== part C: call sites
MIX = [(1, 0), (1, 1), (2, 0), (2, 1), (4, 0), (4, 1), (8, 0), (8, 1)] * 2          # (bytes, signed) of cb_mix's parameters
SPECIAL = [0, 1, -1, 0x7F, 0x80, 0xFF, 0x7FFF, 0x8000, 0xFFFF, 0x7FFFFFFF, 0x80000000, 0xFFFFFFFF, 0x100000000, -0x80000000, -0x80000001,
           0x7FFFFFFFFFFFFFFF, -0x8000000000000000, 0x123456789ABCDEF0, 0xFFFFFFFF00000000 - (1 << 64), 0x80000000FFFFFFFF - (1 << 64)]


def part_C(ck, impl, rng, cov):
    """call-site marshalling (x86rapass on_before_invoke / move_imm_to_reg_arg / move_imm_to_stack_arg / move_reg_to_stack_arg / move_vec_to_ptr): a
    Compiler-built function calls C callees with immediates and virtual registers; every received value is compared with the C conversion of
    the passed value to the parameter type.  Callees: the host's SysV x86-64 ABI (CallConvId::kCDecl) and - compiled with __attribute__((ms_abi)) -
    Win64 (CallConvId::kX64Windows): 12 x int64 / int32 / double / float, 16 mixed integers, interleaved (int64, double) x 6 (Win64: positional
    registers), 10 and 4 x __m128i (SysV: XMM0..7 + stack; Win64: by reference, pointers in RCX/RDX/R8/R9 + stack)."""
    n = 900 if ck.tier == "quick" else 30000
    cmds = []
    NARGS = {0: 12, 1: 12, 2: 16, 3: 12, 4: 12, 5: 12, 6: 10, 7: 4}
    def in_reg(kind, win, i):
        if win: return i < 4
        if kind in (3, 4, 6, 7): return i < 8
        if kind == 5: return True
        return i < 6
    for _ in range(n):
        kind = rng.choice([0, 0, 1, 2, 2, 3, 4, 5, 6, 7])
        win = 1 if rng.random() < 0.5 else 0
        cnt = NARGS[kind]
        parts = ["I", str(kind + 16 * win), str(cnt)]
        for i in range(cnt):
            v = rng.choice(SPECIAL) if rng.random() < 0.6 else rng.getrandbits(64) - (1 << 63)
            mode = 1 if rng.random() < 0.35 else 0
            fp = kind in (3, 4) or (kind == 5 and i % 2 == 1)
            if fp and in_reg(kind, win, i): mode = 1         # float register arguments travel in virtual registers (an immediate cannot name an XMM value)
            if kind in (6, 7): mode = 1
            parts += [str(mode), str(v)]
        cmds.append(" ".join(parts))
    try:
        rs = run_lines(impl, cmds, shards=8)
    except RuntimeError as e:
        ck.violation("C06/invoke/harness-crash", "call-site harness crashed: %s" % e, {"broken": "harness (invoke runner)"}, no_input=True)
        cov["C_invoke"] = {"crashed": 1}
        return cmds
    st = collections.Counter()
    def s64(x):
        x &= (1 << 64) - 1
        return x - (1 << 64) if x >> 63 else x
    for c, a in zip(cmds, rs):
        f = c.split(); kind = int(f[1]) & 15; win = int(f[1]) >> 4; cnt = int(f[2])
        cname = "win64" if win else "sysv"
        if a.startswith("I err=host"):
            st["not an x86-64 host"] += 1; continue
        if not a.startswith("I ok"):
            if win and kind == 6 and a.strip() == "I err=finalize25":
                # root cause: move_reg_to_stack_arg is asked to store the POINTER of a by-reference vector argument but dispatches on the vector type
                ck.violation("C06/invoke/refused/win64-indirect-vector-stack-arg", "Win64: the Compiler refuses (kInvalidAssignment) a call whose 5th or later "
                             "argument is a vector held in a virtual register (passed by reference, pointer on the stack)  [%s]" % c, {"command": c, "impl": a})
                st["win64_vector_stack_arg_refused"] += 1
                continue
            ck.violation("C06/invoke/refused/%s/%s" % (cname, a.split("=")[-1]), "the Compiler refused the call  [%s] -> %s" % (c, a), {"command": c, "impl": a})
            continue
        got = [int(x) for x in a.split()[2:]]
        st["calls"] += 1; st["calls_" + cname] += 1
        want = []
        for i in range(cnt):
            v = int(f[4 + 2 * i])
            if kind in (6, 7):
                want += [s64(v), s64(~v)]; continue
            size, signed = (8, 1) if kind in (0, 3, 5) else (4, 1) if kind == 1 else (4, 0) if kind == 4 else MIX[i]
            w = v & ((1 << (8 * size)) - 1)
            want.append(s64(w - (1 << (8 * size)) if (signed and w >> (8 * size - 1)) else w))
        per = 2 if kind in (6, 7) else 1
        # SysV: float stack arguments are laid out in 4-byte slots (known FuncDetail defect C06/abi/sysv64/raw-slot): the callee, reading 8-byte
        # slots, receives parameter 8 right and parameter 10's value as parameter 9
        raw_slot = kind == 4 and not win and len(got) >= 12 and got[:9] == want[:9] and got[9] == want[10] and got[9:] != want[9:]
        if raw_slot:
            ck.violation("C06/abi/sysv64/raw-slot", "call site: 12 float arguments to a SysV callee - the stack arguments are written 4 bytes apart, the callee reads 8-byte slots: "
                         "parameter 9 receives the value passed for parameter 10 (%#x)  [%s]" % (got[9], c), {"command": c, "impl": a})
            st["sysv_float_stack_args_raw_slot"] += 1
            continue
        for i in range(cnt):
            mode = int(f[3 + 2 * i])
            st["arguments"] += 1
            where = "reg" if in_reg(kind, win, i) else "stack"
            tyname = {0: "i64", 1: "i32", 3: "f64", 4: "f32", 6: "v128", 7: "v128"}.get(kind) or (("f64" if i % 2 else "i64") if kind == 5 else "%s%d" % ("i" if MIX[i][1] else "u", 8 * MIX[i][0]))
            if got[per * i:per * i + per] != want[per * i:per * i + per]:
                key = "C06/invoke/wrong-value/%s%s-%s-to-%s" % ("win64/" if win else "", tyname, "imm" if mode == 0 else "vreg", where)
                ck.violation(key, "the %s C callee received %s for parameter %d (%s, %s), expected %s  [%s]" %
                             (cname, " ".join("%#x" % (g & (2 ** 64 - 1)) for g in got[per * i:per * i + per]), i, key.split("/")[-1], where,
                              " ".join("%#x" % (g & (2 ** 64 - 1)) for g in want[per * i:per * i + per]), c), {"command": c, "impl": a})
            else:
                st["%s_%s_%s_right" % (cname, "imm" if mode == 0 else "vreg", where)] += 1
                if kind in (6, 7): st["%s_vector_args_right" % cname] += 1
    cov["C_invoke"] = dict(st)
    return cmds


def part_D(ck, impl, rng, cov):
    """AArch64 call sites (no AArch64 CPU here): an a64::Compiler-built caller passes immediates and virtual registers; the assembled bytes are
    disassembled by llvm-mc and run by a byte-level interpreter (tools/c06_a64call.py) up to the BLR, where x0-x7 / d0-d7 and the outgoing
    area at SP must hold what AAPCS64 / Apple arm64 prescribe, and no argument store may run beyond the outgoing area"""
    import c06_a64call as K
    n = 400 if ck.tier == "quick" else 12000
    cmds = []
    for _ in range(n):
        kind = rng.choice([0, 1, 1, 2, 2, 3]); apple = rng.random() < 0.5
        cnt = 16 if kind == 2 else 12
        parts = ["K", "2" if apple else "0", "2" if apple else "0", str(kind), str(cnt)]
        for i in range(cnt):
            v = rng.choice(SPECIAL) if rng.random() < 0.5 else rng.getrandbits(64) - (1 << 63)
            mode = 1 if (kind == 3 or rng.random() < 0.4) else 0          # a64 call sites accept no floating point immediates
            parts += [str(mode), str(v)]
        cmds.append(" ".join(parts))
    try:
        rs = run_lines(impl, cmds, shards=8)
    except RuntimeError as e:
        ck.violation("C06/invoke/a64/harness-crash", "a64 call-site harness crashed: %s" % e, {"broken": "harness (a64 invoke builder)"}, no_input=True)
        cov["D_a64_invoke"] = {"crashed": 1}
        return cmds
    st = collections.Counter()
    ok = [(c, a.split("bytes=")[1].strip()) for c, a in zip(cmds, rs) if a.startswith("K ok")]
    for c, a in zip(cmds, rs):
        if not a.startswith("K ok"):
            ck.violation("C06/invoke/a64/refused/" + a.split("=")[-1].strip(), "the a64 Compiler refused the call  [%s] -> %s" % (c, a), {"command": c, "impl": a})
    dis = K.disassemble([b for _, b in ok])
    for (c, b), ins in zip(ok, dis):
        f = c.split(); apple = f[1] == "2"; kind = int(f[3]); cnt = int(f[4])
        vals = [int(f[6 + 2 * i]) for i in range(cnt)]
        txt = " ; ".join("%s %s" % (m, ",".join(o)) for m, o in ins)
        P = "C06/invoke/a64/" + ("apple/" if apple else "")
        try:
            cpu = K.run_to_call(ins)
        except K.Unmodelled as e:
            st["unmodelled"] += 1
            ck.violation(P + "unjudged/" + c.replace(" ", "_")[:60], "the call-site interpreter cannot run the sequence (%s): %s  [%s]" % (e, txt[:600], c),
                         {"command": c, "broken": "tools/c06_a64call.py"}, no_input=True)
            continue
        st["calls"] += 1; st["calls_" + ("apple" if apple else "aapcs64")] += 1
        st["arguments"] += cnt
        lay_abi = K.layout(kind, apple)
        lay_impl = K.layout(kind, apple, 4 if apple else None)          # AsmJit's own Apple layout (recorded deviation C06/abi/apple64/min-slot-4)
        ov = K.overflowing_stores(cpu, (K.area_size(kind, apple, lay_impl) + 7) // 8 * 8)
        if ov:
            st["store_beyond_outgoing_area"] += 1
            ck.violation(P + "stack-arg-store-wider-than-slot", "an argument store of %d bytes at [sp+%d] runs beyond the %d-byte outgoing argument area into the caller's frame: %s  [%s]" %
                         (ov[0][1], ov[0][0], K.area_size(kind, apple, lay_impl), txt[:900], c), {"command": c, "impl": b})
            continue
        bad = K.check(cpu, kind, apple, vals, lay_abi)
        if apple:
            modes = [int(f[5 + 2 * i]) for i in range(cnt)]
            ext = K.apple_imm_extension(cpu, kind, vals, modes, lay_abi)
            st["apple_subword_immediates_extended_by_caller"] += sum(1 for i in range(cnt) if modes[i] == 0 and K.params(kind)[i][0] < 4 and lay_abi[i][0] == "x") - len(ext)
            if ext:
                i, where, got, want = ext[0]
                ck.violation(P + "subword-immediate-not-extended", "Apple arm64: the immediate passed for the %d-byte parameter %d arrives in %s as %#x, the caller must "
                             "extend it to %#x: %s  [%s]" % (K.params(kind)[i][0], i, where, got, want, txt[:700], c), {"command": c, "impl": b})
                continue
        if not bad:
            st["all_arguments_right"] += 1; continue
        if apple and kind == 2 and not K.check(cpu, kind, apple, vals, lay_impl):
            st["apple_subword_stack_args_in_4_byte_slots"] += 1
            ck.violation("C06/abi/apple64/min-slot-4", "call site: Apple arm64 callee with 1- and 2-byte stack parameters - the caller writes them 4 bytes apart, the ABI packs them: parameter %d "
                         "expected at %s  [%s]" % (bad[0][0], bad[0][1], c), {"command": c, "impl": b})
            continue
        i, where, got, want = bad[0]
        size, sg, fl = K.params(kind)[i]
        ck.violation(P + "wrong-value/%s%d-to-%s" % ("f" if fl else ("i" if sg else "u"), 8 * size, "reg" if where[0] in "xd" else "stack"),
                     "at the BLR parameter %d (%s) holds %#x, passed value requires %#x: %s  [%s]" % (i, where, got, want, txt[:900], c), {"command": c, "impl": b})
    cov["D_a64_invoke"] = dict(st)
    return cmds


def table_witness(ck, TB):
    """failing-input search when the regenerated table lemmas fail: ask the extracted model for every integer type pair (register to another register,
    x86-64 and AArch64) which extension it emits and compare with what the source tables say; -> (S command exhibiting the first difference, text)"""
    try:
        T = TB.tables(vlib.REPO)
        model = ck.ocaml_model("Extract_CallConv.v", ["zconv.ml", "c06_driver.ml"], name="c06")
    except Exception:
        return None
    size = {34: 1, 35: 1, 36: 2, 37: 2, 38: 4, 39: 4, 40: 8, 41: 8}
    sg = {34: 1, 35: 0, 36: 1, 37: 0, 38: 1, 39: 0, 40: 1, 41: 0}
    a64 = dict(T["a64_reg_ext"])
    cases = []
    for arch in (0, 1):
        for s_ in size:
            for d_ in size:
                cases.append((arch, s_, d_, "Y %d 2 3 5 0 1 R 0 5 %d %d R 0 3 %d %d 1" % (arch, size[s_], sg[s_], size[d_], sg[d_])))
    ans = run_lines(model, [c[3] for c in cases])
    for (arch, s_, d_, y), a in zip(cases, ans):
        f = a.split()
        if not a.startswith("Y ok") or len(f) < 11: continue
        got = f[10]                                        # Y ok valid=..,wf=.. X R 0 3 R 0 5 <e> n w wz
        if arch == 0:
            want = "S" if (d_, s_) in T["x86_sign_casts"] else "Z"
        else:
            if size[s_] >= size[d_]: continue
            want = {"sxtb": "S", "sxth": "S", "sxtw": "S"}.get(a64.get(s_, ""), "Z")
        if got != want:
            env = "1 0 0" if arch == 0 else "2 0 0"
            cmd = "S %s 0 255 1 %d 0 0 0 0 256 -1 1 %d 3 %d 0" % (env, s_, 6 if size[d_] == 8 else 5, d_)
            return cmd, ("TypeId %d -> %d on %s: the source table says %s-extension, the model emits %s  [model: %s]" %
                         (s_, d_, "x86-64" if arch == 0 else "AArch64", "sign" if want == "S" else "zero", "sign" if got == "S" else "zero", a))
    return None


def source_tables(ck):
    """translator tie: regenerate coq/gen/C06Tables.v from the source text of the tree under test (TypeId enumerators, x86 MOVSX / MOVSXD cast pairs, a64
    extension / load switches of emit_arg_move).  Same text as the committed snapshot: its reflection lemmas were just re-checked through
    C06_source_cast_tables.  Different text: the regenerated file alone is compiled against the (unchanged) model; a failing lemma means the model no
    longer takes the decisions the source takes."""
    import c06_tables as TB
    try:
        files = TB.generate(vlib.REPO)
    except (TB.SourceShape, OSError, ValueError, KeyError) as e:
        ck.violation("C06/source-tables/shape", "the translator no longer recognises the source of emit_arg_move / TypeId: %s" % e,
                     {"broken": "tools/c06_tables.py (or a restructured source: re-derive the model tables by hand)"}, no_input=True)
        return "translator failed: %s" % e
    committed = os.path.join(vlib.COQ, "gen", "C06Tables.v")
    txt = files["C06Tables.v"]
    if os.path.exists(committed) and open(committed).read() == txt:
        return "source tables equal the committed snapshot (lemmas checked through C06_source_cast_tables)"
    wgen = os.path.join(ck.work, "gen_c06")
    os.makedirs(wgen, exist_ok=True)
    open(os.path.join(wgen, "C06Tables.v"), "w").write(txt)
    rc, out, err = vlib.sh(["coqc", "-Q", os.path.join(vlib.COQ, "theories"), "Verif", "-Q", wgen, "VerifGen", "-w", "-all", os.path.join(wgen, "C06Tables.v")], cwd=wgen, timeout=600)
    if rc != 0:
        import difflib
        d = "\n".join(list(difflib.unified_diff(open(committed).read().split("\n") if os.path.exists(committed) else [], txt.split("\n"), lineterm="", n=0))[:12])
        witness = table_witness(ck, TB)
        if witness:
            ck.violation("C06/source-tables/witness/" + witness[0].replace(" ", "_")[:60], "source table and model disagree on a concrete move: %s" % witness[1],
                         {"command": witness[0], "broken": "SolverFullModel.fconv vs emit_arg_move (source tables)"})
        ck.violation("C06/source-tables/model-disagrees", "the conversion tables in the source changed and the model's fconv no longer agrees with them (regenerated "
                     "coq/gen/C06Tables.v fails: %s); table diff: %s" % ((out + err)[-500:], d), {"broken": "SolverFullModel.fconv vs x86/a64 emit_arg_move", "diff": d}, no_input=True)
        return "regenerated tables differ from the snapshot and their lemmas FAIL"
    return "regenerated tables differ from the committed snapshot (slow path): lemmas re-proved against the model"


def cap_violations(ck, per_class=12):
    """a broken tree can produce thousands of failing inputs of one kind: keep the first few of every key class, count the rest"""
    orig = ck.violation
    seen = collections.Counter()
    dropped = collections.Counter()

    def limited(key, what, replay, no_input=False):
        import re
        cls = re.sub(r"/[SF]_.*", "", key)
        if not no_input and ck.match_finding(key) is not None:
            return orig(key, what, replay, no_input)
        seen[cls] += 1
        if seen[cls] > per_class:
            dropped[cls] += 1
            return True
        return orig(key, what, replay, no_input)
    ck.violation = limited
    return dropped


def run(ck):
    rng = random.Random(ck.seed)
    dropped = cap_violations(ck)
    obl = ck.coq_properties()
    ck.log("theorems: %d, failed: %d" % (len(obl), len([o for o in obl if not o["ok"]])))
    impl = ck.build_harness("c06", ["c06_harness.cpp"])
    model = ck.ocaml_model("Extract_CallConv.v", ["zconv.ml", "c06_driver.ml"], name="c06")
    tables_status = source_tables(ck)

    if ck.replay:
        rp = json.load(open(ck.replay))
        c = rp["replay"].get("command")
        print("input:", c)
        if c:
            x = vlib.sh([impl], inp=c + "\n")[1].strip()
            print(" impl :", x)
            if c.startswith("F "):
                print(" model:", vlib.sh([model], inp=c + "\n")[1].strip())
                print(" proven monitor:", vlib.sh([model], inp="A" + c[1:] + "\n")[1].strip())
                print(" oracle:", judge_F(c, x))
            elif c.startswith("K ") and x.startswith("K ok"):
                import c06_a64call as K
                ins = K.disassemble([x.split("bytes=")[1].strip()])[0]
                print(" disassembly:", " ; ".join("%s %s" % (m, ",".join(o)) for m, o in ins))
            elif c.startswith("S ") or c.startswith("X "):
                S = SH.parse_S(x)
                if S["status"] == "ok":
                    arch = int(c.split()[1])
                    S["arch"] = arch
                    S["insts"] = SH.disassemble([S["bytes"]], arch)[0]
                    print(" disassembly:", S["insts"])
                    env, cc, args, opts, dsts = parse_S_cmd(c)
                    ti = kv(vlib.sh([impl], inp="T\n")[1])
                    mvs = SH.moves_of(dsts, S["detail"], [int(t) for t in ti["regtypeid"].split(",")])
                    try:
                        print(" simulator (wrong destinations, clobbered, bytes beyond slots, faults):", SH.simulate(S, mvs, random.Random(1)))
                    except SH.SimError as e:
                        print(" simulator: unmodelled", e)
                    if NAT.eligible(S, mvs):
                        blob = NAT.make_blob(random.Random(2))
                        d = kv(vlib.sh([impl], inp="X" + c[1:] + " H" + blob.hex() + "\n")[1].split(" insts=")[0])
                        if len(d.get("native", "")) == 2 * NAT.BLOB:
                            out = bytes.fromhex(d["native"])
                            print(" host CPU: wrong destinations:", [(m["arg"], hex(g), hex(w)) for m, g, w in NAT.wrong_moves(S, mvs, blob, out)] or "none")
        return 0

    cov = {}
    try:
        cmdsA, riA, ntA, samplesA, regtypeid = part_A(ck, impl, model, rng, cov)
        clang_oracle(ck, cmdsA, riA, random.Random(ck.seed + 1), cov)
        cmdsB, ntB, samplesB, stB = part_B(ck, impl, model, random.Random(ck.seed + 2), cov, regtypeid)
        cmdsC = part_C(ck, impl, random.Random(ck.seed + 3), cov)
        cmdsC = cmdsC + part_D(ck, impl, random.Random(ck.seed + 4), cov)
    except RuntimeError as e:
        ck.violation("C06/harness-crash", "harness or model driver failed: %s" % e, {"broken": "harness", "detail": str(e)}, no_input=True)
        cmdsA = cmdsB = []; ntA = ntB = set(); samplesA = samplesB = []; stB = {}
    if "cmdsC" not in dir(): cmdsC = []
    # coverage floors (DESIGN 4.1: "coverage is explicit, never vacuous"): a run that silently judges much less than at claim time fails
    if cmdsA:
        mult = 1 if ck.tier == "quick" else 10
        judged = cov.get("A_oracle_status", {}).get("ok", 0) + cov.get("A_oracle_status", {}).get("deviation", 0)
        floors = [("signatures under the guard of C06_assign_matches_abi", cov.get("A_under_theorem_guard", 0), 2000 * mult),
                  ("signatures judged by the ABI oracle", judged, 4000 * mult),
                  ("emitted shuffles accepted by the verified validator", (stB or {}).get("validated", 0), 2500 * mult)]
        floors += [("assignments on which the full solver model equals the implementation", cov.get("B_solver_full_model", {}).get("same_instruction_list", 0), 1500 * mult),
                   ("assignments on which the one-group solver model equals the implementation", cov.get("B_solver_model", {}).get("same_instruction_list", 0), 1500 * mult)]
        if cov.get("C_invoke", {}).get("calls", 0) or not cov.get("C_invoke", {}).get("not an x86-64 host"):
            floors.append(("host call sites executed", cov.get("C_invoke", {}).get("calls", 0), 500 * mult))
        floors.append(("AArch64 call sites interpreted", cov.get("D_a64_invoke", {}).get("calls", 0), 250 * mult))
        if isinstance(cov.get("clang_oracle"), dict):
            floors.append(("parameters located by clang", cov["clang_oracle"].get("clang_confirms_pyspec", 0), 25 * mult))
        for name, got, need in floors:
            if got < need:
                ck.violation("C06/coverage-floor/" + name.replace(" ", "-"), "coverage floor not met: %s = %d < %d" % (name, got, need),
                             {"broken": "generator / whitelist coverage (harness error, not a verdict about /repo)"}, no_input=True)
    for o in ck.proof_failures():
        ck.violation("C06/proof/" + o["name"], "theorem %s no longer checks (%s)" % (o["name"], getattr(ck, "coq_log", "")[-800:]),
                     {"broken": "theorem " + o["name"], "file": "coq/theories/Properties/Properties_C06.v"}, no_input=True)
    cov["source_tables (translator tie)"] = tables_status
    cov.update({
        "violations_not_listed (beyond 12 per key class)": dict(dropped),
        "evaluations": len(cmdsA) + len(cmdsB) + len(cmdsC),
        "distinct_nontrivial": len(ntA) + len(ntB),
        "rule": "part A: distinct (environment, convention, varargs, return type, argument types) commands from VERIF_SEED (all conventions x environments, every return "
                "type, exhaustive short signatures over 14 type classes, random up to 32 arguments biased to register exhaustion, vectors at positions 16..31); non-trivial = "
                "FuncDetail::init succeeded and the signature has a stack argument or >= 5 arguments.  part B: distinct argument assignments (all permutations of <= 4 (quick) / 6 "
                "(thorough) registers, every integer type pair as self move / register move / stack load / stack store, vector moves SSE/AVX/AVX-512, random incl. stack to stack "
                "and scratch exhaustion); non-trivial = at least one instruction was emitted",
        "example_inputs": samplesA + samplesB,
        "programs": len(cmdsB), "disagreements_checked": cov.get("A_model_vs_impl_disagreements", 0),
        "traces_validated_against_impl": len(cmdsA) + stB.get("validated", 0) if stB else len(cmdsA),
        "unsupported": {"A_unjudged_by_oracle (no ABI table for the pair or non-C types)": cov.get("A_oracle_status", {}).get("unjudged", 0),
                        "B_refused": cov.get("B_refused", {}), "B_unmodelled_instructions": (stB or {}).get("unmodelled", 0)},
    })
    return ck.finish(
        "proof", cov,
        assumptions=["the C++ harness calls the real FuncDetail::init / CallConv accessors / FuncArgsAssignment::update_func_frame / FuncFrame::finalize / "
                     "BaseEmitter::emit_args_assignment of /repo's working tree",
                     "theorems are about the Gallina model (FuncDetailModel.v) and the validator (ShuffleModel.v); the model is tied to the code by the differential run of this check, "
                     "the validator judges the machine code the Assembler produced for each generated assignment (disassembled by llvm-mc)",
                     "Abi.v and tools/c06_abi.py were written by hand from the psABI / Microsoft / AAPCS64 / Apple documents (compared with clang -S on every C-expressible signature drawn for the clang stage of the run: counts under clang_oracle; proved: the model equals Abi.v under the guard, for all signatures; compared: implementation vs model vs python oracle on the generated stream)",
                     "memory cells of the shuffle are treated like registers identified by their start address; validate checks that accessed byte ranges with different starts are disjoint; "
                     "incoming argument area and SP-based destination slots are assumed disjoint (frame layout, C07)",
                     "fixes/C06-win64-oob.patch is modelled as applied; until the coordinator applies it the pinned behaviour is recognised by the oracle and listed as a known finding"],
        checker_cmd="coqc (Coq 8.16.1) -Q coq/theories Verif coq/theories/Properties/Properties_C06.v  [full .vo build of its dependencies]",
        trusted_base=["Coq 8.16.1 kernel incl. vm_compute (no native_compute)", "no axioms: every theorem 'Closed under the global context'",
                      "extraction (ExtrOcamlBasic only) + OCaml 4.13.1 + zarith glue in ml/zconv.ml, ml/c06_driver.ml",
                      "harness/c06_harness.cpp, tools/checks/c06.py, tools/c06_gen.py, tools/c06_abi.py (python ABI oracle), tools/c06_shuffle.py (instruction whitelist with "
                      "its semantics table, simulator), llvm-mc 14 (disassembly), clang 14 (-S ABI oracle)"])

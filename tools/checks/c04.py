"""C04 — Relocated code addresses its absolute targets correctly at any base address.

S2 theorems : coq/theories/Properties/Properties_C04.v (model coq/theories/Reloc/RelocModel.v on top of the C03 label model)
S3 tie      : harness/c03_harness.cpp (shared with C03) assembles generated programs with absolute references on the real x86-64 /
              x86-32 / AArch64 assemblers, lays them out, dumps the relocation entries and images (EX), calls the REAL
              CodeHolder::relocate_to_base(base) (RB) / JitRuntime::_add (JIT) and dumps again; this module turns the dumped
              entries into a relocation problem for the extracted model (coq/extract/Extract_Reloc.v + ml/c04_driver.ml), which must
              predict the error code, every patched word, every rewritten opcode, the address-table contents and the size reduction.
S4 search   : an independent reference evaluator (python) reads the final flattened image (copy_flattened_data / the bytes at the
              pointer returned by the JIT runtime) and computes for every absolute reference the address the CPU would form.
"""
import json
import os
import random

import vlib
from checks import c03

M64 = (1 << 64) - 1
sext = c03.sext

X86_CC_NAMES = 16


# ------------------------------------------------------------------ generator
BASES64 = [0x1000, 0x7FFFF000, 0x80000000, 0xFFFFF000, 0x100000000, (1 << 47) - 0x10000, 1 << 47, (1 << 63) - 0x100000, (1 << 63),
           (1 << 64) - 0x1000000, 0x7F0000000000, 0x555555550000]
BASES32 = [0x1000, 0x400000, 0x7FFFF000, 0x80000000, 0xFFFF0000, 0xF0000000]


class Gen:
    def __init__(self, rng, tier):
        self.rng = rng
        self.tier = tier

    def target64(self, base):
        r = self.rng
        c = r.random()
        if c < 0.25:
            return (base + r.randrange(-1 << 20, 1 << 20)) & M64
        if c < 0.60:   # around the rel32 limit seen from the image start
            return (base + r.choice([1, -1]) * ((1 << 31) + r.randrange(-64, 64))) & M64
        if c < 0.75:
            return r.getrandbits(r.choice([16, 32, 47, 48, 64]))
        return r.choice([0x123456789ABC, 0x7FFFFFFFFFFF, 0xFFFF800000000000, 0x1000, 0xDEADBEEF0000])

    def mem_target(self, arch, base):
        r = self.rng
        if arch == "x86":
            return r.choice([0x1000, 0x7FFFFFF0, 0x80000000, 0xFFFFFFF0, r.getrandbits(32)])
        c = r.random()
        if c < 0.30:
            return (base + r.randrange(-1 << 24, 1 << 24)) & M64                     # reachable RIP-relative
        if c < 0.50:
            return (base + r.choice([1, -1]) * ((1 << 31) + r.randrange(-96, 96))) & M64   # around the rel32 limit
        if c < 0.75:
            return r.choice([0x1000, 0x7FFFFFF0, 0x80000000, 0xFFFFFFF0, M64 - 0xFFF, (1 << 64) - (1 << 31), r.getrandbits(31), r.getrandbits(32)])
        return self.target64(base)

    def mem_op(self, arch, base):
        """an instruction with an ABSOLUTE memory operand: with / without trailing imm8/imm16/imm32, rax forms (moffs), rel/abs hints"""
        r = self.rng
        t = self.mem_target(arch, base)
        hint = r.choice([0, 0, 0, 1, 2]) if arch == "x64" else r.choice([0, 0, 0, 0, 2, 1])
        nreg = 16 if arch == "x64" else 8
        sizes = [1, 2, 4, 8] if arch == "x64" else [1, 2, 4]
        c = r.random()
        if c < 0.18:
            return "R absload %d %d %d %d" % (r.choice([0, 0, r.randrange(nreg)]), r.choice(sizes), t, hint)
        if c < 0.32:
            return "R absstore %d %d %d %d" % (r.choice([0, 0, r.randrange(nreg)]), r.choice(sizes), t, hint)
        if c < 0.42:
            return "R abslea %d %d %d %d" % (r.randrange(nreg), r.choice([4, 8] if arch == "x64" else [4]), t, hint)
        if c < 0.62:
            size = r.choice(sizes)
            return "R absmi %d %d %d %d" % (size, r.randrange(-(1 << (8 * min(size, 4) - 1)), 1 << (8 * min(size, 4) - 1)), t, hint)
        if c < 0.74:
            return "R absaddi8 %d %d %d %d" % (r.choice([2, 4, 8] if arch == "x64" else [2, 4]), r.randrange(-128, 128), t, hint)
        if c < 0.88:
            size = r.choice(sizes)
            return "R abstesti %d %d %d %d" % (size, r.randrange(0, 1 << (8 * min(size, 4) - 1)), t, hint)
        return "R absimuli %d %d %d %d" % (r.randrange(nreg), r.choice([r.randrange(-128, 128), r.randrange(-(1 << 31), 1 << 31)]), t, hint)

    def pair_program(self, arch):
        """the SAME body assembled with the base known at init (K) and without a base + relocate_to_base(base) afterwards (R)"""
        r = self.rng
        base = r.choice(BASES32 if arch == "x86" else BASES64)
        if r.random() < 0.5:
            base = (base + r.randrange(0, 1 << 16) * 16) & (0xFFFFFFFF if arch == "x86" else M64)
        nlab = r.randrange(1, 4)
        body = ["L"] * nlab + (["NS %d" % r.choice([1, 16])] if r.random() < 0.4 else [])
        nsec = 1 + sum(1 for x in body if x.startswith("NS"))
        pool = [self.target64(base) for _ in range(3)]
        bound = set()
        for _ in range(r.randrange(2, 24 if self.tier == "quick" else 40)):
            c = r.random()
            if c < 0.45:
                body.append(self.mem_op(arch, base))
            elif c < 0.65:
                t = r.choice(pool) if arch == "x64" else r.getrandbits(32)
                k = r.random()
                body.append(("R calli %d" % t) if k < 0.45 else ("R jmpi %d" % t) if k < 0.85 else
                            "R jcci %d %d" % (r.randrange(16), (base + r.randrange(0, 1 << 12)) & (M64 if arch == "x64" else 0xFFFFFFFF)))
            elif c < 0.75:
                body.append("EL %d %d" % (r.randrange(nlab), 4 if arch == "x86" else 8))
            elif c < 0.83:
                l = r.randrange(nlab)
                if l not in bound:
                    body.append("B %d" % l); bound.add(l)
            else:
                body.append("D %d %d" % (r.choice([1, 2, 3, 5, 8, 100]), r.getrandbits(24)))
        for l in range(nlab):
            if l not in bound:
                if nsec > 1 and r.random() < 0.5:
                    body.append("S 1")
                body.append("B %d" % l)
        tail = ["F", "EX", "RB %d" % base, "EX", "CF"]
        return ["P %s %d" % (arch, base)] + body + tail, ["P %s" % arch] + body + tail

    def program(self, arch):
        r = self.rng
        known = r.random() < 0.2
        base = r.choice(BASES32 if arch == "x86" else BASES64)
        if r.random() < 0.3:
            base = (base + r.randrange(0, 1 << 16) * 16) & (0xFFFFFFFF if arch == "x86" else M64)
        nlab = r.randrange(1, 6)
        nsec = r.choice([1, 2, 2, 3])
        L = ["P %s%s" % (arch, (" %d" % base) if known else "")] + ["L"] * nlab + ["NS %d" % r.choice([1, 8, 16, 64]) for _ in range(nsec - 1)]
        pool = [self.target64(base) for _ in range(r.randrange(1, 6))]
        if arch == "a64" and r.random() < 0.3:
            # adrp with an absolute target, first instruction of .text (pc = base): AsmJit accepts it when target - pc is a multiple of 4096
            pages = r.choice([r.randrange(-1 << 16, 1 << 16), r.choice([1, -1]) * ((1 << 20) + r.randrange(-3, 3)), 0, 1, -1])
            L.append("R adrpi %d %d" % (r.randrange(31), (base + pages * 4096 + (r.choice([4, 8, 2048]) if r.random() < 0.15 else 0)) & M64))
        tail_done = False
        bound = set()
        cur = 0
        for _ in range(r.randrange(3, 40 if self.tier == "quick" else 60)):
            c = r.random()
            if c < 0.30:
                if cur != 0 and known:
                    continue     # with a base known in advance absolute branches are assembled against .text only (offset 0)
                if arch != "a64" and r.random() < 0.35:
                    L.append(self.mem_op(arch, base))
                elif arch == "x64":
                    t = r.choice(pool) if r.random() < 0.7 else self.target64(base)
                    k = r.random()
                    if k < 0.45:
                        L.append("R calli %d" % t)
                    elif k < 0.9:
                        L.append("R jmpi %d" % t)
                    else:
                        L.append("R jcci %d %d" % (r.randrange(16), (base + r.randrange(0, 1 << 16)) & M64 if r.random() < 0.9 else t))
                elif arch == "x86":
                    t = r.getrandbits(32)
                    L.append(r.choice(["R calli %d", "R jmpi %d"]) % t if r.random() < 0.85 else "R jcci %d %d" % (r.randrange(16), t))
                else:
                    pc_lim = 1 << 27
                    d = r.choice([r.randrange(-1 << 16, 1 << 16) * 4] * 3 + [r.choice([1, -1]) * (pc_lim - 4096 + r.randrange(-8, 0) * 4)] * 3 +
                                 [r.randrange(-1 << 24, 1 << 24) * 4] * 3 + [r.choice([1, -1]) * (pc_lim + r.randrange(-1000, 1000) * 4), r.randrange(-1 << 20, 1 << 20)])
                    t = (base + d) & M64
                    k = r.random()
                    if k < 0.18:
                        # adr / adrp with an absolute target: adr reaches +-1 MiB; adrp is accepted by AsmJit when target - pc is a multiple of 4096
                        L.append("R adri %d %d" % (r.randrange(31), (base + r.choice([r.randrange(-1 << 19, 1 << 19), r.choice([1, -1]) * ((1 << 20) + r.randrange(-8, 8))])) & M64))
                    else:
                        L.append(("R bi %d" % t) if k < 0.5 else ("R bli %d" % t) if k < 0.9 else "R bcondi %d %d" % (r.randrange(14), (base + r.randrange(-1 << 18, 1 << 18) * 4) & M64))
            elif c < 0.45:
                small = base < (1 << 31) - (1 << 20)
                # narrow slots (1/2/4 bytes) also at bases above 4 GiB: the address does not fit and relocation must refuse
                L.append("EL %d %d" % (r.randrange(nlab), r.choice(([4, 8, 8, 0, 2] if small else [8, 8, 8, 8, 0, 0, 0, 4, 2, 1]) if arch != "x86" else [4] * 6 + [0, 0, 2])))
            elif c < 0.55 and arch == "x86":
                disp = r.choice([0, 4, 100, 1 << 20, 8, 16, -4])
                L.append(r.choice(["R movload %d %%d %d" % (r.randrange(8), disp), "R lea %d %%d %d" % (r.randrange(8), disp),
                                   "R movmi %%d %d 4 %d" % (disp, r.randrange(1 << 31))]) % r.randrange(nlab))
            elif c < 0.65:
                L.append("ED %d %d %d" % (r.randrange(nlab), r.randrange(nlab), r.choice([1, 2, 4, 4, 4, 8, 8, 8, 8, 8])))
            elif c < 0.75:
                l = r.randrange(nlab)
                if l not in bound:
                    L.append("B %d" % l); bound.add(l)
            elif c < 0.90:
                n = r.choice([4, 8, 16, 100, 256]) if arch == "a64" else r.choice([1, 3, 8, 100, 127, 300])
                L.append("D %d %d" % (n, r.getrandbits(24)))
            elif c < 0.95 and nsec > 1:
                cur = r.randrange(nsec)
                L.append("S %d" % cur)
            elif not tail_done and r.random() < 0.5:
                # a section that sorts AFTER .addrtab (same order value, created later): the address table is then not the last section
                L.append("NS %d 2147483647" % r.choice([1, 8])); nsec += 1; tail_done = True
        if r.random() < 0.93:
            for l in range(nlab):
                if l not in bound:
                    L.append("B %d" % l)
        if r.random() < 0.5:     # otherwise sections may stay empty (flatten no longer extends empty sections: C10 fix 695208d)
            for k in range(nsec):
                L += ["S %d" % k, "D 4 %d" % r.getrandbits(24)]
        L.append("F")
        jit = arch == "x64" and r.random() < 0.25 and not known
        L.append("EX")
        if jit:
            L += ["JIT"]
        else:
            L += ["RB %d" % base, "EX", "CF"]
        return L

    def programs(self):
        """-> (programs, pairs) where pairs = list of (index of the known-base variant, index of the relocate-afterwards variant)"""
        q = self.tier == "quick"
        out = []
        for arch, n in (("x64", 900 if q else 30000), ("x86", 350 if q else 10000), ("a64", 350 if q else 10000)):
            for _ in range(n):
                out.append(self.program(arch))
        self.rng.shuffle(out)
        pairs = []
        for arch, n in (("x64", 500 if q else 12000), ("x86", 150 if q else 4000)):
            for _ in range(n):
                k, rl = self.pair_program(arch)
                pairs.append((len(out), len(out) + 1))
                out += [k, rl]
        return out, pairs


# ------------------------------------------------------------------ x86 memory-operand decoder (Intel SDM vol. 2, independent of AsmJit)
LEGACY_PREFIXES = (0x66, 0x67, 0xF2, 0xF3, 0x2E, 0x36, 0x3E, 0x26, 0x64, 0x65)


def decode_abs_mem(raw, arch):
    """Decodes one instruction whose memory operand has no base/index register. Returns dict(form, value, hole, vsize, has67, rexw, opcode)
    form: 'rip' (x64 mod=00 rm=101), 'abs' (disp32 without base: x64 via SIB 25h, x86-32 mod=00 rm=101), 'moffs' (A0..A3), or None."""
    i, has67, rexw = 0, False, False
    while i < len(raw) and raw[i] in LEGACY_PREFIXES:
        has67 |= raw[i] == 0x67
        i += 1
    if arch == "x64" and i < len(raw) and 0x40 <= raw[i] <= 0x4F:
        rexw = bool(raw[i] & 8)
        i += 1
    if i >= len(raw):
        return None
    opcode = raw[i]
    i += 1
    if opcode == 0x0F:
        if i >= len(raw):
            return None
        opcode = 0x0F00 | raw[i]
        i += 1
    if 0xA0 <= opcode <= 0xA3:
        n = 4 if (arch == "x86" or has67) else 8
        if i + n != len(raw):
            return None
        return {"form": "moffs", "value": int.from_bytes(raw[i:i + n], "little"), "hole": i, "vsize": n, "has67": has67, "rexw": rexw, "opcode": opcode}
    if i >= len(raw):
        return None
    modrm = raw[i]
    i += 1
    if (modrm & 0xC7) == 0x05:
        form = "rip" if arch == "x64" else "abs"
    elif (modrm & 0xC7) == 0x04 and i < len(raw) and raw[i] == 0x25:
        form = "abs"
        i += 1
    else:
        return None
    if i + 4 > len(raw):
        return None
    return {"form": form, "value": int.from_bytes(raw[i:i + 4], "little"), "hole": i, "vsize": 4, "has67": has67, "rexw": rexw, "opcode": opcode}


def designated_address(dec, arch, end_address):
    """the address the CPU forms for the decoded memory operand; `end_address` = absolute address of the next instruction"""
    if dec["form"] == "rip":
        return (end_address + sext(dec["value"], 32)) & M64
    if dec["form"] == "moffs":
        return dec["value"]
    if arch == "x86" or dec["has67"]:
        return dec["value"]                      # 32-bit effective address (zero-extended in 64-bit mode with 67h)
    return sext(dec["value"], 32) & M64


ABS_ADDR_ARG = {"absload": 4, "absstore": 4, "abslea": 4, "absmi": 4, "absaddi8": 4, "abstesti": 4, "absimuli": 4}


# ------------------------------------------------------------------ trace bookkeeping
class Site:
    __slots__ = ("kind", "sec", "off", "length", "target", "label", "disp", "size", "base_label", "cc", "line", "immediate")


def track(prog, hout):
    """Walks program + harness output; returns dict(sites, pre(dump), post(dump), rb(err, reduction), cf(bytes), jit, offs, base, arch, known_base, problems)."""
    t0 = prog[0].split()
    arch = t0[1]
    info = {"arch": arch, "known": int(t0[2]) if len(t0) > 2 else None, "sites": [], "pre": None, "post": None, "rb": None, "cf": None,
            "jit": None, "offs": None, "base": None, "problems": [], "pre_line": None, "post_line": None}
    cur = 0
    sizes = {0: 0}
    user = [0]          # creation index -> section id (ids shift once .addrtab has been created)
    labels = []
    for inp, out in zip(prog[1:], hout[1:]):
        t = inp.split(); h = out.split()
        tag = t[0]
        if h[0] == "BAD":
            info["problems"].append(("C04/harness-protocol", "harness answered BAD to %r" % inp)); break
        if tag == "F":
            info["offs"] = [int(x) for x in h[4].split(",")]
            if h[1] != "ok" or h[2] != "ok":
                info["problems"].append(("C04/layout-error", "flatten/resolve returned %s %s" % (h[1], h[2])))
            continue
        if tag == "EX":
            d = c03.parse_dump(out, True)
            d["line"] = out
            if info["pre"] is None:
                info["pre"] = d
            else:
                info["post"] = d
            continue
        if tag == "RB":
            info["rb"] = (h[1], int(h[2]), int(h[3])); info["base"] = int(t[1]); continue
        if tag == "CF":
            info["cf"] = bytes.fromhex(h[3]) if (h[1] == "ok" and len(h) > 3 and h[3] != "-") else None
            continue
        if tag == "JIT":
            info["jit"] = (h[1], int(h[2]), int(h[3]), bytes.fromhex(h[4]) if h[4] != "-" else b"")
            info["base"] = int(h[2])
            continue
        err, emitted = h[1], h[5]
        before = sizes[cur]
        data = bytes.fromhex(emitted) if emitted not in ("-",) and emitted[0] not in "Z#" else b""
        n = int(emitted[1:]) if emitted.startswith("Z") else len(data)
        if tag == "L":
            labels.append(None)
        elif tag == "NS":
            if emitted.startswith("#"):
                user.append(int(emitted[1:])); sizes[int(emitted[1:])] = 0
        elif tag == "S":
            if 0 <= int(t[1]) < len(user):
                cur = user[int(t[1])]
            continue
        elif tag == "B":
            l = int(t[1])
            if 0 <= l < len(labels) and labels[l] is None:
                labels[l] = (cur, before)
        elif tag == "EL" and err == "ok":
            s = Site(); s.kind = "abs"; s.sec = cur; s.off = before; s.size = n; s.label = int(t[1]); s.disp = 0; s.line = inp
            info["sites"].append(s)
        elif tag == "ED" and err == "ok":
            l, b = int(t[1]), int(t[2])
            s = Site(); s.kind = "delta"; s.sec = cur; s.off = before; s.size = n; s.label = l; s.base_label = b; s.line = inp
            s.immediate = (labels[l] is not None and labels[b] is not None and labels[l][0] == labels[b][0])
            info["sites"].append(s)
        elif tag == "R" and err == "ok":
            ins = t[1]
            if ins in ("calli", "jmpi", "jcci", "bi", "bli", "bcondi", "adri", "adrpi"):
                s = Site(); s.kind = ins; s.sec = cur; s.off = before; s.length = n; s.target = int(t[-1]); s.line = inp
                info["sites"].append(s)
            elif ins in ABS_ADDR_ARG:
                s = Site(); s.kind = "mem"; s.sec = cur; s.off = before; s.length = n; s.target = int(t[4]); s.disp = int(t[5]); s.line = inp
                info["sites"].append(s)
            elif arch == "x86" and ins in ("movload", "lea", "movmi", "addmi8"):
                imm = c03.mem_imm_size(t)
                s = Site(); s.kind = "abs"; s.sec = cur; s.off = before + n - 4 - imm; s.size = 4; s.label = int(t[c03.X86_LABEL_ARG[ins]]); s.length = before
                s.disp = int(t[c03.X86_LABEL_ARG[ins] + 1]); s.line = inp
                info["sites"].append(s)
        elif tag == "R" and err != "ok":
            ins = t[1]
            justified = False
            if ins in ABS_ADDR_ARG:
                justified = abs_mem_error_justified(arch, t, err, info["known"], before)
                info["refused"] = info.get("refused", 0) + 1
            elif info["known"] is not None and err == "invalid_disp" and ins in ("jcci", "bi", "bli", "bcondi", "adri", "adrpi"):
                # base known in advance: an unreachable conditional branch / a64 branch is refused at assembly time
                tgt = int(t[-1])
                if ins == "jcci":
                    dsp = sext(tgt - (info["known"] + before + 6), 64)
                    justified = arch == "x64" and not -(1 << 31) <= dsp < (1 << 31)
                elif ins in ("adri", "adrpi"):
                    pc = info["known"] + before
                    dsp = sext(tgt - pc, 64)
                    # base known: EmitOp_Rel encodes target - Page(pc) for ADRP (needs a page-aligned target), target - pc for ADR
                    dpg = sext(tgt - (pc & ~0xFFF), 64)
                    justified = (not -(1 << 20) <= dsp < (1 << 20)) if ins == "adri" else (bool(dpg % 4096) or not -(1 << 32) <= dpg < (1 << 32))
                else:
                    dsp = sext(tgt - (info["known"] + before), 64)
                    bits = 19 if ins == "bcondi" else 26
                    justified = bool(dsp % 4) or not -(1 << (bits + 1)) <= dsp < (1 << (bits + 1))
            if not justified:
                info["problems"].append(("C04/assemble-error", "%s returned %s" % (inp, err)))
        sizes[cur] = before + n
    info["labels"] = labels
    return info


def abs_mem_error_justified(arch, t, err, known, before):
    """an instruction with an absolute memory operand was refused when assembling: only right when no encoding designates the address"""
    ins, addr, hint = t[1], int(t[4]), int(t[5])
    if arch == "x86":
        return hint == 1 and err == "invalid_addr"            # no relative addressing in 32-bit mode
    abs32_ok = addr < (1 << 32) or addr >= (1 << 64) - (1 << 31)
    moffs_ok = ins in ("absload", "absstore") and (int(t[2]) & 15) == 0 and hint != 1
    unreachable = None
    if known is not None:
        d = sext(addr - (known + before), 64)
        unreachable = not -(1 << 31) + 32 <= d < (1 << 31)    # the (unknown) length of the refused instruction is at most 15 bytes
    if hint == 1:                                             # explicitly relative: refused only when the known base makes it unreachable
        return bool(unreachable) and err == "invalid_addr"
    if moffs_ok and not abs32_ok and hint == 0 and known is not None:
        # x86_should_use_movabs decides with the size of the moffs form, EmitModSib re-checks with the size of the ModRM form: within a
        # few bytes of the +-2^31 limit the instruction is refused although the moffs form exists (a refusal, never a wrong target)
        d = sext(addr - (known + before), 64)
        return abs(abs(d) - (1 << 31)) <= 32 and err == "invalid_addr64"
    if abs32_ok or moffs_ok:
        return False
    if hint == 2:
        return err == "invalid_addr64"
    return bool(unreachable) and err in ("invalid_addr", "invalid_addr64")


# ------------------------------------------------------------------ relocation problem for the model
def build_problem(info, base):
    """-> (line for the model driver, entries meta) from the pre-relocation extended dump"""
    d = info["pre"]
    arch = info["arch"]
    asize = 4 if arch == "x86" else 8
    offs = d["offs"]
    parts = d["line"].split(" | ")
    at = [p for p in parts if p.startswith("AT ")][0].split()
    order = [int(x) for x in [p for p in parts if p.startswith("ORDER")][0].split()[1:]]
    at_sec = None if at[1] == "-" else int(at[1])
    reserved = int(at[2]); last = int(at[3])
    atoff = offs[at_sec] if at_sec is not None else 0
    images = {k: c03.Image(v[0], v[1]) for k, v in d["raw_segs"].items()}
    labs = {}
    for l, st in d["labs"].items():
        labs[l] = None if st == "u" else (int(st.split(":")[0]), int(st.split(":")[1]))
    ents, meta = [], []
    for r in d["rels"]:
        rid, ty, ssec, soff, voff, vsize, region, payload, target, ftype, fbits, fshift, fdisc = r
        ty = int(ty); ssec = int(ssec); soff = int(soff); voff = int(voff); vsize = int(vsize); region = int(region)
        old = int.from_bytes(images[ssec].read(soff + voff, vsize) or b"\0", "little")
        if ty == 1:
            _, op, l0, l1 = payload.split(":")
            def pos(l):
                st = labs.get(int(l))
                return "-" if st is None else str(offs[st[0]] + st[1])
            kind = "X:%s:%s" % (pos(l0), pos(l1)); pl = "0"
            if op != "1":
                kind = "X:-:-"
        elif ty == 3:
            kind = "A"; pl = payload
        elif ty == 4:
            kind = "T:%s" % ("-" if target == "-" else offs[int(target)]); pl = payload
        elif ty == 5:
            kind = "R"; pl = payload
        elif ty == 6:
            opc = images[ssec].read(soff + voff - 1, 1)
            kind = "E:%d" % (opc[0] if opc else 0); pl = payload
        else:
            kind = "A"; pl = payload
        ents.append("%s %d %d %d %d %s,%d,%s,%s,%s %s %d" % (kind, offs[ssec], soff, voff, region, ftype, vsize, fbits, fshift, fdisc, pl, old))
        meta.append((ssec, soff, voff, vsize))
    line = "RELOC %d %d %d %d %d | %s" % (base, asize, atoff, reserved, last, " | ".join(ents)) if ents else \
           "RELOC %d %d %d %d %d" % (base, asize, atoff, reserved, last)
    return line, meta, at_sec, reserved, last, order


def known_queries(info):
    """base known at init: every relative field the assembler emitted at once (no relocation entry at that instruction) must be the
    model's known_rel32.  Returns list of (model line, expected answer, description)."""
    if info["known"] is None or info["pre"] is None or info["arch"] == "a64":
        return []
    d = info["pre"]
    arch = info["arch"]
    abits = 32 if arch == "x86" else 64
    reloc_at = set((int(r[2]), int(r[3])) for r in d["rels"])
    images = {k: c03.Image(v[0], v[1]) for k, v in d["raw_segs"].items()}
    out = []
    for s in info["sites"]:
        if s.kind not in ("calli", "jmpi", "jcci", "mem") or (s.sec, s.off) in reloc_at or s.sec not in images:
            continue
        raw = images[s.sec].read(s.off, s.length)
        if raw is None:
            continue
        if s.kind == "mem":
            dec = decode_abs_mem(raw, arch)
            if dec is None or dec["form"] != "rip":
                continue
            field = dec["value"]
        else:
            body = raw
            if len(body) >= 5 and body[-5] in (0xE8, 0xE9) or (len(body) == 6 and body[0] == 0x0F):
                field = int.from_bytes(body[-4:], "little")
            else:
                continue                                       # short form
        nxt = d["offs"][s.sec] + s.off + s.length
        out.append(("KNOWN %d %d %d %d" % (abits, info["known"], nxt, s.target), str(field), s.line))
    return out


def apply_model(info, answer, meta, at_sec):
    """applies the model's patches to the pre-relocation images; returns {sec: bytearray} (gaps as zeros)"""
    d = info["pre"]
    imgs = {}
    for k, (segs, size) in d["raw_segs"].items():
        im = c03.Image(segs, size)
        imgs[k] = bytearray(im.read(0, size) or b"") if size else bytearray()
    parts = answer.split(" | ")
    head = parts[0].split()
    table = [] if head[3] == "-" else [int(x) for x in head[3].split(",")]
    for (ssec, soff, voff, vsize), p in zip(meta, parts[1:]):
        w, rw, slot = p.split()
        imgs[ssec][soff + voff:soff + voff + vsize] = (int(w) & ((1 << (8 * vsize)) - 1)).to_bytes(vsize, "little")
        if rw != "-":
            b0, b1 = rw.split(":")
            imgs[ssec][soff + voff - 2] = int(b0); imgs[ssec][soff + voff - 1] = int(b1)
    if at_sec is not None:
        asize = 4 if info["arch"] == "x86" else 8
        imgs[at_sec] = bytearray(b"".join(t.to_bytes(8, "little") for t in table))
    return imgs, int(head[1]), int(head[2]), table


# ------------------------------------------------------------------ reference evaluator (independent oracle)
def evaluate(info, image, base, stats):
    """image: the flattened bytes placed at `base`. Returns list of (key, what). Also returns whether every site is representable."""
    arch = info["arch"]
    offs = info["offs"]
    labels = info["labels"]
    probs = []
    abits = 32 if arch == "x86" else 64
    amask = (1 << abits) - 1
    at_range = None
    d = info["post"] or info["pre"]

    def rd(pos, n):
        return image[pos:pos + n] if 0 <= pos and pos + n <= len(image) else None

    designated = info.setdefault("designated", {})
    mean = info.setdefault("mean_q", [])     # (query for C01's proven decoder via the model driver, expected address, description)
    mode = "32" if arch == "x86" else "64"
    for idx, s in enumerate(info["sites"]):
        pos = offs[s.sec] + s.off
        stats["sites"] += 1
        stats["kind:" + s.kind] = stats.get("kind:" + s.kind, 0) + 1
        if s.kind == "mem":
            raw = rd(pos, s.length)
            dec = decode_abs_mem(raw, arch) if raw is not None else None
            if dec is None:
                probs.append(("C04/abs-mem-bytes/%s" % arch, "%s at %d:%d: bytes %s are not an instruction with an absolute memory operand"
                              % (s.line, s.sec, s.off, None if raw is None else raw.hex())))
                continue
            got = designated_address(dec, arch, base + pos + s.length)
            if dec["form"] == "moffs":
                mean.append(("MEAN %s moffs 0 %d %d %s" % (mode, dec["vsize"], base + pos, raw.hex()), got, s.line))
            else:
                mean.append(("MEAN %s mem 1 %d %d %s" % (mode, s.length - dec["hole"] - 4, base + pos, raw.hex()), got, s.line))
            mask = 0xFFFFFFFF if (arch == "x86" or (dec["opcode"] == 0x8D and not dec["rexw"] and dec["form"] != "rip")) else M64
            stats["mem:" + dec["form"]] = stats.get("mem:" + dec["form"], 0) + 1
            designated[idx] = got & mask
            if (got & mask) != (s.target & mask):
                probs.append(("C04/abs-mem-target/%s" % arch, "%s at %d:%d: bytes %s at address %#x address %#x (%s form), the requested absolute address is %#x"
                              % (s.line, s.sec, s.off, raw.hex(), base + pos, got, dec["form"], s.target)))
            else:
                stats["exact"] += 1
            continue
        if s.kind == "abs":
            lab = labels[s.label]
            if lab is None:
                continue
            if arch == "x86" and s.line.startswith("R "):
                # [label + disp] operand: find the instruction start (recorded by track) and let the proven decoder read the operand
                ins_raw = rd(offs[s.sec] + s.length, s.off + 4 + c03.mem_imm_size(s.line.split()) - s.length)
                if ins_raw:
                    mean.append(("MEAN 32 mem 1 %d %d %s" % (c03.mem_imm_size(s.line.split()), base + offs[s.sec] + s.length, ins_raw.hex()),
                                 (base + offs[lab[0]] + lab[1] + s.disp) & 0xFFFFFFFF, s.line))
            raw = rd(pos, s.size)
            want = base + offs[lab[0]] + lab[1] + s.disp
            got = int.from_bytes(raw, "little") if raw is not None else None
            if got != want or want >> (8 * s.size) or want < 0:
                probs.append(("C04/abs-address/%s" % arch, "%s at %d:%d: stored %s, the label is at %d:%d so the address is base+%d+%d%+d = %#x"
                              % (s.line, s.sec, s.off, None if got is None else hex(got), lab[0], lab[1], offs[lab[0]], lab[1], s.disp, want)))
            else:
                stats["exact"] += 1
        elif s.kind == "delta":
            if s.immediate:
                continue
            la, lb = labels[s.label], labels[s.base_label]
            if la is None or lb is None:
                continue
            want = (offs[la[0]] + la[1]) - (offs[lb[0]] + lb[1])
            raw = rd(pos, s.size)
            got = sext(int.from_bytes(raw, "little"), 8 * s.size) if raw is not None else None
            if got != want:
                probs.append(("C04/delta-expression/%s" % arch, "%s at %d:%d: stored %s, label positions differ by %d" % (s.line, s.sec, s.off, got, want)))
            else:
                stats["exact"] += 1
        elif s.kind in ("calli", "jmpi", "jcci"):
            raw = rd(pos, s.length)
            if raw is None:
                probs.append(("C04/site-outside-image", "%s at %d:%d" % (s.line, s.sec, s.off))); continue
            body = raw[1:] if (arch == "x64" and raw[0] == 0x40 and s.kind != "jcci") else raw
            end = base + pos + s.length
            ok = False
            if len(body) == 2 and ((s.kind == "jmpi" and body[0] == 0xEB) or (s.kind == "jcci" and (body[0] & 0xF0) == 0x70)):
                ok = ((end + sext(body[1], 8)) & amask) == (s.target & amask)      # short form (base known when assembling)
                mean.append(("MEAN %s branch8 0 1 %d %s" % (mode, base + pos, raw.hex()), (end + sext(body[1], 8)) & amask, s.line))
            elif s.kind == "jcci":
                if len(body) == 6 and body[0] == 0x0F and (body[1] & 0xF0) == 0x80:
                    ok = ((end + sext(int.from_bytes(body[2:6], "little"), 32)) & amask) == (s.target & amask)
                    mean.append(("MEAN %s branch 0 4 %d %s" % (mode, base + pos, raw.hex()), (end + sext(int.from_bytes(body[2:6], "little"), 32)) & amask, s.line))
            else:
                direct = 0xE8 if s.kind == "calli" else 0xE9
                modrm = 0x15 if s.kind == "calli" else 0x25
                if len(body) == 5 and body[0] == direct:
                    ok = ((end + sext(int.from_bytes(body[1:5], "little"), 32)) & amask) == (s.target & amask)
                    stats["direct"] += 1
                    mean.append(("MEAN %s branch 0 4 %d %s" % (mode, base + pos, raw.hex()), (end + sext(int.from_bytes(body[1:5], "little"), 32)) & amask, s.line))
                elif arch == "x64" and len(raw) == 6 and raw[0] == 0xFF and raw[1] == modrm:
                    slot = end + sext(int.from_bytes(raw[2:6], "little"), 32) - base
                    mean.append(("MEAN 64 mem 1 0 %d %s" % (base + pos, raw.hex()), (base + slot) & M64, s.line))
                    cell = rd(slot, 8)
                    stats["via_table"] += 1
                    ok = cell is not None and int.from_bytes(cell, "little") == s.target and at_in_table(d, offs, slot)
                    if not ok:
                        probs.append(("C04/address-table-slot/%s" % arch,
                                      "%s at %d:%d was rewritten to go through the slot at image offset %d which holds %s, the target is %#x"
                                      % (s.line, s.sec, s.off, slot, None if cell is None else hex(int.from_bytes(cell, "little")), s.target)))
                        continue
            if not ok:
                probs.append(("C04/branch-target/%s" % arch, "%s at %d:%d: bytes %s at address %#x do not reach %#x" % (s.line, s.sec, s.off, raw.hex(), base + pos, s.target)))
            else:
                stats["exact"] += 1
        elif s.kind in ("adri", "adrpi"):
            raw = rd(pos, 4)
            w = int.from_bytes(raw, "little")
            imm = sext((((w >> 5) & 0x7FFFF) << 2) | ((w >> 29) & 3), 21)
            pc = base + pos
            if s.kind == "adri":
                got, want = (pc + imm) & M64, s.target
            else:   # ADRP: Page(pc) + imm * 4096 must be the page of the target
                got, want = ((pc & ~0xFFF) + (imm << 12)) & M64, s.target & ~0xFFF
            mean.append(("A64 %d %d" % (pc, w), got, s.line))
            if got != want:
                probs.append(("C04/adr-target/a64", "%s at %d:%d: word %#x at address %#x yields %#x, not %#x" % (s.line, s.sec, s.off, w, pc, got, want)))
            else:
                stats["exact"] += 1
        elif s.kind in ("bi", "bli", "bcondi"):
            raw = rd(pos, 4)
            w = int.from_bytes(raw, "little")
            kind = "imm19" if s.kind == "bcondi" else "imm26"
            got = (base + pos + c03.decode_field(kind, w)) & M64
            mean.append(("A64 %d %d" % (base + pos, w), got, s.line))
            if got != s.target:
                probs.append(("C04/branch-target/a64", "%s at %d:%d: word %#x at address %#x branches to %#x, not %#x" % (s.line, s.sec, s.off, w, base + pos, got, s.target)))
            else:
                stats["exact"] += 1
    return probs


def at_in_table(d, offs, slot):
    parts = d["line"].split(" | ")
    at = [p for p in parts if p.startswith("AT ")][0].split()
    if at[1] == "-":
        return False
    k = int(at[1])
    return offs[k] <= slot and slot + 8 <= offs[k] + int(at[2]) and (slot - offs[k]) % 8 == 0


def expected_error(info, base):
    """independent decision: can every absolute reference be represented at this base?  Returns None or a reason."""
    arch = info["arch"]; offs = info["offs"]; labels = info["labels"]
    reloc_at = set((int(r[2]), int(r[3])) for r in info["pre"]["rels"]) if info["pre"] else set()
    for s in info["sites"]:
        pos = offs[s.sec] + s.off
        if s.kind == "abs":
            lab = labels[s.label]
            if lab is None:
                return "%s: label not bound" % s.line
            v = base + offs[lab[0]] + lab[1] + s.disp
            if v < 0 or v >> (8 * s.size):
                if arch != "x86" and v >> 64 and not ((v & M64) >> (8 * s.size)):
                    continue     # 64-bit wrap-around of the address space
                return "%s: address %#x does not fit %d bytes" % (s.line, v, s.size)
        elif s.kind == "delta" and not s.immediate:
            la, lb = labels[s.label], labels[s.base_label]
            if la is None or lb is None:
                return "%s: label not bound" % s.line
            dlt = (offs[la[0]] + la[1]) - (offs[lb[0]] + lb[1])
            if not -(1 << (8 * s.size - 1)) <= dlt < (1 << (8 * s.size - 1)):
                return "%s: delta %d does not fit" % (s.line, dlt)
        elif s.kind == "mem" and arch == "x64" and (s.sec, s.off) in reloc_at:
            dsp = sext(s.target - (base + pos + s.length), 64)
            if not -(1 << 31) <= dsp < (1 << 31):
                return "%s: absolute address out of RIP-relative range" % s.line
        elif s.kind == "jcci" and arch == "x64" and info["known"] is None:
            dsp = sext(s.target - (base + pos + s.length), 64)
            if not -(1 << 31) <= dsp < (1 << 31):
                return "%s: target out of rel32 range" % s.line
        elif s.kind == "adri" and info["known"] is None:
            dsp = sext(s.target - (base + pos), 64)
            if not -(1 << 20) <= dsp < (1 << 20):
                return "%s: target not reachable by adr (displacement %d)" % (s.line, dsp)
        elif s.kind == "adrpi" and info["known"] is None:
            dsp = sext(s.target - (base + pos), 64)
            # AsmJit encodes target - pc and accepts it only as a multiple of 4096 (a refusal otherwise; EmitOp_Rel carries a TODO for ADRP)
            # ... and relocate_to_base limits every AbsToRel value to int32 in 64-bit mode, so +-2 GiB instead of the architectural +-4 GiB
            if dsp % 4096 or not -(1 << 31) <= dsp < (1 << 31):
                return "%s: target - pc = %d is not a multiple of 4096 within +-2 GiB" % (s.line, dsp)
        elif s.kind in ("bi", "bli", "bcondi") and info["known"] is None:
            dsp = sext(s.target - (base + pos), 64)
            bits = 19 if s.kind == "bcondi" else 26
            if dsp % 4 or not -(1 << (bits + 1)) <= dsp < (1 << (bits + 1)):
                return "%s: target not reachable (displacement %d)" % (s.line, dsp)
    return None


# ------------------------------------------------------------------ running
def check_programs(ck, impl, model, programs):
    houts = c03.run_sharded(impl, programs)
    stats = {k: 0 for k in ("sites", "exact", "direct", "via_table", "errors_expected", "jit", "at_not_last", "relocs", "programs_ok")}
    infos, problems_lines = [], []
    for prog, hout in zip(programs, houts):
        if hout is None:
            infos.append(None); problems_lines.append(["RELOC 0 8 0 0 0"]); continue
        info = track(prog, hout)
        infos.append(info)
        if info["pre"] is None or info["base"] is None or info["offs"] is None:
            problems_lines.append(["RELOC 0 8 0 0 0"]); continue
        line, meta, at_sec, reserved, last, order = build_problem(info, info["base"])
        info["problem"] = (line, meta, at_sec, reserved, last, order)
        info["known_q"] = known_queries(info)
        problems_lines.append([line] + [q[0] for q in info["known_q"]])
    mouts = c03.run_sharded(model, problems_lines)
    results = []
    for prog, hout, info, mout in zip(programs, houts, infos, mouts):
        res = {"prog": prog, "diffs": [], "problems": [], "hout": hout, "info": info}
        results.append(res)
        if info is None:
            res["problems"].append(("C04/harness-crash", "the harness crashed or hung on this program")); continue
        res["problems"] += info["problems"]
        if "problem" not in info:
            continue
        line, meta, at_sec, reserved, last, order = info["problem"]
        stats["relocs"] += len(meta)
        if at_sec is not None and not last:
            stats["at_not_last"] += 1
        base = info["base"]
        answer = mout[0] if mout else "BAD"
        for (q, want, what), got in zip(info.get("known_q", []), (mout or [])[1:]):
            stats["known_fields"] = stats.get("known_fields", 0) + 1
            if got != want:
                res["diffs"].append("%s: field emitted with the base known at init is %s, model known_rel32 says %s (%s)" % (what, want, got, q))
        want_err = expected_error(info, base)
        if want_err:
            stats["errors_expected"] += 1
        if info["jit"] is not None:
            stats["jit"] += 1
            jerr, addr, n, image = info["jit"]
            if jerr != "ok":
                # relocation at the real mmap address failed: the model must fail the same way at that... the address is unknown on failure;
                # judge with the oracle only: an error needs an unrepresentable site at SOME address, which x86-64 programs here do not have
                empty = all(v[0] == 0 for v in info["pre"]["secs"].values())      # nothing was assembled: kNoCodeGenerated is the right answer
                if not empty and not any(s.kind in ("jcci", "abs", "delta", "mem") for s in info["sites"]):
                    res["problems"].append(("C04/jit-spurious-error", "JitRuntime::_add returned %s" % jerr))
                continue
            if answer.startswith("OK"):
                imgs, reduction, tsize, table = apply_model(info, answer, meta, at_sec)
                flat = flatten(info, imgs, n)
                if flat != image:
                    i = next((k for k in range(min(len(flat), len(image))) if flat[k] != image[k]), min(len(flat), len(image)))
                    res["diffs"].append("installed image differs from the model's relocated image at offset %d (impl %s model %s; sizes %d/%d)"
                                        % (i, image[i:i + 8].hex(), flat[i:i + 8].hex(), len(image), len(flat)))
            else:
                res["diffs"].append("JIT succeeded, model says %s" % answer)
            res["problems"] += evaluate(info, image, addr, stats)
            # installed-image theorems per site kind (C04_installed_call_site / _abs_entry / _expr_site): how many installed sites of each kind
            for s_ in info["sites"]:
                stats["jit_installed:" + s_.kind] = stats.get("jit_installed:" + s_.kind, 0) + 1
            if want_err:
                res["problems"].append(("C04/unreachable-not-reported", "JitRuntime::_add returned ok although %s" % want_err))
            continue
        if info["rb"] is None:
            continue
        rerr, rred, csize = info["rb"]
        if answer.startswith("ERR"):
            if rerr != answer.split()[1]:
                res["diffs"].append("relocate_to_base returned %s, model %s" % (rerr, answer))
        elif answer.startswith("OK"):
            if rerr != "ok":
                res["diffs"].append("relocate_to_base returned %s, model OK" % rerr)
            else:
                imgs, reduction, tsize, table = apply_model(info, answer, meta, at_sec)
                post = info["post"]
                for k, (segs, size) in post["raw_segs"].items():
                    got = c03.Image(segs, size).read(0, size) if size else b""
                    if bytes(imgs.get(k, b"")) != got:
                        a, b = got, bytes(imgs.get(k, b""))
                        i = next((j for j in range(min(len(a), len(b))) if a[j] != b[j]), min(len(a), len(b)))
                        res["diffs"].append("section %d after relocation: impl %s.. model %s.. at +%d (sizes %d/%d)" % (k, a[i:i + 8].hex(), b[i:i + 8].hex(), i, len(a), len(b)))
                if reduction != rred:
                    res["diffs"].append("code size reduction impl %d model %d" % (rred, reduction))
        else:
            res["diffs"].append("model driver: %s" % answer[:200])
        # oracle
        if rerr == "ok":
            stats["programs_ok"] += 1
            if want_err:
                res["problems"].append(("C04/unreachable-not-reported", "relocate_to_base(%#x) returned ok although %s" % (base, want_err)))
            if info["cf"] is not None:
                res["problems"] += evaluate(info, info["cf"], base, stats)
                # size accounting: the table keeps exactly the slots that were needed
                far = set()
                for s in info["sites"]:
                    if s.kind in ("calli", "jmpi") and info["arch"] == "x64":
                        pos = info["offs"][s.sec] + s.off
                        raw = info["cf"][pos:pos + 2]
                        if raw[:1] == b"\xff":
                            far.add(s.target)
                if at_sec is not None:
                    want_red = reserved - 8 * len(far) if last else 0
                    if rred != want_red:
                        res["problems"].append(("C04/size-reduction", "code_size_reduction = %d, reserved %d, %d distinct targets went through the table, table %s"
                                                % (rred, reserved, len(far), "last" if last else "not last")))
        else:
            if not want_err:
                res["problems"].append(("C04/spurious-relocation-error", "relocate_to_base(%#x) returned %s although every absolute reference is representable"
                                        % (base, rerr)))
    # run-time meaning through C01's proven decoder: every x86 site the evaluator decoded must get the same address from the model's site_target
    qblocks = [[q[0] for q in (r["info"] or {}).get("mean_q", [])] if r.get("info") else [] for r in results]
    qouts = c03.run_sharded(model, [b or ["RELOC 0 8 0 0 0"] for b in qblocks])
    for r, blk, outs in zip(results, qblocks, qouts):
        if not blk:
            continue
        for (q, want, what), got in zip(r["info"]["mean_q"], outs or []):
            stats["decoded_by_c01"] = stats.get("decoded_by_c01", 0) + 1
            if got != str(want):
                r["diffs"].append("%s: C01's proven decoder reads the site as designating %s, the evaluator's decoder %#x (%s)" % (what, got, want, q[:120]))
    return results, stats


def flatten(info, imgs, n):
    out = bytearray(n)
    for k, b in imgs.items():
        o = info["offs"][k]
        out[o:o + len(b)] = b[:max(0, n - o)]
    return bytes(out[:n])


PROBE_715 = ["P x64", "R calli 20015998343868", "D 1 1", "NS 1 2147483647", "S 1", "D 8 2", "S 0", "F", "EX", "RB 139637976727552", "EX", "CF"]


def run(ck):
    rng = random.Random(ck.seed)
    obl = ck.coq_properties()
    ck.log("theorems: %d, failed: %d" % (len(obl), len([o for o in obl if not o["ok"]])))
    impl = ck.build_harness("c03", ["c03_harness.cpp"])
    model = ck.ocaml_model("Extract_Reloc.v", ["zconv.ml", "c04_driver.ml"], name="c04")

    if ck.replay:
        rp = json.load(open(ck.replay))
        prog = rp["replay"]["program"]
        results, stats = check_programs(ck, impl, model, [prog])
        for a, b in zip(prog, results[0]["hout"] or []):
            print("impl :", a, "->", b[:400])
        info = track(prog, results[0]["hout"])
        if info["pre"] and info["base"] is not None:
            line = build_problem(info, info["base"])[0]
            print("model:", line[:600]); print("   ->", c03.run_lines(model, [line])[1])
        print("diffs:", results[0]["diffs"]); print("oracle:", results[0]["problems"])
        return 0

    programs, pairs = Gen(rng, ck.tier).programs()
    # DESIGN 7.15 probe: address table followed by another section
    res, st = check_programs(ck, impl, model, [PROBE_715])
    fixed715 = not res[0]["problems"] and not res[0]["diffs"]
    if not fixed715:
        what = (res[0]["problems"] or [("", "; ".join(res[0]["diffs"]))])[0][1]
        ck.violation("C04/addrtab-not-last-dropped", "the address table contents are dropped when .addrtab is not the last section (DESIGN 7.15, "
                     "fixes/C04-addrtab-size.patch not applied): %s" % what, {"program": PROBE_715, "arch": "x64"})
        programs = [[l for l in p if not l.endswith(" 2147483647")] for p in programs]
        ck.notes.append("tree without the 7.15 fix: sections ordered after .addrtab were removed from the generated programs")
    nlines = sum(len(p) for p in programs)
    ck.log("programs: %d (%d operations)" % (len(programs), nlines))
    results, stats = check_programs(ck, impl, model, programs)
    ck.log("ran: %s" % stats)
    # base known at init vs. base assigned at relocation: the same body must designate the same targets
    npairs = 0
    for (ik, ir) in pairs:
        a, b = results[ik]["info"], results[ir]["info"]
        if not a or not b or a.get("rb") is None or b.get("rb") is None or a["rb"][0] != "ok" or b["rb"][0] != "ok":
            continue
        if len(a["sites"]) != len(b["sites"]):
            continue     # an instruction was refused in one variant only (reported error): nothing to compare
        npairs += 1
        da, db = a.get("designated", {}), b.get("designated", {})
        for idx in sorted(set(da) & set(db)):
            if da[idx] != db[idx]:
                results[ik]["problems"].append(("C04/known-base-disagrees/%s" % a["arch"],
                                                "%s designates %#x when assembled with base %#x known at init, %#x when relocated to that base afterwards "
                                                "(requested %#x)" % (a["sites"][idx].line, da[idx], a["base"], db[idx], a["sites"][idx].target)))
                break
    stats["pairs_compared"] = npairs
    disagreements, nontrivial = 0, 0
    shrunk = set()

    def minimal(res, key, pred):
        """the program of the FIRST report of a key is reduced (operation removal, same key must still be reported) so that the replay is small;
        pair reports (known base vs relocated later) involve two programs and are left as they are"""
        if key in shrunk or len(shrunk) >= 4 or key.startswith("C04/known-base-disagrees") or ck.match_finding(key) or any(v["key"] == key for v in ck.violations):
            return res["prog"], None
        shrunk.add(key)
        return c03.shrink_program(ck, impl, model, res["prog"], pred, runner=check_programs), len(res["prog"])

    for res in results:
        if any(l.startswith(("R calli", "R jmpi", "R jcci", "R bi", "R bli", "R bcondi", "R adr", "EL", "ED", "R mov", "R lea", "R abs")) for l in res["prog"]):
            nontrivial += 1
        for (key, what) in res["problems"]:
            prog, orig = minimal(res, key, lambda r, key=key: any(k == key for k, _ in r["problems"]))
            inp = {"program": prog, "arch": res["prog"][0].split()[1]}
            if orig is not None:
                inp["reduced_from_operations"] = orig
            ck.violation(key, what, inp)
        if res["diffs"]:
            disagreements += 1
            if not [p for p in res["problems"] if not ck.match_finding(p[0])]:
                prog, orig = minimal(res, "C04/correspondence", lambda r: bool(r["diffs"]) and not [p for p in r["problems"] if not ck.match_finding(p[0])])
                ck.violation("C04/correspondence", "implementation and proven model disagree (%s); the reference evaluator found no wrong target in this program"
                             % "; ".join(res["diffs"][:3]),
                             {"program": prog, "reduced_from_operations": orig, "broken": "correspondence of Reloc model (coq/theories/Reloc) with /repo",
                              "diffs": res["diffs"][:5]}, no_input=True)
    for o in ck.proof_failures():
        ck.violation("C04/proof/" + o["name"], "theorem %s no longer checks (%s)" % (o["name"], getattr(ck, "coq_log", "")[-800:]),
                     {"broken": "theorem " + o["name"], "file": "coq/theories/Properties/Properties_C04.v"}, no_input=True)
    samples = [{"program": r["prog"][:40]} for r in results[:2] + results[len(results) // 2:len(results) // 2 + 2]]
    return ck.finish(
        "proof",
        {"evaluations": nlines, "distinct_nontrivial": nontrivial,
         "rule": "programs with absolute references (x86-64 call/jmp/jcc imm, x86-32 call/jmp/jcc imm and [label+disp], x86 absolute memory operands [abs] "
                 "with rel/abs hints, rax/moffs forms and trailing imm8/16/32, AArch64 b/bl/b.cond imm, embed_label, label-delta expressions) plus pairs of "
                 "the same body assembled with the base known at init and relocated to that base afterwards, generated from VERIF_SEED, 1-4 sections, address table last or followed by a section, base assigned at relocation "
                 "(80 %) or known at init (20 %), bases straddling 2^31/2^32/2^47/2^63/2^64, targets around the rel32 / imm26 limits; 25 % of the x86-64 "
                 "programs go through JitRuntime::_add at the real mmap address; a program is non-trivial when it contains an absolute reference",
         "samples": samples, "programs": len(programs), "operations": nlines, "distribution": stats,
         "sites_judged_by_evaluator": stats["sites"], "sites_exact": stats["exact"],
         "model_vs_impl_disagreements": disagreements, "traces_validated_against_impl": len(programs)},
        assumptions=["the harness calls the real CodeHolder::relocate_to_base / copy_flattened_data / JitRuntime::_add of /repo's working tree",
                     "theorems are about the Gallina relocation model; it is tied to the code by the differential run of this check (error code, every patched "
                     "word, opcode rewrite, table contents, size reduction)",
                     "run-time meaning is the small reference semantics of the relocation idioms (rel_target; data word; FF /2|/4 through a slot), not a full ISA "
                     "semantics; the python evaluator re-implements it independently",
                     "label positions and section offsets are taken from the implementation (C03 / C10 are their checks)",
                     "models the behaviour after fixes/C04-addrtab-size.patch (DESIGN 7.15) and fixes/C03-xsection-bound-label.patch"],
        checker_cmd="coqc (Coq 8.16.1) -Q coq/theories Verif coq/theories/Properties/Properties_C04.v  [full .vo build of its dependencies]",
        trusted_base=["Coq 8.16.1 kernel incl. vm_compute (no native_compute)", "no axioms: every theorem 'Closed under the global context'",
                      "extraction (ExtrOcamlBasic only) + OCaml 4.13.1 + zarith glue + ml/c04_driver.ml (parsing/printing only)",
                      "harness/c03_harness.cpp; tools/checks/c04.py (generator, construction of the relocation problem from the dumped entries, differ, evaluator)"])
